//! Scripted client sessions for C16: one function per session outcome class.

use std::{
    io::{self, Read, Write},
    net::{IpAddr, Shutdown, SocketAddr, TcpStream},
    sync::Arc,
    time::{Duration, Instant},
};

use rustls::{ClientConfig, ClientConnection, pki_types::ServerName};

use crate::{
    common::Rng,
    peers::{self, IoProgram, h1, tls},
};

/// what a session needs to know about its cell
pub struct Env {
    pub front: SocketAddr,
    pub front_tls: SocketAddr,
    pub front_tcp: SocketAddr,
    pub front_tcp_dead: SocketAddr,
    pub tls_h1: Arc<ClientConfig>,
    pub tls_bad_alpn: Arc<ClientConfig>,
    pub tls_h2: Arc<ClientConfig>,
    pub ctl: Arc<super::backend::BackendCtl>,
    pub probe: Arc<sozu_lib::verif::Probe>,
    /// upper bound (ms) after which an idle / stuck session must have been reclaimed
    pub reclaim_bound_ms: u64,
}

pub enum Conn {
    Plain(TcpStream),
    Tls(Box<tls::TlsClient>),
}

pub enum Rd {
    Data(usize),
    Eof,
    Timeout,
    Reset,
}

impl Conn {
    pub fn tcp(&self) -> &TcpStream {
        match self {
            Conn::Plain(s) => s,
            Conn::Tls(t) => &t.stream.sock,
        }
    }
    pub fn write_paced(&mut self, data: &[u8], seg: usize, pause_us: u64) -> io::Result<()> {
        let seg = if seg == 0 { data.len().max(1) } else { seg };
        let _ = self.tcp().set_write_timeout(Some(Duration::from_secs(5)));
        let mut off = 0;
        while off < data.len() {
            let end = (off + seg).min(data.len());
            match self {
                Conn::Plain(s) => s.write_all(&data[off..end])?,
                Conn::Tls(t) => {
                    t.write_all(&data[off..end])?;
                    t.flush()?;
                }
            }
            off = end;
            if pause_us > 0 && off < data.len() {
                std::thread::sleep(Duration::from_micros(pause_us));
            }
        }
        Ok(())
    }
    pub fn read_some(&mut self, buf: &mut [u8], wait: Duration) -> Rd {
        let _ = self.tcp().set_read_timeout(Some(wait.max(Duration::from_millis(1))));
        let r = match self {
            Conn::Plain(s) => s.read(buf),
            Conn::Tls(t) => t.read(buf),
        };
        match r {
            Ok(0) => Rd::Eof,
            Ok(n) => Rd::Data(n),
            Err(e) => match e.kind() {
                io::ErrorKind::WouldBlock | io::ErrorKind::TimedOut => Rd::Timeout,
                io::ErrorKind::Interrupted => Rd::Timeout,
                io::ErrorKind::UnexpectedEof => Rd::Eof,
                _ => Rd::Reset,
            },
        }
    }
    pub fn fin(&self) {
        let _ = self.tcp().shutdown(Shutdown::Write);
    }
    pub fn rst(self) {
        match self {
            Conn::Plain(s) => peers::reset(s),
            Conn::Tls(t) => {
                let (_c, sock) = t.stream.into_parts();
                peers::reset(sock);
            }
        }
    }
    /// end the session abruptly: FIN (plain close) or RST
    pub fn abort(self, rst: bool) {
        if rst {
            self.rst()
        } else {
            drop(self)
        }
    }
}

pub struct SessOut {
    pub tag: &'static str,
    /// socket deliberately left open by the client (idle / stuck sessions)
    pub keep: Option<Conn>,
    /// time (ms) until sozu closed / answered a session the client left idle or stuck
    pub reclaim_ms: Option<u64>,
}

fn out(tag: &'static str) -> SessOut {
    SessOut { tag, keep: None, reclaim_ms: None }
}

#[derive(Clone, Copy, Debug, PartialEq, Eq, Hash, PartialOrd, Ord)]
pub enum Class {
    H1CompleteCl,
    H1CompleteChunked,
    H1KeepAlive,
    H1BackendIdleClose,
    H1AbortAfterConnect,
    H1AbortMidHead,
    H1AbortMidBody,
    H1AbortBeforeResponse,
    H1AbortMidResponse,
    H1BadRequest,
    H1NoRoute,
    BackendRefused,
    BackendCloseBefore,
    BackendCloseMid,
    BackendRstBefore,
    BackendRstMid,
    BackendStallAbort,
    Timeout408,
    Timeout504,
    TimeoutMidResponse,
    TlsGarbage,
    TlsHelloAbort,
    TlsWrongAlpn,
    TlsAbortMid,
    TlsIdle,
    TcpClientFin,
    TcpClientRst,
    TcpBackendFin,
    TcpBackendRst,
    TcpIdle,
    TcpRefused,
    WsClientClose,
    WsBackendClose,
    H2Complete,
    H2RstMidBody,
    H2Goaway,
    H2DropOpenStreams,
    H2Idle,
    H2BackendDies,
    H2cBackendDies,
}

pub const ALL_CLASSES: &[Class] = &[
    Class::H1CompleteCl,
    Class::H1CompleteChunked,
    Class::H1KeepAlive,
    Class::H1BackendIdleClose,
    Class::H1AbortAfterConnect,
    Class::H1AbortMidHead,
    Class::H1AbortMidBody,
    Class::H1AbortBeforeResponse,
    Class::H1AbortMidResponse,
    Class::H1BadRequest,
    Class::H1NoRoute,
    Class::BackendRefused,
    Class::BackendCloseBefore,
    Class::BackendCloseMid,
    Class::BackendRstBefore,
    Class::BackendRstMid,
    Class::BackendStallAbort,
    Class::Timeout408,
    Class::Timeout504,
    Class::TimeoutMidResponse,
    Class::TlsGarbage,
    Class::TlsHelloAbort,
    Class::TlsWrongAlpn,
    Class::TlsAbortMid,
    Class::TlsIdle,
    Class::TcpClientFin,
    Class::TcpClientRst,
    Class::TcpBackendFin,
    Class::TcpBackendRst,
    Class::TcpIdle,
    Class::TcpRefused,
    Class::WsClientClose,
    Class::WsBackendClose,
    Class::H2Complete,
    Class::H2RstMidBody,
    Class::H2Goaway,
    Class::H2DropOpenStreams,
    Class::H2Idle,
    Class::H2BackendDies,
    Class::H2cBackendDies,
];

impl Class {
    pub fn base_name(self) -> &'static str {
        match self {
            Class::H1CompleteCl => "h1_complete_cl",
            Class::H1CompleteChunked => "h1_complete_chunked",
            Class::H1KeepAlive => "h1_keepalive",
            Class::H1BackendIdleClose => "h1_backend_closes_idle_keepalive",
            Class::H1AbortAfterConnect => "h1_client_abort_after_connect",
            Class::H1AbortMidHead => "h1_client_abort_mid_head",
            Class::H1AbortMidBody => "h1_client_abort_mid_body",
            Class::H1AbortBeforeResponse => "h1_client_abort_before_response",
            Class::H1AbortMidResponse => "h1_client_abort_mid_response",
            Class::H1BadRequest => "h1_bad_request",
            Class::H1NoRoute => "h1_no_route",
            Class::BackendRefused => "backend_refused",
            Class::BackendCloseBefore => "backend_close_before_response",
            Class::BackendCloseMid => "backend_close_mid_response",
            Class::BackendRstBefore => "backend_rst_before_response",
            Class::BackendRstMid => "backend_rst_mid_response",
            Class::BackendStallAbort => "backend_stall_client_abort",
            Class::Timeout408 => "timeout_408",
            Class::Timeout504 => "timeout_504",
            Class::TimeoutMidResponse => "timeout_backend_mid_response",
            Class::TlsGarbage => "tls_handshake_garbage",
            Class::TlsHelloAbort => "tls_clienthello_abort",
            Class::TlsWrongAlpn => "tls_wrong_alpn",
            Class::TlsAbortMid => "tls_abort_mid_handshake",
            Class::TlsIdle => "tls_idle",
            Class::TcpClientFin => "tcp_client_fin",
            Class::TcpClientRst => "tcp_rst",
            Class::TcpBackendFin => "tcp_backend_fin",
            Class::TcpBackendRst => "tcp_backend_rst",
            Class::TcpIdle => "tcp_idle",
            Class::TcpRefused => "tcp_backend_refused",
            Class::WsClientClose => "ws_upgrade_client_close",
            Class::WsBackendClose => "ws_upgrade_backend_close",
            Class::H2Complete => "h2_streams_completed",
            Class::H2RstMidBody => "h2_rst_stream_mid_body",
            Class::H2Goaway => "h2_goaway",
            Class::H2DropOpenStreams => "h2_connection_dropped_with_open_streams",
            Class::H2Idle => "h2_idle",
            Class::H2BackendDies => "h2_backend_dies_with_streams_in_flight",
            Class::H2cBackendDies => "h2c_backend_dies_with_requests_in_flight",
        }
    }
    /// HTTP classes that can also run over the HTTPS listener
    pub fn tls_capable(self) -> bool {
        !matches!(
            self,
            Class::TlsGarbage
                | Class::TlsHelloAbort
                | Class::TlsWrongAlpn
                | Class::TlsAbortMid
                | Class::TlsIdle
                | Class::TcpClientFin
                | Class::TcpClientRst
                | Class::TcpBackendFin
                | Class::TcpBackendRst
                | Class::TcpIdle
                | Class::TcpRefused
                | Class::H2Complete
                | Class::H2RstMidBody
                | Class::H2Goaway
                | Class::H2DropOpenStreams
                | Class::H2Idle
                | Class::H2BackendDies
        )
    }
    /// the client leaves the session idle / stuck and sozu must reclaim it by a timeout
    pub fn is_timeout(self) -> bool {
        matches!(self, Class::Timeout408 | Class::Timeout504 | Class::TimeoutMidResponse | Class::TlsIdle | Class::TcpIdle | Class::H2Idle)
    }
    pub fn name(self, tls: bool) -> String {
        if tls && self.tls_capable() { format!("tls_{}", self.base_name()) } else { self.base_name().to_owned() }
    }
}

fn prog(rcvbuf: usize) -> IoProgram {
    IoProgram { rcvbuf, ..IoProgram::default() }
}

pub fn open(env: &Env, tls_on: bool, rcvbuf: usize, bind: Option<IpAddr>) -> Result<Conn, &'static str> {
    let addr = if tls_on { env.front_tls } else { env.front };
    let tcp = peers::connect(addr, bind, &prog(rcvbuf), Duration::from_secs(3)).map_err(|_| "connect_failed")?;
    if tls_on {
        match tls::TlsClient::handshake(tcp, "a.test", env.tls_h1.clone(), Duration::from_secs(5)) {
            Ok((t, _)) => Ok(Conn::Tls(Box::new(t))),
            Err(_) => Err("tls_handshake_failed"),
        }
    } else {
        Ok(Conn::Plain(tcp))
    }
}

pub fn request(method: &str, target: &str, host: &str, extra: &str, body: Option<(&[u8], bool)>) -> Vec<u8> {
    let mut v = format!("{method} {target} HTTP/1.1\r\nHost: {host}\r\n{extra}").into_bytes();
    match body {
        Some((b, true)) => {
            v.extend_from_slice(b"Transfer-Encoding: chunked\r\n\r\n");
            v.extend(h1::chunked_encode(b, &[1, 100, 5000, 16384], &[]));
        }
        Some((b, false)) => {
            v.extend_from_slice(format!("Content-Length: {}\r\n\r\n", b.len()).as_bytes());
            v.extend_from_slice(b);
        }
        None => v.extend_from_slice(b"\r\n"),
    }
    v
}

pub struct Resp {
    pub status: Option<u16>,
    pub complete: bool,
    pub closed: bool,
    pub reset: bool,
    pub body_len: usize,
}

impl Resp {
    pub fn tag(&self) -> &'static str {
        match self.status {
            Some(200) if self.complete => "status_200",
            Some(200) => "status_200_truncated",
            Some(400) => "status_400",
            Some(404) => "status_404",
            Some(408) => "status_408",
            Some(429) => "status_429",
            Some(502) => "status_502",
            Some(503) => "status_503",
            Some(504) => "status_504",
            Some(_) => "status_other",
            None if self.reset => "reset_no_response",
            None if self.closed => "closed_no_response",
            None => "no_response_in_time",
        }
    }
}

/// read one response (until complete, close, or deadline)
pub fn read_response(c: &mut Conn, parser: &mut h1::Parser, deadline: Instant) -> Resp {
    let mut r = Resp { status: None, complete: false, closed: false, reset: false, body_len: 0 };
    let mut buf = vec![0u8; 65536];
    loop {
        let left = deadline.saturating_duration_since(Instant::now());
        if left.is_zero() {
            return r;
        }
        match c.read_some(&mut buf, left.min(Duration::from_millis(200))) {
            Rd::Data(n) => match parser.feed(&buf[..n]) {
                Ok(events) => {
                    for e in events {
                        match e {
                            h1::Event::Head(h) => r.status = h.status(),
                            h1::Event::Body(b) => r.body_len += b.len(),
                            h1::Event::End(_) => {
                                r.complete = true;
                                return r;
                            }
                        }
                    }
                }
                Err(_) => {
                    r.closed = true;
                    return r;
                }
            },
            Rd::Eof => {
                r.closed = true;
                if parser.eof().ok().flatten().is_some() {
                    r.complete = true;
                }
                return r;
            }
            Rd::Reset => {
                r.closed = true;
                r.reset = true;
                return r;
            }
            Rd::Timeout => {}
        }
    }
}

fn new_parser() -> h1::Parser {
    h1::Parser::new(h1::Kind::Response, false)
}

fn sizes(rng: &mut Rng) -> usize {
    rng.boundary_size(&[0, 1, 4096, 16384, 16393, 32768], 70_000)
}

/// (segment size, pause): at most ~300 paced segments per message
fn pacing(rng: &mut Rng, len: usize) -> (usize, u64) {
    match rng.below(4) {
        0 => (rng.urange(1, 64).max(len / 300), 200),
        1 => (rng.urange(100, 4000), 500),
        _ => (0, 0),
    }
}

fn ms(n: u64) {
    std::thread::sleep(Duration::from_millis(n));
}

/// wait until sozu closes or answers; returns (tag, elapsed ms)
fn wait_reclaim(c: &mut Conn, bound_ms: u64) -> (&'static str, u64) {
    let start = Instant::now();
    let mut p = new_parser();
    let deadline = start + Duration::from_millis(bound_ms);
    let r = read_response(c, &mut p, deadline);
    let mut tag = r.tag();
    if r.status.is_some() && !r.closed {
        // answered (e.g. 408 / 504): the session itself must also go away
        let mut buf = [0u8; 4096];
        loop {
            let left = deadline.saturating_duration_since(Instant::now());
            if left.is_zero() {
                tag = "answered_but_not_closed_in_time";
                break;
            }
            match c.read_some(&mut buf, left.min(Duration::from_millis(200))) {
                Rd::Eof | Rd::Reset => break,
                _ => {}
            }
        }
    }
    (tag, start.elapsed().as_millis() as u64)
}

fn client_hello(cfg: &Arc<ClientConfig>) -> Vec<u8> {
    let mut v = Vec::new();
    if let Ok(name) = ServerName::try_from("a.test".to_owned()) {
        if let Ok(mut conn) = ClientConnection::new(cfg.clone(), name) {
            let _ = conn.write_tls(&mut v);
        }
    }
    v
}

pub fn run_session(env: &Env, class: Class, tls_on: bool, rng: &mut Rng) -> SessOut {
    let tls_on = tls_on && class.tls_capable();
    let rst = rng.bool();
    let deadline = Instant::now() + Duration::from_secs(8);
    macro_rules! conn {
        ($rcv:expr) => {
            match open(env, tls_on, $rcv, None) {
                Ok(c) => c,
                Err(t) => return out(t),
            }
        };
    }
    match class {
        Class::H2Complete | Class::H2RstMidBody | Class::H2Goaway | Class::H2DropOpenStreams | Class::H2Idle | Class::H2BackendDies => super::h2::run_session(env, class, rng),
        Class::H1CompleteCl | Class::H1CompleteChunked => {
            let mut c = conn!(0);
            let chunked = class == Class::H1CompleteChunked;
            let body = { let n = sizes(rng); rng.bytes(n) };
            let kind = if chunked { "chunked" } else { "ok" };
            let target = format!("/{kind}?len={}", sizes(rng));
            let req = if chunked || rng.bool() {
                request("POST", &target, "a.test", "", Some((&body, chunked)))
            } else {
                request("GET", &target, "a.test", "", None)
            };
            let (seg, pause) = pacing(rng, req.len());
            if c.write_paced(&req, seg, pause).is_err() {
                return out("write_failed");
            }
            let r = read_response(&mut c, &mut new_parser(), deadline);
            c.abort(rst);
            out(r.tag())
        }
        Class::H1KeepAlive => {
            let mut c = conn!(0);
            let k = rng.urange(2, 8);
            let mut p = new_parser();
            let mut tag = "status_200";
            for i in 0..k {
                let last = i + 1 == k;
                let kind = match rng.below(4) {
                    0 => "chunked",
                    1 if last => "close_conn",
                    _ => "ok",
                };
                let host = if rng.chance(1, 4) { "b.test" } else { "a.test" };
                let body = { let n = rng.urange(0, 3000); rng.bytes(n) };
                let req = request("POST", &format!("/{kind}?len={}", rng.urange(0, 20000)), host, "", Some((&body, rng.bool())));
                if c.write_paced(&req, 0, 0).is_err() {
                    tag = "write_failed";
                    break;
                }
                let r = read_response(&mut c, &mut p, deadline);
                if !(r.status == Some(200) && r.complete) {
                    tag = r.tag();
                    break;
                }
            }
            c.abort(rst);
            out(tag)
        }
        Class::H1BackendIdleClose => {
            // the request completes, the client keeps its connection, the backend closes (FIN/RST)
            // its idle kept-alive connection, and only then the client goes on / leaves
            let mut c = conn!(0);
            let id = rng.next_u64() >> 1;
            let mut p = new_parser();
            let target = format!("/idle_close?id={id}&ms={}&rst={}&len={}", rng.range(2, 40), rng.below(2), rng.urange(0, 3000));
            if c.write_paced(&request("GET", &target, "a.test", "", None), 0, 0).is_err() {
                return out("write_failed");
            }
            let r = read_response(&mut c, &mut p, deadline);
            if !(r.status == Some(200) && r.complete) {
                let t = r.tag();
                c.abort(rst);
                return out(t);
            }
            // wait (logical condition) until the backend has closed its side ...
            let mut closed = false;
            while Instant::now() < deadline {
                if env.ctl.idle_closed.lock().unwrap().remove(&id) {
                    closed = true;
                    break;
                }
                ms(1);
            }
            if !closed {
                c.abort(rst);
                return out("backend_idle_close_not_seen");
            }
            // ... and sozu's event loop has run on it
            let it = env.probe.snapshot().iteration;
            let until = Instant::now() + Duration::from_millis(400);
            while env.probe.snapshot().iteration < it + 2 && Instant::now() < until {
                ms(1);
            }
            ms(rng.below(8));
            let tag = match rng.below(3) {
                0 => "backend_idle_closed_then_client_left",
                _ => {
                    // the connection is used again: a new backend connection is needed
                    let host = if rng.bool() { "a.test" } else { "b.test" };
                    let _ = c.write_paced(&request("GET", "/ok?len=7", host, "", None), 0, 0);
                    let r2 = read_response(&mut c, &mut p, deadline);
                    if r2.status == Some(200) && r2.complete { "backend_idle_closed_then_reused" } else { "backend_idle_closed_then_reuse_failed" }
                }
            };
            c.abort(rst);
            out(tag)
        }
        Class::H2cBackendDies => {
            // HTTP/1.1 client (plain or TLS), h2c backend that kills its connection with the request
            // in flight (sometimes after a first complete exchange on the same client connection)
            let mut c = conn!(0);
            let mut p = new_parser();
            if rng.bool() {
                let _ = c.write_paced(&request("GET", "/ok", "h2c.test", "", None), 0, 0);
                let r = read_response(&mut c, &mut p, deadline);
                if !(r.status == Some(200) && r.complete) {
                    let t = r.tag();
                    c.abort(rst);
                    return out(t);
                }
            }
            let before = env.ctl.h2c_killed.load(std::sync::atomic::Ordering::SeqCst);
            let target = *rng.pick(&["/die", "/die_rst", "/die_mid"]);
            let _ = c.write_paced(&request("GET", target, "h2c.test", "", None), 0, 0);
            let r = read_response(&mut c, &mut p, Instant::now() + Duration::from_secs(6));
            let killed = env.ctl.h2c_killed.load(std::sync::atomic::Ordering::SeqCst) > before;
            c.abort(rst);
            out(if killed && (r.status.is_some() || r.closed) { "h2c_backend_killed_in_flight" } else { r.tag() })
        }
        Class::H1AbortAfterConnect => {
            let c = conn!(0);
            ms(rng.below(4));
            c.abort(rst);
            out("aborted")
        }
        Class::H1AbortMidHead => {
            let mut c = conn!(0);
            let req = request("GET", "/ok?len=10", "a.test", "X-Pad: aaaaaaaaaaaaaaaaaaaaaaaaaaaaaaaaaaaaaa\r\n", None);
            let k = rng.urange(1, req.len() - 1);
            let _ = c.write_paced(&req[..k], 0, 0);
            ms(rng.below(6));
            c.abort(rst);
            out("aborted")
        }
        Class::H1AbortMidBody => {
            let mut c = conn!(0);
            let n = rng.urange(1000, 70_000);
            let body = rng.bytes(n);
            let chunked = rng.chance(1, 3);
            let req = request("POST", "/ok?len=10", "a.test", "", Some((&body, chunked)));
            let head_len = h1::memfind(&req, b"\r\n\r\n").map(|p| p + 4).unwrap_or(0);
            let k = head_len + rng.urange(0, (req.len() - head_len).saturating_sub(2));
            let _ = c.write_paced(&req[..k], 0, 0);
            ms(rng.below(15));
            c.abort(rst);
            out("aborted")
        }
        Class::H1AbortBeforeResponse => {
            let mut c = conn!(0);
            let req = request("GET", "/slow?ms=400", "a.test", "", None);
            let _ = c.write_paced(&req, 0, 0);
            ms(rng.below(60));
            c.abort(rst);
            out("aborted")
        }
        Class::H1AbortMidResponse => {
            let mut c = conn!(4096);
            let len = rng.urange(300_000, 3_000_000);
            let req = request("GET", &format!("/big?len={len}"), "a.test", "", None);
            let _ = c.write_paced(&req, 0, 0);
            let want = rng.urange(1, 100_000);
            let mut got = 0;
            let mut buf = vec![0u8; 8192];
            while got < want && Instant::now() < deadline {
                match c.read_some(&mut buf, Duration::from_millis(500)) {
                    Rd::Data(n) => got += n,
                    Rd::Timeout => {}
                    _ => break,
                }
            }
            ms(rng.below(10));
            c.abort(rst);
            out(if got > 0 { "aborted_mid_response" } else { "aborted" })
        }
        Class::H1BadRequest => {
            let mut c = conn!(0);
            let junk: &[u8] = match rng.below(3) {
                0 => b"\x00\x01\x02 garbage\r\n\r\n",
                1 => b"GET / HTTP/1.1\r\nHost a.test no colon\r\n\r\n",
                _ => b"GET / HTTP/1.1\r\nHost: a.test\r\nContent-Length: 5\r\nContent-Length: 7\r\n\r\nabcde",
            };
            let _ = c.write_paced(junk, 0, 0);
            let r = read_response(&mut c, &mut new_parser(), Instant::now() + Duration::from_secs(3));
            c.abort(rst);
            out(r.tag())
        }
        Class::H1NoRoute | Class::BackendRefused | Class::BackendCloseBefore | Class::BackendCloseMid | Class::BackendRstBefore | Class::BackendRstMid => {
            let mut c = conn!(0);
            let (host, target) = match class {
                Class::H1NoRoute => ("nowhere.test", "/ok".to_owned()),
                Class::BackendRefused => ("refuse.test", "/ok".to_owned()),
                Class::BackendCloseBefore => ("a.test", "/early_close".to_owned()),
                Class::BackendCloseMid => ("a.test", format!("/close_mid?len={}", rng.urange(2, 60_000))),
                Class::BackendRstBefore => ("a.test", "/rst_before".to_owned()),
                _ => ("a.test", format!("/rst_mid?len={}&ms={}", rng.urange(2, 60_000), rng.below(5))),
            };
            let body = { let n = rng.urange(0, 2000); rng.bytes(n) };
            let req = if rng.bool() { request("GET", &target, host, "", None) } else { request("POST", &target, host, "", Some((&body, false))) };
            let _ = c.write_paced(&req, 0, 0);
            let r = read_response(&mut c, &mut new_parser(), deadline);
            c.abort(rst);
            out(r.tag())
        }
        Class::BackendStallAbort => {
            let mut c = conn!(0);
            let target = if rng.bool() { "/stall" } else { "/stall_mid?len=5000" };
            let _ = c.write_paced(&request("GET", target, "a.test", "", None), 0, 0);
            ms(rng.range(20, 150));
            c.abort(rst);
            out("aborted")
        }
        Class::Timeout408 => {
            let mut c = conn!(0);
            match rng.below(3) {
                0 => {}
                1 => {
                    let req = request("GET", "/ok", "a.test", "X-Pad: bbbbbbbbbbbbbbbbbbbbbbbb\r\n", None);
                    let k = rng.urange(1, req.len() - 1);
                    let _ = c.write_paced(&req[..k], 0, 0);
                }
                _ => {
                    let body = rng.bytes(2000);
                    let req = request("POST", "/ok", "a.test", "", Some((&body, false)));
                    let k = req.len() - rng.urange(1, 1500);
                    let _ = c.write_paced(&req[..k], 0, 0);
                }
            }
            let (tag, el) = wait_reclaim(&mut c, env.reclaim_bound_ms);
            SessOut { tag, keep: Some(c), reclaim_ms: Some(el) }
        }
        Class::Timeout504 | Class::TimeoutMidResponse => {
            let mut c = conn!(0);
            let target = if class == Class::Timeout504 { "/stall" } else { "/stall_mid?len=4000" };
            let _ = c.write_paced(&request("GET", target, "a.test", "", None), 0, 0);
            let (tag, el) = wait_reclaim(&mut c, env.reclaim_bound_ms);
            SessOut { tag, keep: Some(c), reclaim_ms: Some(el) }
        }
        Class::TlsGarbage | Class::TlsHelloAbort | Class::TlsAbortMid | Class::TlsIdle => {
            let Ok(tcp) = peers::connect(env.front_tls, None, &prog(0), Duration::from_secs(3)) else { return out("connect_failed") };
            let mut c = Conn::Plain(tcp);
            let hello = client_hello(&env.tls_h1);
            match class {
                Class::TlsGarbage => {
                    let mut junk = { let n = rng.urange(1, 600); rng.bytes(n) };
                    if rng.bool() {
                        junk[0] = 0x16;
                    }
                    let _ = c.write_paced(&junk, 0, 0);
                    let mut buf = [0u8; 2048];
                    let until = Instant::now() + Duration::from_millis(rng.range(5, 300));
                    let mut tag = "tls_garbage_client_closed";
                    while Instant::now() < until {
                        match c.read_some(&mut buf, Duration::from_millis(50)) {
                            Rd::Eof | Rd::Reset => {
                                tag = "tls_garbage_sozu_closed";
                                break;
                            }
                            _ => {}
                        }
                    }
                    c.abort(rst);
                    out(tag)
                }
                Class::TlsHelloAbort => {
                    let _ = c.write_paced(&hello, 0, 0);
                    ms(rng.below(3));
                    c.abort(rst);
                    out("tls_hello_aborted")
                }
                Class::TlsAbortMid => {
                    if rng.bool() && hello.len() > 2 {
                        let k = rng.urange(1, hello.len() - 1);
                        let _ = c.write_paced(&hello[..k], 0, 0);
                        ms(rng.below(5));
                    } else {
                        let _ = c.write_paced(&hello, 0, 0);
                        let mut buf = [0u8; 8192];
                        let _ = c.read_some(&mut buf, Duration::from_millis(500));
                    }
                    c.abort(rst);
                    out("tls_mid_handshake_aborted")
                }
                _ => {
                    if rng.bool() && hello.len() > 2 {
                        let k = rng.urange(1, hello.len() - 1);
                        let _ = c.write_paced(&hello[..k], 0, 0);
                    }
                    let (tag, el) = wait_reclaim(&mut c, env.reclaim_bound_ms);
                    SessOut { tag, keep: Some(c), reclaim_ms: Some(el) }
                }
            }
        }
        Class::TlsWrongAlpn => {
            let Ok(tcp) = peers::connect(env.front_tls, None, &prog(0), Duration::from_secs(3)) else { return out("connect_failed") };
            match tls::TlsClient::handshake(tcp, "a.test", env.tls_bad_alpn.clone(), Duration::from_secs(3)) {
                Ok((t, _)) => {
                    let mut c = Conn::Tls(Box::new(t));
                    let _ = c.write_paced(&request("GET", "/ok", "a.test", "", None), 0, 0);
                    let r = read_response(&mut c, &mut new_parser(), Instant::now() + Duration::from_secs(3));
                    c.abort(rst);
                    out(if r.status.is_some() { "tls_wrong_alpn_served" } else { "tls_wrong_alpn_closed" })
                }
                Err(_) => out("tls_handshake_failed"),
            }
        }
        Class::TcpClientFin | Class::TcpClientRst | Class::TcpBackendFin | Class::TcpBackendRst | Class::TcpIdle | Class::TcpRefused => {
            let addr = if class == Class::TcpRefused { env.front_tcp_dead } else { env.front_tcp };
            let Ok(tcp) = peers::connect(addr, None, &prog(0), Duration::from_secs(3)) else { return out("connect_failed") };
            let mut c = Conn::Plain(tcp);
            let mut buf = vec![0u8; 65536];
            match class {
                Class::TcpClientFin | Class::TcpClientRst => {
                    let payload = { let n = rng.urange(1, 50_000); rng.bytes(n) };
                    let mut msg = b"E\n".to_vec();
                    msg.extend_from_slice(&payload);
                    let (seg, pause) = pacing(rng, msg.len());
                    let _ = c.write_paced(&msg, seg, pause);
                    let want = if class == Class::TcpClientRst { rng.urange(0, payload.len()) } else { payload.len() };
                    let mut got = 0;
                    while got < want && Instant::now() < deadline {
                        match c.read_some(&mut buf, Duration::from_millis(500)) {
                            Rd::Data(n) => got += n,
                            Rd::Timeout => {}
                            _ => break,
                        }
                    }
                    if class == Class::TcpClientRst {
                        c.rst();
                        return out(if got > 0 { "tcp_relayed" } else { "tcp_no_relay" });
                    }
                    c.fin();
                    let mut closed = false;
                    while Instant::now() < deadline {
                        match c.read_some(&mut buf, Duration::from_millis(500)) {
                            Rd::Eof | Rd::Reset => {
                                closed = true;
                                break;
                            }
                            _ => {}
                        }
                    }
                    out(if got == payload.len() && closed { "tcp_relayed" } else { "tcp_incomplete" })
                }
                Class::TcpBackendFin | Class::TcpBackendRst => {
                    let n = rng.urange(0, 40_000);
                    let cmd = if class == Class::TcpBackendFin { format!("C{n}\n") } else { format!("R{n}\n") };
                    let _ = c.write_paced(cmd.as_bytes(), 0, 0);
                    let mut got = 0;
                    let mut closed = false;
                    while Instant::now() < deadline {
                        match c.read_some(&mut buf, Duration::from_millis(500)) {
                            Rd::Data(k) => got += k,
                            Rd::Timeout => {}
                            _ => {
                                closed = true;
                                break;
                            }
                        }
                    }
                    c.abort(rst);
                    out(if closed && (got == n || class == Class::TcpBackendRst) { "tcp_relayed" } else { "tcp_incomplete" })
                }
                Class::TcpRefused => {
                    let _ = c.write_paced(b"E\nhello", 0, 0);
                    let mut closed = false;
                    let until = Instant::now() + Duration::from_secs(5);
                    while Instant::now() < until {
                        match c.read_some(&mut buf, Duration::from_millis(500)) {
                            Rd::Eof | Rd::Reset => {
                                closed = true;
                                break;
                            }
                            _ => {}
                        }
                    }
                    c.abort(rst);
                    out(if closed { "tcp_refused_closed" } else { "tcp_refused_not_closed" })
                }
                _ => {
                    if rng.bool() {
                        let _ = c.write_paced(b"S\n", 0, 0);
                    }
                    let (tag, el) = wait_reclaim(&mut c, env.reclaim_bound_ms);
                    SessOut { tag, keep: Some(c), reclaim_ms: Some(el) }
                }
            }
        }
        Class::WsClientClose | Class::WsBackendClose => {
            let mut c = conn!(0);
            let req = request(
                "GET",
                "/ws",
                "a.test",
                "Upgrade: websocket\r\nConnection: Upgrade\r\nSec-WebSocket-Key: dGhlIHNhbXBsZSBub25jZQ==\r\nSec-WebSocket-Version: 13\r\n",
                None,
            );
            let _ = c.write_paced(&req, 0, 0);
            let mut acc = Vec::new();
            let mut buf = vec![0u8; 8192];
            let mut upgraded = false;
            while Instant::now() < deadline {
                match c.read_some(&mut buf, Duration::from_millis(500)) {
                    Rd::Data(n) => {
                        acc.extend_from_slice(&buf[..n]);
                        if h1::memfind(&acc, b"\r\n\r\n").is_some() {
                            upgraded = acc.starts_with(b"HTTP/1.1 101");
                            break;
                        }
                    }
                    Rd::Timeout => {}
                    _ => break,
                }
            }
            if !upgraded {
                c.abort(rst);
                return out("ws_not_upgraded");
            }
            // some frames (opaque bytes for the proxy) echoed by the backend
            let rounds = rng.urange(0, 3);
            let mut echoed = true;
            for _ in 0..rounds {
                let payload = { let n = rng.urange(1, 3000); rng.bytes(n) };
                let _ = c.write_paced(&payload, 0, 0);
                let mut got = 0;
                while got < payload.len() && Instant::now() < deadline {
                    match c.read_some(&mut buf, Duration::from_millis(500)) {
                        Rd::Data(n) => got += n,
                        Rd::Timeout => {}
                        _ => break,
                    }
                }
                echoed &= got == payload.len();
            }
            if class == Class::WsBackendClose {
                let _ = c.write_paced(if rst { b"BYE_RST" } else { b"BYE_FIN" }, 0, 0);
                let mut closed = false;
                while Instant::now() < deadline {
                    match c.read_some(&mut buf, Duration::from_millis(500)) {
                        Rd::Eof | Rd::Reset => {
                            closed = true;
                            break;
                        }
                        _ => {}
                    }
                }
                drop(c);
                return out(if closed && echoed { "ws_upgraded" } else { "ws_upgraded_incomplete" });
            }
            c.abort(rst);
            out(if echoed { "ws_upgraded" } else { "ws_upgraded_incomplete" })
        }
    }
}
