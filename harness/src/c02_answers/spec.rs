//! C02 — request / fault specifications shared by the scripted clients, the scripted backends and
//! the oracle. A request carries its whole backend script in its path:
//! `/r/<id>/<script>/<len>/<framing>/<chunk>/<times>/<delay_ms>/<early>`.

use crate::{common::rng::keystream, peers::h1};

pub const FRONT_TIMEOUT_S: u32 = 2;
pub const BACK_TIMEOUT_S: u32 = 2;
pub const CONNECT_TIMEOUT_S: u32 = 1;
pub const REQUEST_TIMEOUT_S: u32 = 1;
/// front timeout of the second listener pair (back_timeout stays 2 s): a backend timer that is
/// lost shows as an answer at this time instead of at back_timeout
pub const LONG_FRONT_TIMEOUT_S: u32 = 9;
/// sticky clusters per cell (one fresh refusing backend each), hosts `st<i>.test`
pub const STICKY_SLOTS: usize = 12;
pub const STICKY_HOSTS: [&str; STICKY_SLOTS] = [
    "st0.test", "st1.test", "st2.test", "st3.test", "st4.test", "st5.test", "st6.test", "st7.test", "st8.test", "st9.test", "st10.test", "st11.test",
];
/// sozu's `CONN_RETRIES` (server.rs) — only used to size the time bound of the "refused" cause
pub const CONNECT_ATTEMPTS: u64 = 3;
pub const SLACK_MS: u64 = 3000;
/// debugging aid (`--opt slack_ms=N`): wait longer than the bound to see what finally happens
pub static EXTRA_WAIT_MS: std::sync::atomic::AtomicU64 = std::sync::atomic::AtomicU64::new(0);
/// `times` value meaning "the fault applies to every attempt"
pub const ALWAYS: u8 = 9;
pub const UPLOAD_SALT: u64 = 0x5eed_0000_0000_0000;

#[derive(Clone, Copy, Debug, PartialEq, Eq, Hash, PartialOrd, Ord)]
pub enum Front {
    H1Tcp,
    H1Tls,
    H2Tls,
}

impl Front {
    pub const ALL: [Front; 3] = [Front::H1Tcp, Front::H1Tls, Front::H2Tls];
    pub const H1: [Front; 2] = [Front::H1Tcp, Front::H1Tls];
    pub fn name(self) -> &'static str {
        match self {
            Front::H1Tcp => "h1tcp",
            Front::H1Tls => "h1tls",
            Front::H2Tls => "h2tls",
        }
    }
    pub fn is_h1(self) -> bool {
        self != Front::H2Tls
    }
    pub fn is_tls(self) -> bool {
        self != Front::H1Tcp
    }
}

#[derive(Clone, Copy, Debug, PartialEq, Eq)]
pub enum Back {
    H1,
    H2c,
    /// the answer is produced by sozu without any backend exchange
    Proxy,
}

impl Back {
    pub fn name(self) -> &'static str {
        match self {
            Back::H1 => "h1",
            Back::H2c => "h2c",
            Back::Proxy => "none",
        }
    }
}

/// framing of the scripted HTTP/1.1 backend's response
#[derive(Clone, Copy, Debug, PartialEq, Eq)]
pub enum Fr {
    Cl,
    Chunked,
    ClClose,
    ChunkedClose,
    UntilClose,
}

impl Fr {
    pub fn name(self) -> &'static str {
        match self {
            Fr::Cl => "content-length",
            Fr::Chunked => "chunked",
            Fr::ClClose => "content-length+connection-close",
            Fr::ChunkedClose => "chunked+connection-close",
            Fr::UntilClose => "close-delimited",
        }
    }
    pub fn code(self) -> u8 {
        match self {
            Fr::Cl => 0,
            Fr::Chunked => 1,
            Fr::ClClose => 2,
            Fr::ChunkedClose => 3,
            Fr::UntilClose => 4,
        }
    }
    pub fn from_code(c: u8) -> Fr {
        match c {
            1 => Fr::Chunked,
            2 => Fr::ClClose,
            3 => Fr::ChunkedClose,
            4 => Fr::UntilClose,
            _ => Fr::Cl,
        }
    }
    pub fn closes(self) -> bool {
        matches!(self, Fr::ClClose | Fr::ChunkedClose | Fr::UntilClose)
    }
    pub fn chunked(self) -> bool {
        matches!(self, Fr::Chunked | Fr::ChunkedClose)
    }
}

#[derive(Clone, Debug, PartialEq)]
pub enum Fault {
    None,
    // routing outcomes (no backend exchange)
    NoRoute,
    Deny,
    WrongCert,
    PerIp,
    NoBackend,
    Refused,
    // HTTP/1.1 backend
    /// send the first k bytes of the response, then FIN (rst=false) or RST (rst=true)
    Close { k: usize, rst: bool },
    /// send the first k bytes of the response, then stay silent for ever
    Stall { k: usize },
    Garbage { v: u8 },
    /// answer completely (keep-alive), then close the idle connection after `delay_ms`
    IdleClose { delay_ms: u32 },
    /// the request that follows an `IdleClose` one and may hit the closed backend connection
    NextAfterIdle,
    /// sticky cluster `st<slot>`: the cookie names the backend that refuses connections (fresh,
    /// not marked down) while the cluster's other backend is up
    StickyDead { slot: u8 },
    /// control: the cookie names the live backend of the sticky cluster
    StickyLive { slot: u8 },
    /// the backend sends an interim response (103, or 100 to a complete request) and then
    /// stays silent
    InterimStall { code: u16 },
    /// the backend writes the first `pre` bytes of its answer at once and the rest only after
    /// `after_ms` (later than back_timeout), on the connection it got the request on, and keeps
    /// serving that connection
    Late { pre: usize, after_ms: u32 },
    /// HTTP/1.1 client never finishes: 0 = stops inside the header block, 1 = head without the
    /// final CRLF, 2 = complete head, half of the declared body
    ClientStall { part: u8 },
    // h2c backend; stage 0 = nothing sent, 1 = response HEADERS sent, 2 = HEADERS + half the DATA
    H2cRst { code: u32, stage: u8 },
    H2cGoaway { code: u32, stage: u8 },
    H2cClose { stage: u8 },
    H2cStall { stage: u8 },
    H2cNoAck,
}

impl Fault {
    pub fn script(&self) -> String {
        match self {
            Fault::Close { k, rst } => format!("close.{k}.{}", *rst as u8),
            Fault::Stall { k } => format!("stall.{k}"),
            Fault::Garbage { v } => format!("garb.{v}"),
            Fault::IdleClose { delay_ms } => format!("idle.{delay_ms}"),
            Fault::InterimStall { code } => format!("interim.{code}"),
            Fault::Late { pre, after_ms } => format!("late.{pre}.{after_ms}"),
            Fault::H2cRst { code, stage } => format!("hrst.{code}.{stage}"),
            Fault::H2cGoaway { code, stage } => format!("hgoaway.{code}.{stage}"),
            Fault::H2cClose { stage } => format!("hclose.{stage}"),
            Fault::H2cStall { stage } => format!("hstall.{stage}"),
            Fault::H2cNoAck => "hnoack".to_owned(),
            _ => "ok".to_owned(),
        }
    }
    pub fn parse(s: &str) -> Fault {
        let p: Vec<&str> = s.split('.').collect();
        let n = |i: usize| p.get(i).and_then(|v| v.parse::<u64>().ok()).unwrap_or(0);
        match p[0] {
            "close" => Fault::Close { k: n(1) as usize, rst: n(2) == 1 },
            "stall" => Fault::Stall { k: n(1) as usize },
            "garb" => Fault::Garbage { v: n(1) as u8 },
            "idle" => Fault::IdleClose { delay_ms: n(1) as u32 },
            "interim" => Fault::InterimStall { code: n(1) as u16 },
            "late" => Fault::Late { pre: n(1) as usize, after_ms: n(2) as u32 },
            "hrst" => Fault::H2cRst { code: n(1) as u32, stage: n(2) as u8 },
            "hgoaway" => Fault::H2cGoaway { code: n(1) as u32, stage: n(2) as u8 },
            "hclose" => Fault::H2cClose { stage: n(1) as u8 },
            "hstall" => Fault::H2cStall { stage: n(1) as u8 },
            "hnoack" => Fault::H2cNoAck,
            _ => Fault::None,
        }
    }
}

/// what the backend has to do for one request (decoded from the path)
#[derive(Clone, Debug)]
pub struct Script {
    pub id: u64,
    pub fault: Fault,
    pub len: usize,
    pub fr: Fr,
    pub chunk: usize,
    pub times: u8,
    pub delay_ms: u32,
    pub early: bool,
}

impl Script {
    pub fn parse(path: &str) -> Option<Script> {
        let p: Vec<&str> = path.split('/').collect();
        if p.len() < 10 || p[1] != "r" {
            return None;
        }
        Some(Script {
            id: p[2].parse().ok()?,
            fault: Fault::parse(p[3]),
            len: p[4].parse().ok()?,
            fr: Fr::from_code(p[5].parse().ok()?),
            chunk: p[6].parse().ok()?,
            times: p[7].parse().ok()?,
            delay_ms: p[8].parse().ok()?,
            early: p[9] == "1",
        })
    }
}

/// the scripted HTTP/1.1 backend's complete response and the length of its head
pub fn h1_response(id: u64, len: usize, fr: Fr, chunk: usize) -> (Vec<u8>, usize) {
    let mut head = String::from("HTTP/1.1 200 OK\r\n");
    match fr {
        Fr::Cl | Fr::ClClose => head += &format!("Content-Length: {len}\r\n"),
        Fr::Chunked | Fr::ChunkedClose => head += "Transfer-Encoding: chunked\r\n",
        Fr::UntilClose => {}
    }
    if fr.closes() {
        head += "Connection: close\r\n";
    }
    head += "\r\n";
    let body = keystream(id, 0, len);
    let mut out = head.into_bytes();
    let head_len = out.len();
    if fr.chunked() {
        out.extend(h1::chunked_encode(&body, &[chunk.max(1)], &[]));
    } else {
        out.extend(body);
    }
    (out, head_len)
}

/// how far the backend's response had got when the fault hit
#[derive(Clone, Copy, Debug, PartialEq, Eq)]
pub enum Progress {
    /// not one byte of a response was sent
    Nothing,
    /// part of the response head was sent (nothing a proxy could relay yet)
    MidHead,
    /// the whole head (and maybe part of the body) was sent: the response has started
    Started,
}

#[derive(Clone, Debug)]
pub struct ReqSpec {
    pub id: u64,
    pub host: &'static str,
    pub back: Back,
    pub fault: Fault,
    pub len: usize,
    pub fr: Fr,
    pub chunk: usize,
    /// request body length (0 = GET)
    pub upload: usize,
    /// the client pauses in the middle of the request body
    pub upload_split: bool,
    /// the backend acts as soon as it has the request head (before the request is complete)
    pub early: bool,
    /// the fault applies to the first `times` attempts the backend sees (ALWAYS = all)
    pub times: u8,
    pub delay_ms: u32,
    /// the client waits this long before sending this request
    pub gap_ms: u32,
}

impl ReqSpec {
    pub fn new(host: &'static str, back: Back, fault: Fault) -> ReqSpec {
        ReqSpec {
            id: 0,
            host,
            back,
            fault,
            len: 8,
            fr: Fr::Cl,
            chunk: 4,
            upload: 0,
            upload_split: false,
            early: false,
            times: ALWAYS,
            delay_ms: 0,
            gap_ms: 0,
        }
    }
    pub fn path(&self) -> String {
        format!(
            "/r/{}/{}/{}/{}/{}/{}/{}/{}",
            self.id,
            self.fault.script(),
            self.len,
            self.fr.code(),
            self.chunk,
            self.times,
            self.delay_ms,
            self.early as u8
        )
    }
    pub fn authority(&self) -> &'static str {
        if self.fault == Fault::WrongCert { "outside.test" } else { self.host }
    }
    /// sticky-session cookie sent with the request (default sticky name of the listeners)
    pub fn cookie(&self) -> Option<String> {
        match self.fault {
            Fault::StickyDead { slot } => Some(format!("SOZUBALANCEID=dead{slot}")),
            Fault::StickyLive { slot } => Some(format!("SOZUBALANCEID=live{slot}")),
            _ => None,
        }
    }
    pub fn method(&self) -> &'static str {
        if self.upload > 0 { "POST" } else { "GET" }
    }
    pub fn expected_body(&self) -> Vec<u8> {
        keystream(self.id, 0, self.len)
    }
    pub fn is_healthy(&self) -> bool {
        self.fault == Fault::None
    }

    /// progress of the backend's response at the moment of the fault
    pub fn progress(&self) -> Progress {
        match &self.fault {
            Fault::Close { k, .. } | Fault::Stall { k } => {
                let (_, head_len) = h1_response(self.id, self.len, self.fr, self.chunk);
                if *k == 0 {
                    Progress::Nothing
                } else if *k < head_len {
                    Progress::MidHead
                } else {
                    Progress::Started
                }
            }
            Fault::H2cRst { stage, .. } | Fault::H2cGoaway { stage, .. } | Fault::H2cClose { stage } | Fault::H2cStall { stage } => {
                if *stage == 0 { Progress::Nothing } else { Progress::Started }
            }
            _ => Progress::Nothing,
        }
    }

    /// evidence key of the injected cause
    pub fn cause(&self) -> String {
        let prog = |p: Progress| match p {
            Progress::Nothing => "before_response",
            Progress::MidHead => "mid_head",
            Progress::Started => "response_started",
        };
        match &self.fault {
            Fault::None => "ok".into(),
            Fault::NoRoute => "no_route".into(),
            Fault::Deny => "denied".into(),
            Fault::WrongCert => "wrong_certificate".into(),
            Fault::PerIp => "per_ip_limit".into(),
            Fault::NoBackend => "no_backend".into(),
            Fault::Refused => "connect_refused".into(),
            Fault::Close { rst: false, .. } => format!("backend_closed/{}", prog(self.progress())),
            Fault::Close { rst: true, .. } => format!("backend_reset/{}", prog(self.progress())),
            Fault::Stall { .. } => format!("backend_silent/{}", prog(self.progress())),
            Fault::Garbage { .. } => "backend_garbage".into(),
            Fault::IdleClose { .. } => "idle_close_prelude".into(),
            Fault::NextAfterIdle => "idle_close_then_next".into(),
            Fault::StickyDead { .. } => "sticky_backend_refusing_sibling_up".into(),
            Fault::StickyLive { .. } => "sticky_backend_up".into(),
            Fault::InterimStall { .. } => "backend_silent_after_interim".into(),
            Fault::Late { .. } => "backend_answers_after_timeout".into(),
            Fault::ClientStall { part: 2 } => "client_stalls_mid_body".into(),
            Fault::ClientStall { .. } => "client_never_finishes_head".into(),
            Fault::H2cRst { .. } => format!("h2c_rst_stream/{}", prog(self.progress())),
            Fault::H2cGoaway { .. } => format!("h2c_goaway/{}", prog(self.progress())),
            Fault::H2cClose { .. } => format!("h2c_closed/{}", prog(self.progress())),
            Fault::H2cStall { .. } => format!("h2c_silent/{}", prog(self.progress())),
            Fault::H2cNoAck => "h2c_no_settings_ack".into(),
        }
    }

    /// the configured timeout that governs this cause (ms); 0 = the answer needs no timer
    pub fn governing_ms(&self) -> u64 {
        match &self.fault {
            Fault::Stall { .. } | Fault::H2cStall { .. } | Fault::InterimStall { .. } | Fault::Late { .. } => BACK_TIMEOUT_S as u64 * 1000,
            // up to CONN_RETRIES refused connects before the live backend is tried
            Fault::StickyDead { .. } => CONNECT_TIMEOUT_S as u64 * 1000 * CONNECT_ATTEMPTS,
            Fault::ClientStall { .. } => FRONT_TIMEOUT_S.max(REQUEST_TIMEOUT_S).max(BACK_TIMEOUT_S) as u64 * 1000,
            Fault::Refused => CONNECT_TIMEOUT_S as u64 * 1000 * CONNECT_ATTEMPTS,
            // a backend that never acknowledges SETTINGS may legitimately be given up on
            Fault::H2cNoAck => BACK_TIMEOUT_S as u64 * 1000,
            _ => 0,
        }
    }
    /// "no request stays unanswered beyond the configured timeouts": the governing timeout, and
    /// never less than the largest timeout configured on the listener, plus the slack
    pub fn bound_ms(&self) -> u64 {
        let largest = FRONT_TIMEOUT_S.max(BACK_TIMEOUT_S).max(REQUEST_TIMEOUT_S).max(CONNECT_TIMEOUT_S) as u64 * 1000;
        self.governing_ms().max(largest) + SLACK_MS
    }
    /// how long the client keeps waiting (the bound, unless a debugging run extends it)
    pub fn wait_ms(&self) -> u64 {
        self.bound_ms() + EXTRA_WAIT_MS.load(std::sync::atomic::Ordering::Relaxed)
    }

    pub fn describe(&self) -> serde_json::Value {
        serde_json::json!({
            "id": self.id, "method": self.method(), "authority": self.authority(), "path": self.path(),
            "backend": self.back.name(), "fault": format!("{:?}", self.fault), "cause": self.cause(),
            "response_len": self.len, "response_framing": self.fr.name(), "upload": self.upload,
            "upload_split": self.upload_split, "backend_acts_before_request_complete": self.early,
            "fault_applies_to_attempts": if self.times == ALWAYS { "all".to_owned() } else { format!("first {}", self.times) },
            "backend_delay_ms": self.delay_ms, "client_gap_ms": self.gap_ms, "cookie": self.cookie(),
        })
    }
}

#[derive(Clone, Copy, Debug, PartialEq, Eq)]
pub enum Mux {
    Single,
    KeepAlive,
    H2Streams,
}

#[derive(Clone, Debug)]
pub struct Scenario {
    pub idx: usize,
    pub front: Front,
    pub mux: Mux,
    pub reqs: Vec<ReqSpec>,
    /// index of the faulty request in `reqs`
    pub faulty: usize,
    pub tag: &'static str,
    /// use the listeners whose front timeout (9 s) is longer than the back timeout (2 s)
    pub long_front: bool,
    /// use the listeners whose 502/503/504 answer templates keep the client connection alive
    /// (no `Connection: close`; front timeout 9 s, back timeout 2 s)
    pub ka_answers: bool,
}

impl Scenario {
    pub fn mux_name(&self) -> String {
        match self.mux {
            Mux::Single => "single".into(),
            Mux::KeepAlive => format!("keepalive{}", self.reqs.len()),
            Mux::H2Streams => format!("h2streams{}", self.reqs.len()),
        }
    }
    pub fn pair(&self, r: &ReqSpec) -> String {
        format!("{}-{}", self.front.name(), r.back.name())
    }
    pub fn describe(&self) -> serde_json::Value {
        serde_json::json!({
            "scenario": self.idx, "group": self.tag, "front": self.front.name(), "multiplexing": self.mux_name(),
            "faulty_position": self.faulty,
            "listener": if self.ka_answers { "custom 502/503/504 templates without Connection: close, front_timeout 9 s, back_timeout 2 s" } else if self.long_front { "front_timeout 9 s, back_timeout 2 s" } else { "front_timeout 2 s, back_timeout 2 s" },
            "requests": self.reqs.iter().map(|r| r.describe()).collect::<Vec<_>>(),
        })
    }
}
