//! C02 — scripted clients: sequential HTTP/1.1 exchanges on one connection (TCP or TLS) and
//! concurrent streams on one HTTP/2 connection. They only *record* what sozu sent back.

use std::{
    io,
    time::{Duration, Instant},
};

use serde_json::{Value, json};

use super::spec::{Fault, ReqSpec, UPLOAD_SALT};
use crate::{
    common::rng::keystream,
    peers::{
        h1,
        h2::{self, Event, H2Conn, Replenish, Transport},
        tls::TlsClient,
    },
};

#[derive(Clone, Debug, PartialEq)]
pub enum End {
    /// the strict decoder saw a complete message
    Complete,
    /// connection closed (FIN) before the message was complete
    AbortClose,
    /// connection reset before the message was complete
    AbortReset,
    RstStream(u32),
    GoAway(u32),
    /// nothing conclusive before the deadline
    Timeout,
    /// sozu's bytes do not parse as a response
    Malformed(String),
    /// the request could not be sent (harness side or connection already gone)
    NotSent(String),
}

impl End {
    pub fn is_abort(&self) -> bool {
        matches!(self, End::AbortClose | End::AbortReset | End::RstStream(_) | End::GoAway(_))
    }
    pub fn name(&self) -> String {
        match self {
            End::Complete => "complete".into(),
            End::AbortClose => "abort_close".into(),
            End::AbortReset => "abort_reset".into(),
            End::RstStream(c) => format!("rst_stream_{c}"),
            End::GoAway(c) => format!("goaway_{c}"),
            End::Timeout => "pending".into(),
            End::Malformed(_) => "malformed".into(),
            End::NotSent(_) => "not_sent".into(),
        }
    }
}

#[derive(Clone, Debug)]
pub struct Outcome {
    pub status: Option<u16>,
    /// response bytes (H1) / response frames (H2) seen for this request
    pub seen: usize,
    pub body: Vec<u8>,
    pub declared_len: Option<u64>,
    pub conn_close: bool,
    pub end: End,
    /// ms from "request completely sent" to the end above
    pub t_ms: u64,
    /// evidence of a second answer
    pub extra: Option<String>,
    pub head: String,
    /// the request had been sent completely when the answer came
    pub sent_complete: bool,
    /// the bytes of the read in which the strict decoder gave up
    pub raw: Vec<u8>,
}

impl Outcome {
    pub fn new() -> Outcome {
        Outcome {
            status: None,
            seen: 0,
            body: Vec::new(),
            declared_len: None,
            conn_close: false,
            end: End::Timeout,
            t_ms: 0,
            extra: None,
            head: String::new(),
            sent_complete: false,
            raw: Vec::new(),
        }
    }
    pub fn not_sent(why: &str) -> Outcome {
        let mut o = Outcome::new();
        o.end = End::NotSent(why.to_owned());
        o
    }
    pub fn describe(&self) -> Value {
        json!({
            "status": self.status, "end": format!("{:?}", self.end), "response_units_seen": self.seen,
            "body_len": self.body.len(), "declared_content_length": self.declared_len,
            "connection_close_header": self.conn_close, "time_to_answer_ms": self.t_ms,
            "second_answer": self.extra, "head": self.head, "request_sent_completely": self.sent_complete,
            "bytes_the_decoder_rejected": String::from_utf8_lossy(&self.raw[..self.raw.len().min(200)]),
        })
    }
}

fn is_wait(e: &io::Error) -> bool {
    matches!(e.kind(), io::ErrorKind::WouldBlock | io::ErrorKind::TimedOut)
}

fn write_all<T: Transport>(io: &mut T, data: &[u8], deadline: Instant) -> io::Result<()> {
    let mut off = 0;
    while off < data.len() {
        match io.write_some(&data[off..], Duration::from_millis(50)) {
            Ok(n) => off += n,
            Err(e) if is_wait(&e) => {}
            Err(e) => return Err(e),
        }
        if Instant::now() > deadline {
            return Err(io::Error::new(io::ErrorKind::TimedOut, "write deadline"));
        }
    }
    loop {
        if io.flush_some(Duration::from_millis(50))? {
            return Ok(());
        }
        if Instant::now() > deadline {
            return Err(io::Error::new(io::ErrorKind::TimedOut, "flush deadline"));
        }
    }
}

pub struct H1Client<T: Transport> {
    pub io: T,
    parser: h1::Parser,
    /// the connection is known to be closed
    pub closed: bool,
    interim: bool,
}

struct Acc {
    out: Outcome,
    complete: bool,
}

impl<T: Transport> H1Client<T> {
    pub fn new(io: T) -> H1Client<T> {
        H1Client { io, parser: h1::Parser::new(h1::Kind::Response, true), closed: false, interim: false }
    }

    fn apply(&mut self, acc: &mut Acc, events: Vec<h1::Event>) {
        for e in events {
            if acc.complete {
                if acc.out.extra.is_none() {
                    acc.out.extra = Some(match e {
                        h1::Event::Head(h) => format!("a second response head follows on the connection: {} {}", h.second, h.third),
                        h1::Event::Body(b) => format!("{} more body bytes after the end of the response", b.len()),
                        h1::Event::End(_) => "a second message end".to_owned(),
                    });
                }
                continue;
            }
            match e {
                h1::Event::Head(h) => {
                    let st = h.status();
                    if st.is_some_and(|s| (100..200).contains(&s)) {
                        self.interim = true;
                        continue;
                    }
                    acc.out.status = st;
                    acc.out.declared_len = match h.framing {
                        h1::Framing::Length(n) => Some(n),
                        _ => None,
                    };
                    acc.out.conn_close = h.header_all("connection").iter().any(|v| String::from_utf8_lossy(v).to_ascii_lowercase().contains("close"));
                    acc.out.head = format!(
                        "{} {} {} | {}",
                        h.first,
                        h.second,
                        h.third,
                        h.headers.iter().map(|(k, v)| format!("{k}: {}", String::from_utf8_lossy(v))).collect::<Vec<_>>().join(" | ")
                    );
                }
                h1::Event::Body(b) => {
                    if !self.interim {
                        acc.out.body.extend_from_slice(&b);
                    }
                }
                h1::Event::End(_) => {
                    if self.interim {
                        self.interim = false;
                    } else {
                        acc.complete = true;
                    }
                }
            }
        }
    }

    /// one read; returns false when the exchange is over (acc.out.end set)
    fn read_step(&mut self, acc: &mut Acc, wait: Duration) -> bool {
        let mut buf = [0u8; 16384];
        match self.io.read_some(&mut buf, wait) {
            Ok(0) => {
                self.closed = true;
                if acc.complete {
                    return false;
                }
                match self.parser.eof() {
                    Ok(Some(ev)) => {
                        self.apply(acc, vec![ev]);
                        if acc.complete {
                            acc.out.end = End::Complete;
                        } else {
                            acc.out.end = End::AbortClose;
                        }
                    }
                    _ => acc.out.end = End::AbortClose,
                }
                false
            }
            Ok(n) => {
                if !acc.complete {
                    acc.out.seen += n;
                }
                // feed in small pieces: the parser reports an error for a whole `feed` call, which
                // would hide a message completed by the bytes in front of the offending ones
                let mut off = 0;
                while off < n {
                    let in_counted_body = !acc.complete
                        && acc.out.status.is_some()
                        && acc.out.declared_len.is_some_and(|d| (acc.out.body.len() as u64) < d);
                    let piece = if in_counted_body {
                        ((acc.out.declared_len.unwrap_or(0) - acc.out.body.len() as u64) as usize).min(n - off)
                    } else {
                        1
                    };
                    match self.parser.feed(&buf[off..off + piece]) {
                        Ok(events) => self.apply(acc, events),
                        Err(e) => {
                            if acc.complete {
                                acc.out.extra.get_or_insert(format!(
                                    "bytes after the end of the response that are not a response: {e}; {}",
                                    String::from_utf8_lossy(&buf[off..n.min(off + 80)])
                                ));
                            } else {
                                acc.out.end = End::Malformed(format!("{e}"));
                                acc.out.raw = buf[..n].to_vec();
                            }
                            self.closed = true;
                            return false;
                        }
                    }
                    off += piece;
                }
                true
            }
            Err(e) if is_wait(&e) => true,
            Err(e) => {
                self.closed = true;
                if !acc.complete {
                    acc.out.end = match e.kind() {
                        io::ErrorKind::ConnectionReset | io::ErrorKind::BrokenPipe | io::ErrorKind::ConnectionAborted => End::AbortReset,
                        _ => End::AbortClose,
                    };
                    acc.out.head = format!("{} [read error: {e}]", acc.out.head);
                }
                false
            }
        }
    }

    /// send one request and read its answer. `last` = no further request will use the connection.
    pub fn exchange(&mut self, spec: &ReqSpec, last: bool) -> Outcome {
        if self.closed {
            return Outcome::not_sent("connection already closed");
        }
        let mut acc = Acc { out: Outcome::new(), complete: false };
        // anything sozu sent on its own before this request belongs to the previous one
        if spec.gap_ms > 0 {
            std::thread::sleep(Duration::from_millis(spec.gap_ms as u64));
        }
        let mut head = format!("{} {} HTTP/1.1\r\nHost: {}\r\nx-req-id: {}\r\n", spec.method(), spec.path(), spec.authority(), spec.id);
        if spec.upload > 0 {
            head += &format!("Content-Length: {}\r\n", spec.upload);
        }
        if let Some(c) = spec.cookie() {
            head += &format!("Cookie: {c}\r\n");
        }
        head += "\r\n";
        let head = head.into_bytes();
        let body = keystream(spec.id ^ UPLOAD_SALT, 0, spec.upload);
        let wdl = Instant::now() + Duration::from_secs(3);
        let (first, second): (Vec<u8>, Option<Vec<u8>>) = match &spec.fault {
            Fault::ClientStall { part: 0 } => (head[..head.len() / 2].to_vec(), None),
            Fault::ClientStall { part: 1 } => (head[..head.len() - 2].to_vec(), None),
            Fault::ClientStall { .. } => {
                let mut f = head.clone();
                f.extend_from_slice(&body[..body.len() / 2]);
                (f, None)
            }
            _ if spec.upload_split && body.len() >= 2 => {
                let mut f = head.clone();
                f.extend_from_slice(&body[..body.len() / 2]);
                (f, Some(body[body.len() / 2..].to_vec()))
            }
            _ => {
                let mut f = head.clone();
                f.extend_from_slice(&body);
                (f, None)
            }
        };
        if let Err(e) = write_all(&mut self.io, &first, wdl) {
            self.closed = true;
            return Outcome::not_sent(&format!("write: {e}"));
        }
        acc.out.sent_complete = second.is_none() && !matches!(spec.fault, Fault::ClientStall { .. });
        if let Some(rest) = second {
            // pause in the middle of the upload; an early answer may arrive meanwhile
            let pause_end = Instant::now() + Duration::from_millis(120);
            let mut open = true;
            while open && !acc.complete && Instant::now() < pause_end {
                open = self.read_step(&mut acc, Duration::from_millis(20));
            }
            if open && !acc.complete && acc.out.seen == 0 {
                match write_all(&mut self.io, &rest, wdl) {
                    Ok(()) => acc.out.sent_complete = true,
                    Err(_) => {} // sozu may already have answered and closed; the read loop tells
                }
            }
            if !open {
                // exchange ended during the pause
                acc.out.t_ms = 0;
                if acc.complete {
                    acc.out.end = End::Complete;
                }
                return acc.out;
            }
        }
        let t0 = Instant::now();
        let deadline = t0 + Duration::from_millis(spec.wait_ms());
        loop {
            if acc.complete {
                acc.out.end = End::Complete;
                break;
            }
            let left = deadline.saturating_duration_since(Instant::now());
            if left.is_zero() {
                acc.out.end = End::Timeout;
                self.closed = true; // do not reuse a connection with a pending request
                break;
            }
            if !self.read_step(&mut acc, left.min(Duration::from_millis(200))) {
                if acc.complete {
                    acc.out.end = End::Complete;
                }
                break;
            }
        }
        acc.out.t_ms = t0.elapsed().as_millis() as u64;
        if acc.out.end == End::Complete {
            if !self.parser.residue().is_empty() && acc.out.extra.is_none() {
                acc.out.extra = Some(format!("{} stray bytes after the response", self.parser.residue().len()));
            }
            // look for a second answer: briefly when the connection goes on, until the close when
            // sozu announced one or nothing else will be sent
            if !self.closed {
                let wait_ms = if last || acc.out.conn_close { 60 } else { 3 };
                let end = Instant::now() + Duration::from_millis(wait_ms);
                while !self.closed && acc.out.extra.is_none() {
                    let left = end.saturating_duration_since(Instant::now());
                    if left.is_zero() {
                        break;
                    }
                    if !self.read_step(&mut acc, left) {
                        break;
                    }
                }
            }
        }
        acc.out
    }
}

// ---- HTTP/2 --------------------------------------------------------------------------------------

struct St {
    sid: u32,
    t0: Option<Instant>,
    out: Outcome,
    done: bool,
    final_headers: bool,
    deadline_ms: u64,
}

fn h2_dispatch(sts: &mut [St], ev: Event, goaway: &mut Option<(u32, u32)>, c_close: Option<&str>) {
    let now = Instant::now();
    let finish = |s: &mut St, end: End| {
        s.done = true;
        s.out.end = end;
        s.out.t_ms = s.t0.map(|t| now.saturating_duration_since(t).as_millis() as u64).unwrap_or(0);
    };
    match ev {
        Event::Headers { stream, headers, end_stream } => {
            let Some(s) = sts.iter_mut().find(|s| s.sid == stream) else { return };
            if s.done {
                s.out.extra.get_or_insert(format!("HEADERS on stream {stream} after its answer ended"));
                return;
            }
            let status = h2::header_str(&headers, ":status").and_then(|v| v.parse::<u16>().ok());
            if status.is_some_and(|v| (100..200).contains(&v)) {
                return;
            }
            s.out.seen += 1;
            if s.final_headers {
                if status.is_some() {
                    s.out.extra.get_or_insert(format!("second response HEADERS (:status {status:?}) on stream {stream}"));
                }
                // trailers
                if end_stream {
                    finish(s, End::Complete);
                }
                return;
            }
            s.final_headers = true;
            s.out.status = status;
            s.out.declared_len = h2::header_str(&headers, "content-length").and_then(|v| v.parse().ok());
            s.out.head = headers.iter().map(|(k, v)| format!("{}: {}", String::from_utf8_lossy(k), String::from_utf8_lossy(v))).collect::<Vec<_>>().join(" | ");
            if end_stream {
                finish(s, End::Complete);
            }
        }
        Event::Data { stream, data, end_stream, .. } => {
            let Some(s) = sts.iter_mut().find(|s| s.sid == stream) else { return };
            if s.done {
                s.out.extra.get_or_insert(format!("DATA on stream {stream} after its answer ended"));
                return;
            }
            s.out.seen += 1;
            s.out.body.extend_from_slice(&data);
            if end_stream {
                finish(s, End::Complete);
            }
        }
        Event::RstStream { stream, code } => {
            if let Some(s) = sts.iter_mut().find(|s| s.sid == stream) {
                if !s.done {
                    finish(s, End::RstStream(code));
                }
            }
        }
        Event::GoAway { last, code, .. } => {
            goaway.get_or_insert((last, code));
            for s in sts.iter_mut() {
                if !s.done && s.sid > last && s.t0.is_some() {
                    finish(s, End::GoAway(code));
                }
            }
        }
        Event::Closed => {
            for s in sts.iter_mut() {
                if !s.done && s.t0.is_some() {
                    let end = match (*goaway, c_close) {
                        (Some((_, code)), _) => End::GoAway(code),
                        (None, Some("reset")) => End::AbortReset,
                        _ => End::AbortClose,
                    };
                    finish(s, end);
                }
            }
        }
        _ => {}
    }
}

fn h2_pump(c: &mut H2Conn<TlsClient>, sts: &mut [St], goaway: &mut Option<(u32, u32)>, dur: Duration) -> bool {
    let end = Instant::now() + dur;
    loop {
        let left = end.saturating_duration_since(Instant::now());
        match c.poll(left.min(Duration::from_millis(50))) {
            Ok(Some(Event::Closed)) => {
                let ck = c.close_kind.clone();
                h2_dispatch(sts, Event::Closed, goaway, ck.as_deref());
                return false;
            }
            Ok(Some(ev)) => {
                match &ev {
                    Event::Settings { ack: false, .. } => {
                        let _ = c.send_settings_ack();
                    }
                    Event::Data { stream, flow_len, end_stream, .. } if *flow_len > 0 => {
                        // give credit back in batches (a WINDOW_UPDATE per tiny DATA frame would
                        // trip sozu's flood detection)
                        let mut fr = Vec::new();
                        let conn_owed = (h2::DEFAULT_INITIAL_WINDOW as i64 - c.conn_recv_window).max(0);
                        if conn_owed >= 16_384 {
                            fr.push(h2::Frame::window_update(0, conn_owed as u32));
                        }
                        let owed = c.streams.get(stream).map(|s| h2::DEFAULT_INITIAL_WINDOW as i64 - s.recv_window).unwrap_or(0);
                        if !*end_stream && owed >= 16_384 {
                            fr.push(h2::Frame::window_update(*stream, owed as u32));
                        }
                        if !fr.is_empty() {
                            let _ = c.send_frames(&fr);
                        }
                    }
                    _ => {}
                }
                h2_dispatch(sts, ev, goaway, None)
            }
            Ok(None) => {}
            Err(_) => {
                h2_dispatch(sts, Event::Closed, goaway, Some("error"));
                return false;
            }
        }
        if Instant::now() >= end {
            return true;
        }
    }
}

/// all requests as concurrent streams of one HTTP/2 connection (sent in order, answered in any)
pub fn run_h2(c: &mut H2Conn<TlsClient>, reqs: &[ReqSpec]) -> (Vec<Outcome>, Vec<String>, Vec<String>) {
    // acknowledgements and window updates are sent by `h2_pump`, ignoring write errors: the codec's
    // automatic ones abort frame processing when sozu has already closed, losing frames received
    c.auto_ack = false;
    c.replenish = Replenish::Manual;
    c.obey_windows = true;
    c.read_timeout = Duration::from_secs(3);
    c.write_timeout = Duration::from_secs(3);
    let mut sts: Vec<St> = reqs
        .iter()
        .map(|r| St { sid: 0, t0: None, out: Outcome::new(), done: false, final_headers: false, deadline_ms: r.wait_ms() })
        .collect();
    let mut goaway = None;
    let mut alive = c.handshake_client(&[(h2::SET_ENABLE_PUSH, 0)]).is_ok();
    for (i, r) in reqs.iter().enumerate() {
        if !alive {
            sts[i].done = true;
            sts[i].out = Outcome::not_sent("connection gone before this stream was opened");
            continue;
        }
        if r.gap_ms > 0 {
            alive = h2_pump(c, &mut sts, &mut goaway, Duration::from_millis(r.gap_ms as u64));
            if !alive {
                sts[i].done = true;
                sts[i].out = Outcome::not_sent("connection gone before this stream was opened");
                continue;
            }
        }
        let sid = c.next_stream_id();
        sts[i].sid = sid;
        let idh = r.id.to_string();
        let cl = r.upload.to_string();
        let mut extra: Vec<(&str, &str)> = vec![("x-req-id", &idh)];
        if r.upload > 0 {
            extra.push(("content-length", &cl));
        }
        let cookie = r.cookie().unwrap_or_default();
        if !cookie.is_empty() {
            extra.push(("cookie", &cookie));
        }
        let hs = h2::request_headers(r.method(), "https", r.authority(), &r.path(), &extra);
        let body = keystream(r.id ^ UPLOAD_SALT, 0, r.upload);
        let mut res = c.send_headers(sid, &hs, r.upload == 0);
        if res.is_ok() && r.upload > 0 {
            if r.upload_split && body.len() >= 2 {
                res = c.send_data(sid, &body[..body.len() / 2], false, None);
                if res.is_ok() {
                    sts[i].t0 = Some(Instant::now());
                    alive = h2_pump(c, &mut sts, &mut goaway, Duration::from_millis(120));
                    if alive && !sts[i].done {
                        res = c.send_data(sid, &body[body.len() / 2..], true, None);
                    }
                }
            } else {
                res = c.send_data(sid, &body, true, None);
            }
        }
        match res {
            Ok(()) => {
                sts[i].out.sent_complete = true;
                sts[i].t0 = Some(Instant::now());
            }
            Err(e) => {
                if !sts[i].done {
                    if sts[i].t0.is_some() {
                        // answered / reset during the upload: the pump below tells
                        sts[i].t0 = Some(Instant::now());
                    } else {
                        sts[i].done = true;
                        sts[i].out = Outcome::not_sent(&format!("{e}"));
                    }
                }
                if c.is_closed() {
                    alive = false;
                }
            }
        }
    }
    let start = Instant::now();
    let max_deadline = sts.iter().map(|s| s.deadline_ms).max().unwrap_or(3000);
    while alive && sts.iter().any(|s| !s.done) && (start.elapsed().as_millis() as u64) < max_deadline {
        alive = h2_pump(c, &mut sts, &mut goaway, Duration::from_millis(25));
        // per-stream deadlines
        for s in sts.iter_mut() {
            if !s.done && s.t0.is_some_and(|t| t.elapsed().as_millis() as u64 > s.deadline_ms) {
                s.done = true;
                s.out.end = End::Timeout;
                s.out.t_ms = s.deadline_ms;
            }
        }
    }
    for s in sts.iter_mut() {
        if !s.done {
            s.done = true;
            s.out.end = End::Timeout;
            s.out.t_ms = s.t0.map(|t| t.elapsed().as_millis() as u64).unwrap_or(0);
        }
    }
    // a second answer would come right behind the first
    if alive {
        let _ = h2_pump(c, &mut sts, &mut goaway, Duration::from_millis(40));
    }
    let ledger: Vec<String> = c
        .ledger_violations
        .iter()
        .filter(|v| matches!(v.kind, h2::LV_CLOSED_STREAM | h2::LV_STREAM_STATE | h2::LV_STREAM_ID | h2::LV_MALFORMED | h2::LV_HPACK_DECODE | h2::LV_CONTINUATION))
        .map(|v| format!("{}: {}", v.kind, v.detail))
        .collect();
    let mut trace = c.trace_tail(60);
    trace.push(format!("close: {:?}", c.close_kind));
    (sts.into_iter().map(|s| s.out).collect(), ledger, trace)
}
