//! C02 — scripted backends: an HTTP/1.1 one and a prior-knowledge h2c one. Both decode their
//! behaviour from the request path (see `spec::Script`) and keep a per-request-id record of the
//! attempts they saw, so the oracle knows whether a retry happened and how every attempt ended.

use std::{
    collections::HashMap,
    io::{Read, Write},
    net::{Shutdown, TcpStream},
    sync::{
        Mutex,
        atomic::{AtomicUsize, Ordering},
    },
    time::{Duration, Instant},
};

use super::spec::{ALWAYS, Fault, Script, h1_response};
use crate::{
    common::rng::keystream,
    peers::{
        h1,
        h2::{self, Event, H2Conn, Replenish, Role},
    },
};

/// what the backends saw of one request id
#[derive(Clone, Debug, Default)]
pub struct Att {
    /// attempts that reached a backend
    pub seen: u32,
    /// attempts on which the fault was applied
    pub faulted: u32,
    /// attempts answered completely and correctly
    pub served: u32,
    /// a later request arrived on the backend connection while this one was still unanswered
    pub followed_while_owing: u32,
    /// h2c attempts whose request sozu never ended (no END_STREAM until the connection went away)
    pub never_ended: u32,
}

#[derive(Default)]
pub struct BackState {
    pub attempts: Mutex<HashMap<u64, Att>>,
    /// largest number of request streams one h2c backend connection carried at the same time
    pub h2c_max_streams: AtomicUsize,
    /// requests written by sozu on a backend connection that still owed an answer
    pub written_on_owing_connection: AtomicUsize,
    pub h2c_conns: AtomicUsize,
    pub h1_conns: AtomicUsize,
    /// largest number of requests served on one HTTP/1.1 backend connection
    pub h1_max_reuse: AtomicUsize,
    pub errors: Mutex<Vec<String>>,
}

impl BackState {
    /// register an attempt; returns true when the fault applies to it
    pub fn register(&self, sc: &Script) -> bool {
        let mut g = self.attempts.lock().unwrap();
        let a = g.entry(sc.id).or_default();
        a.seen += 1;
        let faulted = sc.fault != Fault::None && (sc.times == ALWAYS || a.seen <= sc.times as u32);
        if faulted {
            a.faulted += 1;
        }
        faulted
    }
    pub fn served(&self, id: u64) {
        self.attempts.lock().unwrap().entry(id).or_default().served += 1;
    }
    pub fn followed_while_owing(&self, id: u64) {
        self.written_on_owing_connection.fetch_add(1, Ordering::SeqCst);
        self.attempts.lock().unwrap().entry(id).or_default().followed_while_owing += 1;
    }
    pub fn never_ended(&self, id: u64) {
        self.attempts.lock().unwrap().entry(id).or_default().never_ended += 1;
    }
    pub fn record(&self, id: u64) -> Att {
        self.attempts.lock().unwrap().get(&id).cloned().unwrap_or_default()
    }
    fn err(&self, e: String) {
        let mut g = self.errors.lock().unwrap();
        if g.len() < 20 {
            g.push(e);
        }
    }
}

fn write_paced(s: &mut TcpStream, data: &[u8]) -> bool {
    // long responses are written in segments so that sibling transfers really overlap
    if data.len() <= 4096 {
        return s.write_all(data).is_ok();
    }
    for c in data.chunks(4096) {
        if s.write_all(c).is_err() {
            return false;
        }
        std::thread::sleep(Duration::from_micros(400));
    }
    true
}

/// send FIN, then wait for the peer to close (never closes with unread data, which would turn
/// the FIN into a RST)
fn fin_and_drain(s: &mut TcpStream, cap: Duration) {
    let _ = s.shutdown(Shutdown::Write);
    drain(s, cap);
}

fn drain(s: &mut TcpStream, cap: Duration) {
    let end = Instant::now() + cap;
    let mut buf = [0u8; 4096];
    let _ = s.set_read_timeout(Some(Duration::from_millis(200)));
    while Instant::now() < end {
        match s.read(&mut buf) {
            Ok(0) => return,
            Ok(_) => {}
            Err(e) if matches!(e.kind(), std::io::ErrorKind::WouldBlock | std::io::ErrorKind::TimedOut) => {}
            Err(_) => return,
        }
    }
}

#[derive(PartialEq)]
enum Owing {
    /// nothing arrived
    Quiet,
    /// sozu wrote more bytes on the connection although an answer is still owed
    MoreBytes,
    Closed,
}

/// watch a connection on which an answer is owed, without consuming anything
fn wait_owing(s: &mut TcpStream, dur: Duration) -> Owing {
    let end = Instant::now() + dur;
    let mut b = [0u8; 1];
    let _ = s.set_read_timeout(Some(Duration::from_millis(20)));
    let r = loop {
        if Instant::now() >= end {
            break Owing::Quiet;
        }
        match s.peek(&mut b) {
            Ok(0) => break Owing::Closed,
            Ok(_) => break Owing::MoreBytes,
            Err(e) if matches!(e.kind(), std::io::ErrorKind::WouldBlock | std::io::ErrorKind::TimedOut) => {}
            Err(_) => break Owing::Closed,
        }
    };
    let _ = s.set_read_timeout(Some(Duration::from_secs(15)));
    r
}

fn garbage(v: u8) -> &'static [u8] {
    match v {
        0 => b"\x00\x01\x02\xff\xfe garbage\r\n\r\n",
        1 => b"HTTP/1.1 abc OK\r\nContent-Length: 3\r\n\r\nabc",
        2 => b"SSH-2.0-OpenSSH_9.6\r\n",
        _ => b"HTTP/1.1 200 OK\r\nthis line has no colon\r\nContent-Length: 3\r\n\r\nabc",
    }
}

/// run the script of one request on an HTTP/1.1 backend connection; false = connection is over
fn h1_act(state: &BackState, s: &mut TcpStream, sc: &Script, faulted: bool) -> bool {
    if sc.delay_ms > 0 {
        std::thread::sleep(Duration::from_millis(sc.delay_ms as u64));
    }
    let (resp, _) = h1_response(sc.id, sc.len, sc.fr, sc.chunk);
    if !faulted {
        if !write_paced(s, &resp) {
            return false;
        }
        state.served(sc.id);
        if sc.fr.closes() {
            fin_and_drain(s, Duration::from_secs(3));
            return false;
        }
        return true;
    }
    match &sc.fault {
        Fault::Close { k, rst } => {
            let k = (*k).min(resp.len());
            let _ = write_paced(s, &resp[..k]);
            if *rst {
                if k > 0 {
                    // let the bytes be read before the RST discards them
                    std::thread::sleep(Duration::from_millis(20));
                }
                let _ = socket2::SockRef::from(&*s).set_linger(Some(Duration::ZERO));
            } else {
                fin_and_drain(s, Duration::from_secs(3));
            }
            false
        }
        Fault::Stall { k } => {
            let k = (*k).min(resp.len());
            let _ = write_paced(s, &resp[..k]);
            // (the request was read completely: anything that arrives now is a further request)
            if sc.early {
                // the rest of the request body is still arriving
                drain(s, Duration::from_secs(12));
            } else if wait_owing(s, Duration::from_secs(12)) == Owing::MoreBytes {
                state.followed_while_owing(sc.id);
                drain(s, Duration::from_secs(10));
            }
            false
        }
        Fault::Late { pre, after_ms } => {
            let pre = (*pre).min(resp.len());
            let _ = write_paced(s, &resp[..pre]);
            let end = Instant::now() + Duration::from_millis(*after_ms as u64);
            match wait_owing(s, Duration::from_millis(*after_ms as u64)) {
                Owing::Closed => return false,
                Owing::MoreBytes => {
                    state.followed_while_owing(sc.id);
                    std::thread::sleep(end.saturating_duration_since(Instant::now()));
                }
                Owing::Quiet => {}
            }
            // the slow backend finally answers, where it got the request, and goes on serving
            write_paced(s, &resp[pre..])
        }
        Fault::InterimStall { code } => {
            let interim: &[u8] = if *code == 100 {
                b"HTTP/1.1 100 Continue\r\n\r\n"
            } else {
                b"HTTP/1.1 103 Early Hints\r\nLink: </style.css>; rel=preload; as=style\r\n\r\n"
            };
            let _ = s.write_all(interim);
            drain(s, Duration::from_secs(14));
            false
        }
        Fault::Garbage { v } => {
            let _ = s.write_all(garbage(*v));
            fin_and_drain(s, Duration::from_secs(3));
            false
        }
        Fault::IdleClose { delay_ms } => {
            if !write_paced(s, &resp) {
                return false;
            }
            state.served(sc.id);
            std::thread::sleep(Duration::from_millis(*delay_ms as u64));
            // plain close: if the next request is already in flight this is the idle-close race
            false
        }
        _ => {
            // not an HTTP/1.1 fault: behave
            if !write_paced(s, &resp) {
                return false;
            }
            state.served(sc.id);
            !sc.fr.closes()
        }
    }
}

pub fn h1_backend(state: &BackState, mut s: TcpStream) {
    state.h1_conns.fetch_add(1, Ordering::SeqCst);
    let _ = s.set_read_timeout(Some(Duration::from_secs(15)));
    let mut p = h1::Parser::new(h1::Kind::Request, false);
    let mut buf = [0u8; 16384];
    let mut cur: Option<(Script, bool, bool)> = None; // script, faulted, acted
    let mut served_here = 0usize;
    loop {
        let n = match s.read(&mut buf) {
            Ok(0) | Err(_) => return,
            Ok(n) => n,
        };
        let events = match p.feed(&buf[..n]) {
            Ok(e) => e,
            Err(e) => {
                state.err(format!("h1 backend: request from sozu does not parse: {e}"));
                return;
            }
        };
        for e in events {
            match e {
                h1::Event::Head(h) => {
                    let Some(sc) = Script::parse(&h.second) else {
                        state.err(format!("h1 backend: unexpected request target {:?}", h.second));
                        return;
                    };
                    let faulted = state.register(&sc);
                    let mut acted = false;
                    if sc.early && faulted {
                        if !h1_act(state, &mut s, &sc, true) {
                            return;
                        }
                        acted = true;
                    }
                    cur = Some((sc, faulted, acted));
                }
                h1::Event::Body(_) => {}
                h1::Event::End(_) => {
                    if let Some((sc, faulted, acted)) = cur.take() {
                        if !acted {
                            if !h1_act(state, &mut s, &sc, faulted) {
                                return;
                            }
                            served_here += 1;
                            state.h1_max_reuse.fetch_max(served_here, Ordering::SeqCst);
                        }
                    }
                }
            }
        }
    }
}

// ---- h2c ----------------------------------------------------------------------------------------

struct Job {
    sid: u32,
    sc: Script,
    faulted: bool,
    headers_sent: bool,
    off: usize,
    next_at: Instant,
}

enum Step {
    Again,
    Done,
    /// close the TCP connection (after an optional GOAWAY already sent)
    CloseConn,
}

fn fault_stage(f: &Fault) -> Option<u8> {
    match f {
        Fault::H2cRst { stage, .. } | Fault::H2cGoaway { stage, .. } | Fault::H2cClose { stage } | Fault::H2cStall { stage } => Some(*stage),
        _ => None,
    }
}

fn do_fault(c: &mut H2Conn<TcpStream>, j: &Job) -> Step {
    match &j.sc.fault {
        Fault::H2cRst { code, .. } => {
            let _ = c.send_rst(j.sid, *code);
            Step::Done
        }
        Fault::H2cGoaway { code, stage } => {
            // stage 0: the stream was not processed (last < sid), so a retry elsewhere is safe
            let last = if *stage == 0 { j.sid.saturating_sub(2) } else { j.sid };
            let _ = c.send_goaway(last, *code, b"scripted");
            std::thread::sleep(Duration::from_millis(5));
            Step::CloseConn
        }
        Fault::H2cClose { .. } => Step::CloseConn,
        _ => Step::Done, // H2cStall: leave the stream open for ever
    }
}

fn step(c: &mut H2Conn<TcpStream>, j: &mut Job, state: &BackState) -> Step {
    let stage = if j.faulted { fault_stage(&j.sc.fault) } else { None };
    if !j.headers_sent {
        if stage == Some(0) {
            return do_fault(c, j);
        }
        let cl = j.sc.len.to_string();
        let end = j.sc.len == 0 && stage.is_none();
        if c.send_headers(j.sid, &h2::response_headers(200, &[("content-length", &cl)]), end).is_err() {
            return Step::CloseConn;
        }
        j.headers_sent = true;
        if end {
            state.served(j.sc.id);
            return Step::Done;
        }
        j.next_at = Instant::now();
        return Step::Again;
    }
    if stage == Some(1) {
        return do_fault(c, j);
    }
    let limit = if stage == Some(2) { j.sc.len / 2 } else { j.sc.len };
    if j.off >= limit && stage == Some(2) {
        return do_fault(c, j);
    }
    let n = (limit - j.off).min(4096);
    let last = stage.is_none() && j.off + n == j.sc.len;
    let body = keystream(j.sc.id, j.off as u64, n);
    if c.send_data(j.sid, &body, last, None).is_err() {
        // stream reset by sozu or connection gone: this job is over
        return if c.is_closed() { Step::CloseConn } else { Step::Done };
    }
    j.off += n;
    if last {
        state.served(j.sc.id);
        return Step::Done;
    }
    j.next_at = Instant::now() + Duration::from_micros(300);
    Step::Again
}

pub fn h2c_backend(state: &BackState, s: TcpStream) {
    state.h2c_conns.fetch_add(1, Ordering::SeqCst);
    let mut c = H2Conn::new(s, Role::Server);
    c.auto_ack = false;
    c.obey_windows = true;
    c.replenish = Replenish::Immediately;
    c.read_timeout = Duration::from_secs(4);
    c.write_timeout = Duration::from_secs(4);
    if c.handshake_server(&[(h2::SET_MAX_CONCURRENT_STREAMS, 100)]).is_err() {
        return;
    }
    let mut acks_owed = 0usize;
    let mut ack_decided: Option<bool> = None;
    let mut jobs: Vec<Job> = Vec::new();
    // request streams: sid -> (script, faulted, job started)
    let mut reqs: HashMap<u32, (Script, bool, bool)> = HashMap::new();
    let mut unended: HashMap<u32, u64> = HashMap::new();
    let mut open: HashMap<u32, ()> = HashMap::new();
    let started = Instant::now();
    let debug = std::env::var_os("C02_H2C_TRACE").is_some();
    'conn: loop {
        if debug && started.elapsed() > Duration::from_secs(3) {
            eprintln!("h2c backend trace: {:?} ledger {:?} jobs {}", c.trace_tail(30), c.ledger_violations, jobs.len());
            return;
        }
        if started.elapsed() > Duration::from_secs(25) {
            break;
        }
        let now = Instant::now();
        let wait = jobs
            .iter()
            .map(|j| j.next_at.saturating_duration_since(now))
            .min()
            .unwrap_or(Duration::from_millis(20))
            .min(Duration::from_millis(20));
        match c.poll(wait) {
            Ok(Some(ev)) => match ev {
                Event::Settings { ack: false, .. } => {
                    if ack_decided == Some(true) {
                        let _ = c.send_settings_ack();
                    } else {
                        acks_owed += 1;
                    }
                }
                Event::Headers { stream, headers, end_stream } => {
                    if !reqs.contains_key(&stream) {
                        let path = h2::header_str(&headers, ":path").unwrap_or_default();
                        let Some(sc) = Script::parse(&path) else {
                            state.err(format!("h2c backend: unexpected :path {path:?}"));
                            break 'conn;
                        };
                        let faulted = state.register(&sc);
                        open.insert(stream, ());
                        state.h2c_max_streams.fetch_max(open.len(), Ordering::SeqCst);
                        if ack_decided.is_none() {
                            let ack = !(faulted && sc.fault == Fault::H2cNoAck);
                            ack_decided = Some(ack);
                            if ack {
                                for _ in 0..acks_owed {
                                    let _ = c.send_settings_ack();
                                }
                                acks_owed = 0;
                            }
                        }
                        if !end_stream {
                            unended.insert(stream, sc.id);
                        }
                        // like most servers, answer a body-less GET as soon as its head is there,
                        // unless the script asks for a strict one (chunk = 0) that waits for the
                        // end of the request
                        let bodiless = h2::header_str(&headers, ":method").as_deref() == Some("GET") && h2::header_value(&headers, "content-length").is_none();
                        let start_now = end_stream || (sc.early && faulted) || (bodiless && sc.chunk != 0);
                        if start_now {
                            jobs.push(Job {
                                sid: stream,
                                faulted,
                                headers_sent: false,
                                off: 0,
                                next_at: Instant::now() + Duration::from_millis(sc.delay_ms as u64),
                                sc: sc.clone(),
                            });
                        }
                        reqs.insert(stream, (sc, faulted, start_now));
                    } else if end_stream {
                        unended.remove(&stream);
                        // trailers ending the request
                        if let Some((sc, faulted, started_job)) = reqs.get_mut(&stream) {
                            if !*started_job {
                                *started_job = true;
                                jobs.push(Job { sid: stream, faulted: *faulted, headers_sent: false, off: 0, next_at: Instant::now() + Duration::from_millis(sc.delay_ms as u64), sc: sc.clone() });
                            }
                        }
                    }
                }
                Event::Data { stream, end_stream: true, .. } => {
                    unended.remove(&stream);
                    if let Some((sc, faulted, started_job)) = reqs.get_mut(&stream) {
                        if !*started_job {
                            *started_job = true;
                            jobs.push(Job { sid: stream, faulted: *faulted, headers_sent: false, off: 0, next_at: Instant::now() + Duration::from_millis(sc.delay_ms as u64), sc: sc.clone() });
                        }
                    }
                }
                Event::RstStream { stream, .. } => {
                    jobs.retain(|j| j.sid != stream);
                    open.remove(&stream);
                }
                Event::Closed => break,
                Event::GoAway { last, code, debug: dbg } => {
                    if debug {
                        eprintln!("h2c backend: GOAWAY from sozu last={last} code={code} debug={:?}", String::from_utf8_lossy(&dbg));
                    }
                }
                _ => {}
            },
            Ok(None) => {}
            Err(_) => break,
        }
        let now = Instant::now();
        let mut i = 0;
        while i < jobs.len() {
            if jobs[i].next_at > now {
                i += 1;
                continue;
            }
            match step(&mut c, &mut jobs[i], state) {
                Step::Again => i += 1,
                Step::Done => {
                    let j = jobs.remove(i);
                    // a stalled stream stays open (that is the point); everything else is closed
                    if !(j.faulted && matches!(j.sc.fault, Fault::H2cStall { .. })) {
                        open.remove(&j.sid);
                    }
                }
                Step::CloseConn => {
                    let _ = TcpStream::shutdown(&c.io, Shutdown::Write);
                    let end = Instant::now() + Duration::from_secs(3);
                    while Instant::now() < end {
                        match c.poll(Duration::from_millis(100)) {
                            Ok(Some(Event::Closed)) | Err(_) => break,
                            _ => {}
                        }
                    }
                    return;
                }
            }
        }
    }
    for id in unended.values() {
        state.never_ended(*id);
    }
    if debug {
        eprintln!("h2c backend trace (end): {:?} ledger {:?} jobs {}", c.trace_tail(30), c.ledger_violations, jobs.len());
    }
}
