//! C19 part (b): self-describing datagrams and the scripted UDP peers (backends, client sockets).

use std::{
    net::{Ipv4Addr, SocketAddr, UdpSocket},
    sync::{
        Arc, Mutex,
        atomic::{AtomicBool, Ordering},
    },
    thread::JoinHandle,
    time::{Duration, Instant},
};

use crate::common::rng::keystream;

pub const HDR: usize = 20;
const QMAGIC: &[u8; 4] = b"C19q";
const RMAGIC: &[u8; 4] = b"C19r";
const PP2_SIG: &[u8; 12] = b"\r\n\r\n\0\r\nQUIT\n";

fn req_stream(tag: u16, sid: u8, seq: u32) -> u64 {
    0x1900_0000_0000_0000 | ((tag as u64) << 40) | ((sid as u64) << 32) | seq as u64
}
fn tiny_stream(tag: u16, sid: u8) -> u64 {
    0x19AA_0000_0000_0000 | ((tag as u64) << 8) | sid as u64
}
fn rep_stream(tag: u16, backend: u8, sid: u8, seq: u32, k: u8) -> u64 {
    let mut x = 0x19BB_0000_0000_0000u64 ^ ((tag as u64) << 24) ^ ((backend as u64) << 16) ^ ((sid as u64) << 8) ^ k as u64;
    x = x.wrapping_mul(0x9E37_79B9_7F4A_7C15) ^ seq as u64;
    x
}

/// client datagram #seq of socket `sid` (g = global send index in the cell). Shorter than the
/// header: "tiny" datagram that only names its socket (first byte 0x40|sid).
pub fn make_req(tag: u16, sid: u8, seq: u32, g: u32, len: usize, nrep: u8, rlen: u16) -> Vec<u8> {
    if len < HDR {
        let mut v = Vec::with_capacity(len);
        if len > 0 {
            v.push(0x40 | (sid & 0x3f));
            v.extend(keystream(tiny_stream(tag, sid), 0, len - 1));
        }
        return v;
    }
    let mut v = Vec::with_capacity(len);
    v.extend_from_slice(QMAGIC);
    v.extend_from_slice(&tag.to_be_bytes());
    v.push(sid);
    v.push(nrep);
    v.extend_from_slice(&seq.to_be_bytes());
    v.extend_from_slice(&g.to_be_bytes());
    v.extend_from_slice(&(len as u16).to_be_bytes());
    v.extend_from_slice(&rlen.to_be_bytes());
    v.extend(keystream(req_stream(tag, sid, seq), 0, len - HDR));
    v
}

/// reply #k of backend `backend` to request (sid, seq); `bseq` = send counter of that backend
pub fn make_rep(tag: u16, backend: u8, sid: u8, seq: u32, k: u8, bseq: u32, len: usize) -> Vec<u8> {
    let len = len.max(HDR);
    let mut v = Vec::with_capacity(len);
    v.extend_from_slice(RMAGIC);
    v.extend_from_slice(&tag.to_be_bytes());
    v.push(backend);
    v.push(sid);
    v.extend_from_slice(&seq.to_be_bytes());
    v.push(k);
    v.push(0);
    v.extend_from_slice(&bseq.to_be_bytes());
    v.extend_from_slice(&(len as u16).to_be_bytes());
    v.extend(keystream(rep_stream(tag, backend, sid, seq, k), 0, len - HDR));
    v
}

#[derive(Clone, Debug, PartialEq)]
pub enum Parsed {
    Req { tag: u16, sid: u8, nrep: u8, seq: u32, g: u32, len: u16, rlen: u16 },
    Rep { tag: u16, backend: u8, sid: u8, seq: u32, k: u8, bseq: u32, len: u16 },
    Tiny { sid: u8 },
    Empty,
    Garbage,
}

fn be16(b: &[u8]) -> u16 {
    u16::from_be_bytes([b[0], b[1]])
}
fn be32(b: &[u8]) -> u32 {
    u32::from_be_bytes([b[0], b[1], b[2], b[3]])
}

pub fn parse(d: &[u8]) -> Parsed {
    if d.is_empty() {
        return Parsed::Empty;
    }
    if d.len() >= HDR && &d[..4] == QMAGIC {
        return Parsed::Req { tag: be16(&d[4..]), sid: d[6], nrep: d[7], seq: be32(&d[8..]), g: be32(&d[12..]), len: be16(&d[16..]), rlen: be16(&d[18..]) };
    }
    if d.len() >= HDR && &d[..4] == RMAGIC {
        return Parsed::Rep { tag: be16(&d[4..]), backend: d[6], sid: d[7], seq: be32(&d[8..]), k: d[12], bseq: be32(&d[14..]), len: be16(&d[18..]) };
    }
    if d.len() < HDR && d[0] & 0xC0 == 0x40 {
        return Parsed::Tiny { sid: d[0] & 0x3f };
    }
    Parsed::Garbage
}

/// strip a PROXY protocol v2 header (UDP over IPv4); returns (source named by the header, rest)
pub fn strip_pp2(d: &[u8]) -> (Option<Result<SocketAddr, String>>, &[u8]) {
    if d.len() < 16 || &d[..12] != PP2_SIG {
        return (None, d);
    }
    let len = be16(&d[14..]) as usize;
    if d.len() < 16 + len {
        return (Some(Err("PPv2 header longer than the datagram".into())), &d[d.len()..]);
    }
    let rest = &d[16 + len..];
    if d[12] != 0x21 {
        return (Some(Err(format!("PPv2 ver/cmd {:#x}", d[12]))), rest);
    }
    if d[13] != 0x12 || len < 12 {
        return (Some(Err(format!("PPv2 family/proto {:#x} len {}", d[13], len))), rest);
    }
    let ip = Ipv4Addr::new(d[16], d[17], d[18], d[19]);
    let port = be16(&d[24..]);
    (Some(Ok(SocketAddr::new(ip.into(), port))), rest)
}

pub fn hex(d: &[u8], max: usize) -> String {
    let mut s: String = d.iter().take(max).map(|b| format!("{b:02x}")).collect();
    if d.len() > max {
        s.push_str(&format!("..({}B)", d.len()));
    }
    s
}

// ---- backends ------------------------------------------------------------------------------

/// one datagram received by a scripted backend
#[derive(Clone, Debug)]
pub struct Arr {
    pub backend: u8,
    /// source of the datagram = sozu's per-flow upstream socket
    pub from: SocketAddr,
    pub t: Instant,
    /// payload after the optional PPv2 header
    pub data: Vec<u8>,
    pub pp: Option<Result<SocketAddr, String>>,
    pub parsed: Parsed,
}

/// one datagram sent by a scripted backend
#[derive(Clone, Debug)]
pub struct RepSent {
    pub backend: u8,
    pub to: SocketAddr,
    pub sid: u8,
    pub seq: u32,
    pub k: u8,
    pub bseq: u32,
    pub len: usize,
    pub ok: bool,
}

#[derive(Default)]
pub struct BackLog {
    pub arrivals: Vec<Arr>,
    pub sent: Vec<RepSent>,
}

pub struct BackendPeer {
    pub idx: u8,
    pub addr: SocketAddr,
    pub log: Arc<Mutex<BackLog>>,
    stop: Arc<AtomicBool>,
    handle: Option<JoinHandle<()>>,
}

impl BackendPeer {
    pub fn start(idx: u8, addr: SocketAddr, tag: u16) -> Result<BackendPeer, String> {
        let sock = UdpSocket::bind(addr).map_err(|e| format!("bind backend {addr}: {e}"))?;
        sock.set_read_timeout(Some(Duration::from_millis(20))).map_err(|e| e.to_string())?;
        let log = Arc::new(Mutex::new(BackLog::default()));
        let stop = Arc::new(AtomicBool::new(false));
        let (l2, s2) = (log.clone(), stop.clone());
        let handle = std::thread::Builder::new()
            .name(format!("c19b-backend-{idx}"))
            .spawn(move || {
                let mut buf = vec![0u8; 70_000];
                let mut bseq = 0u32;
                while !s2.load(Ordering::Relaxed) {
                    let (n, from) = match sock.recv_from(&mut buf) {
                        Ok(x) => x,
                        Err(_) => continue,
                    };
                    let t = Instant::now();
                    let (pp, rest) = strip_pp2(&buf[..n]);
                    let parsed = parse(rest);
                    let mut replies = Vec::new();
                    if let Parsed::Req { tag: tg, sid, nrep, seq, rlen, .. } = parsed {
                        if tg == tag {
                            for k in 0..nrep {
                                // replies to one request shrink a little so that they differ in size
                                let len = (rlen as usize).saturating_sub(k as usize * 3).max(HDR);
                                let p = make_rep(tag, idx, sid, seq, k, bseq, len);
                                let ok = sock.send_to(&p, from).is_ok();
                                replies.push(RepSent { backend: idx, to: from, sid, seq, k, bseq, len, ok });
                                bseq += 1;
                            }
                        }
                    }
                    let mut l = l2.lock().unwrap();
                    l.arrivals.push(Arr { backend: idx, from, t, data: rest.to_vec(), pp, parsed });
                    l.sent.extend(replies);
                }
            })
            .map_err(|e| e.to_string())?;
        Ok(BackendPeer { idx, addr, log, stop, handle: Some(handle) })
    }

    pub fn stop(&mut self) {
        self.stop.store(true, Ordering::Relaxed);
        if let Some(h) = self.handle.take() {
            let _ = h.join();
        }
    }
}

impl Drop for BackendPeer {
    fn drop(&mut self) {
        self.stop();
    }
}

// ---- clients -------------------------------------------------------------------------------

pub struct ClientSock {
    pub sid: u8,
    pub addr: SocketAddr,
    pub sock: UdpSocket,
    pub next_seq: u32,
}

/// one datagram received on a client socket
#[derive(Clone, Debug)]
pub struct Got {
    pub sock: u8,
    pub from: SocketAddr,
    pub t: Instant,
    pub data: Vec<u8>,
    pub parsed: Parsed,
}

impl ClientSock {
    pub fn bind(sid: u8, addr: SocketAddr) -> Result<ClientSock, String> {
        let sock = UdpSocket::bind(addr).map_err(|e| format!("bind client {addr}: {e}"))?;
        sock.set_nonblocking(true).map_err(|e| e.to_string())?;
        Ok(ClientSock { sid, addr, sock, next_seq: 0 })
    }

    pub fn drain(&self, buf: &mut [u8], out: &mut Vec<Got>) -> usize {
        let mut n = 0;
        while let Ok((len, from)) = self.sock.recv_from(buf) {
            out.push(Got { sock: self.sid, from, t: Instant::now(), data: buf[..len].to_vec(), parsed: parse(&buf[..len]) });
            n += 1;
        }
        n
    }
}
