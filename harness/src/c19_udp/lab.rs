//! The lab: real `UdpManager` + reference model + oracles. One `Lab` = one history.

use std::{
    collections::{BTreeMap, HashMap},
    net::{IpAddr, Ipv4Addr, Ipv6Addr, SocketAddr},
    time::{Duration, Instant},
};

use serde_json::{Value, json};
use sozu_lib::protocol::udp::{
    CloseReason, ClusterConfig, ConfigEvent, DropReason, ManagerInput, MetricEvent, Output, Transmit,
    UdpManager,
};

use crate::common::rng::keystream;

/// client payload header: "C19c" ip port seq(be32) len(be32)
pub const CH: usize = 14;
/// backend payload header: "C19b" uid(be32) bseq(be32) ans_ip ans_port ans_seq(be32) len(be32)
pub const BH: usize = 22;
const FOREIGN: u32 = 0xFFFF_FFFF;
const PP2_SIG: [u8; 12] = [0x0D, 0x0A, 0x0D, 0x0A, 0x00, 0x0D, 0x0A, 0x51, 0x55, 0x49, 0x54, 0x0A];

#[derive(Clone, Debug, PartialEq)]
pub struct Cfg {
    pub cluster: Option<u8>,
    pub with_port: bool,
    pub responses: u32,
    pub requests: u32,
    pub front_ms: u64,
    pub back_ms: u64,
    pub send_pp: bool,
    pub every: bool,
}

impl Cfg {
    fn to_sozu(&self) -> ClusterConfig {
        ClusterConfig {
            cluster: self.cluster.map(|c| format!("c{c}")).unwrap_or_default(),
            affinity_with_port: self.with_port,
            responses: self.responses,
            requests: self.requests,
            front_timeout: Duration::from_millis(self.front_ms),
            back_timeout: Duration::from_millis(self.back_ms),
            send_proxy_protocol: self.send_pp,
            proxy_protocol_every_datagram: self.every,
        }
    }
    fn describe(&self) -> String {
        format!(
            "cluster={} affinity={} requests={} responses={} front={}ms back={}ms ppv2={}",
            self.cluster.map(|c| format!("c{c}")).unwrap_or_else(|| "\"\"".into()),
            if self.with_port { "SOURCE_IP_PORT" } else { "SOURCE_IP" },
            self.requests,
            self.responses,
            self.front_ms,
            self.back_ms,
            if !self.send_pp { "off" } else if self.every { "every" } else { "first" }
        )
    }
}

#[derive(Clone, Debug)]
pub struct Init {
    pub v6: bool,
    pub n_ips: u8,
    pub n_ports: u8,
    pub max_flows: usize,
    pub max_rx: usize,
    pub cfg: Cfg,
    pub hash_seed: u64,
    pub immediate_pct: u8,
    /// opt-in (`--opt strict=1`): report the counted-but-exempt observations as `strict/...` violations
    /// to obtain minimised witnesses for them; never set in the registered runs
    pub strict: bool,
}

impl Init {
    pub fn to_json(&self) -> Value {
        json!({"ipv6": self.v6, "client_ips": self.n_ips, "client_ports": self.n_ports, "max_flows": self.max_flows,
            "max_rx_datagram_size": self.max_rx, "cluster_config": self.cfg.describe(), "hash_seed": self.hash_seed,
            "immediate_resolution_pct": self.immediate_pct})
    }
}

#[derive(Clone, Debug)]
pub enum Op {
    Client { ip: u8, port: u8, len: usize },
    Backend { id: usize, len: usize, answer: bool },
    /// `key`: the affinity hash of the SelectBackend this resolution answers (0 = invented by the generator)
    Resolve { id: usize, cluster: u8, b: u8, key: u64 },
    Advance { ms: u64, jitter: u64 },
    SpuriousTimeout,
    SetMaxFlows(usize),
    SetCluster(Cfg),
    SetMaxRx(usize),
    Drain,
    Abort { id: usize },
    CloseAll,
    Rebuild,
}

impl Op {
    pub fn kind(&self) -> u8 {
        match self {
            Op::Client { .. } => 0,
            Op::Backend { .. } => 1,
            Op::Resolve { .. } => 2,
            Op::Advance { .. } => 3,
            Op::SpuriousTimeout => 4,
            Op::SetMaxFlows(_) => 5,
            Op::SetCluster(_) => 6,
            Op::SetMaxRx(_) => 7,
            Op::Drain => 8,
            Op::Abort { .. } => 9,
            Op::CloseAll => 10,
            Op::Rebuild => 11,
        }
    }
    pub fn describe(&self) -> String {
        match self {
            Op::Client { ip, port, len } => format!("ClientDatagram src=ip{ip}:port{port} len={len}"),
            Op::Backend { id, len, answer } => format!("BackendDatagram flow={id} len={len} answer={answer}"),
            Op::Resolve { id, cluster, b, key } => format!("BackendResolved flow={id} backend=c{cluster}-b{b} (answers SelectBackend key={key:#x})"),
            Op::Advance { ms, jitter } => format!("AdvanceClock +{ms}ms (shell timer fires {jitter}ms late)"),
            Op::SpuriousTimeout => "handle_timeout(now) without a due timer".into(),
            Op::SetMaxFlows(n) => format!("Config SetMaxFlows({n})"),
            Op::SetCluster(c) => format!("Config SetCluster({})", c.describe()),
            Op::SetMaxRx(n) => format!("Config SetMaxRxDatagramSize({n})"),
            Op::Drain => "Config Drain".into(),
            Op::Abort { id } => format!("abort_flow({id})"),
            Op::CloseAll => "close_all()".into(),
            Op::Rebuild => "close_all() then fresh manager (listener re-created)".into(),
        }
    }
}

#[derive(Clone, Debug)]
pub struct Viol {
    pub sig: String,
    pub what: String,
    pub detail: Value,
    pub step: usize,
}

#[derive(Clone, Copy, Debug, PartialEq, Eq, Hash)]
pub struct MKey {
    with_port: bool,
    ip: u8,
    port: u8, // 0xff when the key is the source IP only
}

#[derive(Clone, Copy, Debug, PartialEq)]
enum St {
    InFlight,
    Pending, // accepted into a flow that has no backend yet
    Forwarded,
    Dropped,
}

#[derive(Clone, Debug)]
struct DgRec {
    len: usize,
    arrival: u64,
    flow: Option<u32>,
    status: St,
}

#[derive(Clone, Debug)]
struct MFlow {
    uid: u32,
    id: usize,
    key: MKey,
    first_port: u8,
    cfg: Cfg,
    backend: Option<SocketAddr>,
    select_key: u64,
    closed: bool,
    fwd_count: u32,
    reply_count: u32,
    bseq: u32,
    last_fwd_arrival: u64,
    last_fwd: Option<(u8, u8, u32)>,
    ports_used: u8,
    ports_forwarded: u8,
    // activity (ms): lo = accepted datagrams only (earliest permissible idle close),
    // hi = any datagram seen for the flow (latest permissible idle close)
    tc_lo: u64,
    tc_hi: u64,
    tb_lo: Option<u64>,
    tb_hi: Option<u64>,
}

impl MFlow {
    /// earliest permissible idle close: the flow is idle when no datagram moved in EITHER
    /// direction (flow.rs, CloseReason::Idle) for the shorter of its two timeouts
    fn lower(&self) -> u64 {
        let last = self.tb_lo.map_or(self.tc_lo, |b| b.max(self.tc_lo));
        last + self.cfg.front_ms.min(self.cfg.back_ms)
    }
    /// latest permissible idle close: the longer timeout after the last datagram seen at all
    fn upper(&self) -> u64 {
        let last = self.tb_hi.map_or(self.tc_hi, |b| b.max(self.tc_hi));
        last + self.cfg.front_ms.max(self.cfg.back_ms)
    }
    fn exhausted(&self) -> bool {
        (self.cfg.requests != 0 && self.fwd_count >= self.cfg.requests)
            || (self.cfg.responses != 0 && self.reply_count >= self.cfg.responses)
    }
}

pub fn client_payload(ip: u8, port: u8, seq: u32, len: usize) -> Vec<u8> {
    if len == 0 {
        return Vec::new();
    }
    let len = len.max(CH);
    let mut v = Vec::with_capacity(len);
    v.extend_from_slice(b"C19c");
    v.push(ip);
    v.push(port);
    v.extend_from_slice(&seq.to_be_bytes());
    v.extend_from_slice(&(len as u32).to_be_bytes());
    let id = 0xC19C_0000_0000_0000u64 | ((ip as u64) << 40) | ((port as u64) << 32) | seq as u64;
    v.extend_from_slice(&keystream(id, 0, len - CH));
    v
}

fn backend_payload(uid: u32, bseq: u32, ans: Option<(u8, u8, u32)>, len: usize) -> Vec<u8> {
    let id = 0xC19B_0000_0000_0000u64 ^ ((uid as u64) << 24) ^ bseq as u64;
    if len < BH {
        return keystream(id, 0, len);
    }
    let mut v = Vec::with_capacity(len);
    v.extend_from_slice(b"C19b");
    v.extend_from_slice(&uid.to_be_bytes());
    v.extend_from_slice(&bseq.to_be_bytes());
    let (ai, ap, aseq) = ans.unwrap_or((0xff, 0xff, 0));
    v.push(ai);
    v.push(ap);
    v.extend_from_slice(&aseq.to_be_bytes());
    v.extend_from_slice(&(len as u32).to_be_bytes());
    v.extend_from_slice(&keystream(id, 0, len - BH));
    v
}

/// Independent PROXY protocol v2 header parser (spec section 2.2): returns (header length,
/// src, dst) or the name of the offending field.
fn parse_ppv2(b: &[u8]) -> Result<(usize, SocketAddr, SocketAddr), &'static str> {
    if b.len() < 16 || b[..12] != PP2_SIG {
        return Err("signature");
    }
    if b[12] >> 4 != 2 {
        return Err("version");
    }
    if b[12] & 0x0f != 1 {
        return Err("command_not_proxy");
    }
    let fam = b[13] >> 4;
    let proto = b[13] & 0x0f;
    if proto != 2 {
        return Err("transport_not_dgram");
    }
    let alen = u16::from_be_bytes([b[14], b[15]]) as usize;
    if b.len() < 16 + alen {
        return Err("length_beyond_datagram");
    }
    let a = &b[16..16 + alen];
    match fam {
        1 => {
            if alen != 12 {
                return Err("address_length_v4");
            }
            let s = Ipv4Addr::new(a[0], a[1], a[2], a[3]);
            let d = Ipv4Addr::new(a[4], a[5], a[6], a[7]);
            let sp = u16::from_be_bytes([a[8], a[9]]);
            let dp = u16::from_be_bytes([a[10], a[11]]);
            Ok((28, SocketAddr::new(IpAddr::V4(s), sp), SocketAddr::new(IpAddr::V4(d), dp)))
        }
        2 => {
            if alen != 36 {
                return Err("address_length_v6");
            }
            let mut s = [0u8; 16];
            s.copy_from_slice(&a[0..16]);
            let mut d = [0u8; 16];
            d.copy_from_slice(&a[16..32]);
            let sp = u16::from_be_bytes([a[32], a[33]]);
            let dp = u16::from_be_bytes([a[34], a[35]]);
            Ok((52, SocketAddr::new(IpAddr::V6(Ipv6Addr::from(s)), sp), SocketAddr::new(IpAddr::V6(Ipv6Addr::from(d)), dp)))
        }
        _ => Err("address_family"),
    }
}

fn hex_head(b: &[u8]) -> String {
    let n = b.len().min(96);
    let mut s = hex::encode(&b[..n]);
    if b.len() > n {
        s.push_str(&format!("..(+{} bytes)", b.len() - n));
    }
    s
}

fn drop_name(r: DropReason) -> &'static str {
    match r {
        DropReason::Invalid => "invalid",
        DropReason::Truncated => "truncated",
        DropReason::NoBackend => "no_backend",
        DropReason::Shed => "shed",
        DropReason::UnknownFlow => "unknown_flow",
    }
}

/// what was fed into the manager (the context in which a batch of outputs is judged)
enum In<'a> {
    Client { ip: u8, port: u8, seq: u32, len: usize, existing: Option<u32>, live_before: usize },
    Backend { id: usize, target: Option<u32>, payload: &'a [u8], answer_port: Option<u8> },
    Resolve { id: usize, addr: SocketAddr, target: Option<u32>, key: u64 },
    Timeout,
    Abort { id: usize },
    CloseAll,
    Config(&'static str),
}

impl In<'_> {
    fn name(&self) -> &'static str {
        match self {
            In::Client { .. } => "client_datagram",
            In::Backend { .. } => "backend_datagram",
            In::Resolve { .. } => "backend_resolved",
            In::Timeout => "handle_timeout",
            In::Abort { .. } => "abort_flow",
            In::CloseAll => "close_all",
            In::Config(k) => k,
        }
    }
}

#[derive(Default)]
struct Batch {
    created: Option<u32>,
    dropped: Option<DropReason>,
    drops: u32,
    sent_client: u32,
    forwarded_current: bool,
    bound: bool,
    n_select: u32,
    n_close: u32,
    m_created: u32,
    m_evicted: u32,
}

pub struct Lab {
    pub init: Init,
    mgr: UdpManager,
    base: Instant,
    pub now_ms: u64,
    pub cfg: Cfg,
    pub cap: usize,
    pub max_rx: usize,
    pub draining: bool,
    pub shell_timer: Option<u64>,
    live_by_key: HashMap<MKey, u32>,
    live_by_id: HashMap<usize, u32>,
    flows: Vec<MFlow>,
    dgrams: Vec<Vec<DgRec>>,
    arrival_no: u64,
    hash_by_key: HashMap<MKey, u64>,
    pub recently_closed: Vec<usize>,
    pub last_select: Option<(usize, String, u64)>,
    pub viol: Option<Viol>,
    pub stats: BTreeMap<&'static str, u64>,
    pub maxes: BTreeMap<&'static str, u64>,
    pub trace: Option<Vec<String>>,
    cur_trace: String,
    pub step: usize,
}


impl Lab {
    pub fn new(init: Init, trace: bool) -> Lab {
        let mgr = UdpManager::new(init.cfg.to_sozu(), init.max_flows, init.max_rx, init.hash_seed);
        let n_src = init.n_ips as usize * init.n_ports as usize;
        Lab {
            mgr,
            base: Instant::now(),
            now_ms: 0,
            cfg: init.cfg.clone(),
            cap: init.max_flows,
            max_rx: init.max_rx,
            draining: false,
            shell_timer: None,
            live_by_key: HashMap::new(),
            live_by_id: HashMap::new(),
            flows: Vec::new(),
            dgrams: vec![Vec::new(); n_src],
            arrival_no: 0,
            hash_by_key: HashMap::new(),
            recently_closed: Vec::new(),
            last_select: None,
            viol: None,
            stats: BTreeMap::new(),
            maxes: BTreeMap::new(),
            trace: if trace { Some(Vec::new()) } else { None },
            cur_trace: String::new(),
            step: 0,
            init,
        }
    }

    // ---------- small helpers ----------

    fn inc(&mut self, k: &'static str) {
        *self.stats.entry(k).or_insert(0) += 1;
    }
    fn max(&mut self, k: &'static str, n: u64) {
        let e = self.maxes.entry(k).or_insert(0);
        if n > *e {
            *e = n;
        }
    }
    pub fn stat(&self, k: &str) -> u64 {
        self.stats.get(k).copied().unwrap_or(0)
    }
    fn now(&self) -> Instant {
        self.base + Duration::from_millis(self.now_ms)
    }
    fn ms_of(&self, t: Instant) -> u64 {
        t.saturating_duration_since(self.base).as_millis() as u64
    }
    fn client_ip(&self, ip: u8) -> IpAddr {
        if self.init.v6 {
            IpAddr::V6(Ipv6Addr::new(0xfd00, 0, 0, 0, 0, 0, 0, 1 + ip as u16))
        } else {
            IpAddr::V4(Ipv4Addr::new(10, 0, 0, 1 + ip))
        }
    }
    fn client_addr(&self, ip: u8, port: u8) -> SocketAddr {
        SocketAddr::new(self.client_ip(ip), 4000 + port as u16)
    }
    fn backend_addr(&self, cluster: u8, b: u8) -> SocketAddr {
        if self.init.v6 {
            SocketAddr::new(IpAddr::V6(Ipv6Addr::new(0xfd01, 0, 0, 0, 0, 0, cluster as u16, 1 + b as u16)), 5300 + b as u16)
        } else {
            SocketAddr::new(IpAddr::V4(Ipv4Addr::new(192, 168, cluster, 1 + b)), 5300 + b as u16)
        }
    }
    fn key_of(&self, ip: u8, port: u8) -> MKey {
        if self.cfg.with_port { MKey { with_port: true, ip, port } } else { MKey { with_port: false, ip, port: 0xff } }
    }
    pub fn live_ids(&self) -> Vec<usize> {
        let mut v: Vec<usize> = self.live_by_id.keys().copied().collect();
        v.sort_unstable();
        v
    }
    pub fn established_ids(&self) -> Vec<usize> {
        let mut v: Vec<usize> = self.live_by_id.iter().filter(|(_, u)| self.flows[**u as usize].backend.is_some()).map(|(i, _)| *i).collect();
        v.sort_unstable();
        v
    }
    fn flow_json(&self, uid: u32) -> Value {
        let f = &self.flows[uid as usize];
        json!({"model_uid": f.uid, "flow_id": f.id,
            "key": if f.key.with_port { format!("ip{}:port{}", f.key.ip, f.key.port) } else { format!("ip{} (any port)", f.key.ip) },
            "config_at_admission": f.cfg.describe(), "bound_backend": f.backend.map(|a| a.to_string()),
            "closed": f.closed, "client_datagrams_forwarded": f.fwd_count, "replies_returned": f.reply_count,
            "idle_window_ms": [f.lower(), f.upper()]})
    }
    fn violate(&mut self, sig: &str, what: String, detail: Value) {
        if self.viol.is_none() {
            let mut d = detail;
            if let Value::Object(m) = &mut d {
                m.insert("virtual_time_ms".into(), json!(self.now_ms));
                m.insert("cap_in_force".into(), json!(self.cap));
                m.insert("live_flows_in_model".into(), json!(self.live_by_id.len()));
                m.insert("cluster_config_in_force".into(), json!(self.cfg.describe()));
                m.insert("draining".into(), json!(self.draining));
            }
            self.viol = Some(Viol { sig: sig.to_owned(), what, detail: d, step: self.step });
        }
    }
    fn drain_outputs(&mut self) -> Vec<Output> {
        let mut v = Vec::new();
        while let Some(o) = self.mgr.poll_output() {
            v.push(o);
        }
        v
    }
    fn trace_outputs(&mut self, outs: &[Output]) {
        if self.trace.is_none() {
            return;
        }
        let mut s = String::new();
        for o in outs {
            let piece = match o {
                Output::SelectBackend { flow, cluster, key } => format!("SelectBackend(flow={flow},cluster={cluster},key={key:#x})"),
                Output::OpenUpstream { flow, backend } => format!("OpenUpstream(flow={flow},{backend})"),
                Output::SendToBackend(t) => format!("SendToBackend(dst={},{}B:{})", t.dst, t.payload.len(), hex_head(&t.payload[..t.payload.len().min(20)])),
                Output::SendToClient(t) => format!("SendToClient(dst={},{}B)", t.dst, t.payload.len()),
                Output::ArmTimer(d) => format!("ArmTimer(t={}ms)", self.ms_of(*d)),
                Output::Metric(MetricEvent::FlowShed) => "Metric(FlowShed)".to_owned(),
                Output::Metric(_) => continue,
                Output::CloseFlow(f) => format!("CloseFlow({f})"),
                Output::Drop(r) => format!("Drop({})", drop_name(*r)),
            };
            if !s.is_empty() {
                s.push(' ');
            }
            s.push_str(&piece);
        }
        if !self.cur_trace.is_empty() {
            self.cur_trace.push_str(" | ");
        }
        self.cur_trace.push_str(&format!("@{}ms [{}]", self.now_ms, s));
    }

    // ---------- operations ----------

    pub fn apply(&mut self, op: &Op) {
        self.step += 1;
        self.cur_trace.clear();
        match op {
            Op::Client { ip, port, len } => self.op_client(*ip, *port, *len),
            Op::Backend { id, len, answer } => self.op_backend(*id, *len, *answer),
            Op::Resolve { id, cluster, b, key } => self.op_resolve(*id, *cluster, *b, *key),
            Op::Advance { ms, jitter } => self.op_advance(*ms, *jitter),
            Op::SpuriousTimeout => {
                let now = self.now();
                self.mgr.handle_timeout(now);
                let outs = self.drain_outputs();
                self.check_batch(&In::Timeout, outs);
                self.inc("spurious_handle_timeout_calls");
            }
            Op::SetMaxFlows(n) => {
                if *n < self.live_by_id.len() {
                    self.inc("cap_shrinks_below_live_count");
                }
                self.cap = *n;
                self.config(ConfigEvent::SetMaxFlows(*n), "config_set_max_flows");
            }
            Op::SetCluster(c) => {
                self.inc("reconfigurations");
                if c.with_port != self.cfg.with_port && !self.live_by_id.is_empty() {
                    self.inc("affinity_mode_switches_with_live_flows");
                }
                if c.cluster.is_none() {
                    self.inc("reconfigurations_to_empty_cluster");
                }
                self.cfg = c.clone();
                self.config(ConfigEvent::SetCluster(c.to_sozu()), "config_set_cluster");
            }
            Op::SetMaxRx(n) => {
                self.max_rx = *n;
                self.config(ConfigEvent::SetMaxRxDatagramSize(*n), "config_set_max_rx");
            }
            Op::Drain => {
                self.draining = true;
                self.inc("drains");
                self.config(ConfigEvent::Drain, "config_drain");
            }
            Op::Abort { id } => {
                let target = self.live_by_id.get(id).copied();
                let now = self.now();
                self.mgr.abort_flow(*id, now, CloseReason::Aborted);
                let outs = self.drain_outputs();
                self.check_batch(&In::Abort { id: *id }, outs);
                if let Some(u) = target {
                    if !self.flows[u as usize].closed {
                        let fj = self.flow_json(u);
                        self.violate("teardown/abort_did_not_close", format!("abort_flow({id}) on a live flow produced no CloseFlow"), json!({"flow": fj}));
                    }
                } else {
                    self.inc("aborts_of_unknown_or_closed_flow");
                }
            }
            Op::CloseAll => self.op_close_all(),
            Op::Rebuild => {
                self.op_close_all();
                self.mgr = UdpManager::new(self.cfg.to_sozu(), self.cap, self.max_rx, self.init.hash_seed);
                self.draining = false;
                self.shell_timer = None;
                self.inc("listener_rebuilds_after_drain");
            }
        }
        if let Some(t) = &mut self.trace {
            t.push(format!("{:>3}. {}  =>  {}", self.step, op.describe(), self.cur_trace));
        }
    }

    fn config(&mut self, ev: ConfigEvent, kind: &'static str) {
        let now = self.now();
        self.mgr.handle_input(ManagerInput::Config(ev), now);
        let outs = self.drain_outputs();
        self.check_batch(&In::Config(kind), outs);
    }

    fn op_close_all(&mut self) {
        let now = self.now();
        self.mgr.close_all(now);
        let outs = self.drain_outputs();
        self.check_batch(&In::CloseAll, outs);
        if let Some((_, u)) = self.live_by_id.iter().next() {
            let fj = self.flow_json(*u);
            self.violate("teardown/close_all_left_flow_open", "close_all() emitted no CloseFlow for a live flow".into(), json!({"flow": fj}));
        }
        self.inc("close_all_calls");
    }

    fn op_client(&mut self, ip: u8, port: u8, len: usize) {
        if ip >= self.init.n_ips || port >= self.init.n_ports {
            return;
        }
        let src_i = ip as usize * self.init.n_ports as usize + port as usize;
        let seq = self.dgrams[src_i].len() as u32;
        let payload = client_payload(ip, port, seq, len);
        let key = self.key_of(ip, port);
        let existing = self.live_by_key.get(&key).copied();
        self.arrival_no += 1;
        self.dgrams[src_i].push(DgRec { len: payload.len(), arrival: self.arrival_no, flow: existing, status: St::InFlight });
        let live_before = self.live_by_id.len();
        if let Some(u) = existing {
            let now_ms = self.now_ms;
            let f = &mut self.flows[u as usize];
            f.tc_hi = f.tc_hi.max(now_ms);
            f.ports_used |= 1 << port;
        }
        // a source covered by a live flow created under the other affinity mode (after a reconfiguration)
        let other = MKey { with_port: !self.cfg.with_port, ip, port: if self.cfg.with_port { 0xff } else { port } };
        if self.live_by_key.contains_key(&other) {
            self.inc("exempt_source_also_covered_by_live_flow_of_other_affinity_mode");
        }
        self.inc("client_datagrams_in");
        let now = self.now();
        let src = self.client_addr(ip, port);
        self.mgr.handle_input(ManagerInput::ClientDatagram { src, payload: &payload }, now);
        let outs = self.drain_outputs();
        self.check_batch(&In::Client { ip, port, seq, len: payload.len(), existing, live_before }, outs);
    }

    fn op_backend(&mut self, id: usize, len: usize, answer: bool) {
        let target = self.live_by_id.get(&id).copied();
        let (uid, bseq, ans) = match target {
            Some(u) => {
                let f = &mut self.flows[u as usize];
                f.bseq += 1;
                (f.uid, f.bseq, if answer { f.last_fwd } else { None })
            }
            None => (FOREIGN, self.step as u32, None),
        };
        let payload = backend_payload(uid, bseq, ans, len);
        if let Some(u) = target {
            let now_ms = self.now_ms;
            let f = &mut self.flows[u as usize];
            f.tb_hi = Some(f.tb_hi.map_or(now_ms, |t| t.max(now_ms)));
            if f.backend.is_none() {
                self.inc("backend_datagrams_for_flow_without_backend");
            }
        } else {
            self.inc("backend_datagrams_for_closed_or_unknown_flow");
        }
        self.inc("backend_datagrams_in");
        let now = self.now();
        self.mgr.handle_input(ManagerInput::BackendDatagram { flow: id, payload: &payload }, now);
        let outs = self.drain_outputs();
        self.check_batch(&In::Backend { id, target, payload: &payload, answer_port: ans.map(|a| a.1) }, outs);
    }

    fn op_resolve(&mut self, id: usize, cluster: u8, b: u8, key: u64) {
        let addr = self.backend_addr(cluster, b);
        let target = self.live_by_id.get(&id).copied();
        match target {
            None => self.inc("stale_resolves_for_closed_flow"),
            Some(u) if self.flows[u as usize].backend.is_some() => self.inc("late_resolves_for_established_flow"),
            Some(_) => self.inc("resolves_for_awaiting_flow"),
        }
        let now = self.now();
        self.mgr.handle_input(ManagerInput::BackendResolved { flow: id, backend: format!("c{cluster}-b{b}"), addr }, now);
        let outs = self.drain_outputs();
        self.check_batch(&In::Resolve { id, addr, target, key }, outs);
    }

    fn op_advance(&mut self, ms: u64, jitter: u64) {
        let target = self.now_ms + ms;
        let mut guard_iter = 0u32;
        while let Some(d) = self.shell_timer {
            if d > target {
                break;
            }
            guard_iter += 1;
            if guard_iter > 20_000 {
                self.inc("exempt_timer_rearm_storm");
                break;
            }
            // the shell's wheel fires at (or a little after) the deadline it was last told
            let fire = d.max(self.now_ms);
            let fire = (fire + jitter).min(target.max(fire));
            self.now_ms = fire;
            self.shell_timer = None;
            let now = self.now();
            self.mgr.handle_timeout(now);
            let outs = self.drain_outputs();
            self.inc("shell_timer_firings");
            self.check_batch(&In::Timeout, outs);
            self.check_idle_upper_bound("teardown/idle_flow_not_closed_when_timer_fired");
            if self.viol.is_some() {
                return;
            }
        }
        self.now_ms = target;
        // every timer the manager asked for up to `target` has fired: nothing may be overdue
        self.check_idle_upper_bound("teardown/idle_flow_not_closed");
    }

    fn check_idle_upper_bound(&mut self, sig: &str) {
        let now_ms = self.now_ms;
        let mut overdue = None;
        for u in self.live_by_id.values() {
            let f = &self.flows[*u as usize];
            if f.upper() <= now_ms {
                overdue = Some(*u);
                break;
            }
        }
        *self.stats.entry("idle_deadline_upper_bound_checks").or_insert(0) += self.live_by_id.len() as u64;
        if let Some(u) = overdue {
            let fj = self.flow_json(u);
            let st = self.shell_timer;
            self.violate(sig, format!("a flow idle past its timeout is still live at t={now_ms}ms although every ArmTimer deadline up to now was honoured with handle_timeout"),
                json!({"flow": fj, "shell_timer_armed_at_ms": st}));
        }
    }
}


impl Lab {
    /// fold one batch of outputs (everything the manager queued for one input) into the model
    fn check_batch(&mut self, inp: &In<'_>, outs: Vec<Output>) {
        self.trace_outputs(&outs);
        let mut b = Batch::default();
        for o in outs {
            if self.viol.is_some() {
                return;
            }
            match o {
                Output::Metric(m) => match m {
                    MetricEvent::FlowCreated => b.m_created += 1,
                    MetricEvent::FlowEvicted => b.m_evicted += 1,
                    MetricEvent::FlowShed => self.inc("metric_flow_shed"),
                    _ => {}
                },
                Output::ArmTimer(d) => {
                    let ms = self.ms_of(d);
                    if ms <= self.now_ms {
                        self.inc("exempt_arm_timer_not_in_the_future");
                    }
                    self.shell_timer = Some(ms);
                    self.inc("arm_timer_outputs");
                }
                Output::SelectBackend { flow, cluster, key } => self.on_select(inp, &mut b, flow, cluster, key),
                Output::OpenUpstream { flow, backend } => self.on_open(inp, &mut b, flow, backend),
                Output::SendToBackend(t) => self.on_to_backend(inp, &mut b, t),
                Output::SendToClient(t) => self.on_to_client(inp, &mut b, t),
                Output::CloseFlow(id) => self.on_close(inp, &mut b, id),
                Output::Drop(r) => {
                    b.drops += 1;
                    b.dropped = Some(r);
                    if let In::Client { existing: Some(u), .. } = inp {
                        if r == DropReason::Shed {
                            let fj = self.flow_json(*u);
                            self.violate("cap/existing_flow_datagram_shed", "a datagram of an existing live flow was shed".into(), json!({"flow": fj}));
                        }
                    }
                }
            }
        }
        if self.viol.is_some() {
            return;
        }
        if b.m_created != b.n_select || b.m_evicted != b.n_close {
            self.inc("exempt_created_evicted_metrics_not_paired_with_flow_outputs");
        }
        if b.drops > 1 {
            self.inc("exempt_several_drops_for_one_input");
        }
        match inp {
            In::Client { ip, port, seq, len, existing, live_before } => self.after_client(&b, *ip, *port, *seq, *len, *existing, *live_before),
            In::Backend { target, payload, .. } => {
                if b.sent_client == 0 {
                    match b.dropped {
                        Some(r) => {
                            let explained = match target {
                                None => true,
                                Some(u) => self.flows[*u as usize].backend.is_none() || payload.len() > self.max_rx,
                            };
                            if explained {
                                self.inc(match r {
                                    DropReason::Truncated => "backend_datagrams_dropped_truncated",
                                    DropReason::UnknownFlow => "backend_datagrams_dropped_unknown_flow",
                                    _ => "backend_datagrams_dropped_other",
                                });
                            } else {
                                self.inc("exempt_unexplained_drop_of_backend_datagram");
                            }
                        }
                        None => self.inc("exempt_backend_datagram_vanished_silently"),
                    }
                }
            }
            In::Resolve { target, .. } => {
                if let Some(u) = target {
                    if self.flows[*u as usize].backend.is_none() && !self.flows[*u as usize].closed {
                        self.inc("exempt_resolve_ignored_for_awaiting_flow");
                    }
                }
                let _ = b.bound;
            }
            _ => {}
        }
        // resources: the manager's own flow count must follow the CloseFlow stream
        let fc = self.mgr.flow_count();
        let live = self.live_by_id.len();
        if fc > live {
            self.violate("teardown/resources_not_released", format!("manager tracks {fc} flows, only {live} are live per the SelectBackend/CloseFlow stream (slot kept after CloseFlow, or a flow admitted without SelectBackend)"), json!({"flow_count": fc, "live_in_model": live, "input": inp.name()}));
        } else if fc < live {
            self.violate("teardown/flow_vanished_without_close", format!("manager tracks {fc} flows, {live} were announced and never closed with CloseFlow"), json!({"flow_count": fc, "live_in_model": live, "input": inp.name()}));
        }
        self.max("live_flows", live as u64);
        if live > self.cap {
            self.inc("batches_with_live_flows_above_cap_after_shrink");
        }
        let mut exhausted_open = 0;
        for u in self.live_by_id.values() {
            if self.flows[*u as usize].exhausted() {
                exhausted_open += 1;
            }
        }
        if exhausted_open > 0 {
            self.inc("exempt_exhausted_flow_still_open_after_batch");
        }
    }

    fn on_select(&mut self, inp: &In<'_>, b: &mut Batch, id: usize, cluster: String, hash: u64) {
        b.n_select += 1;
        let In::Client { ip, port, seq, existing, live_before, .. } = inp else {
            self.violate("identity/flow_created_without_client_datagram", format!("SelectBackend(flow={id}) emitted while handling {}", inp.name()), json!({"input": inp.name()}));
            return;
        };
        let (ip, port, seq) = (*ip, *port, *seq);
        if let Some(u) = existing {
            let fj = self.flow_json(*u);
            self.violate("sticky/second_flow_for_live_key", format!("SelectBackend(flow={id}) for a source whose affinity key already has a live flow"), json!({"existing_flow": fj, "source": format!("ip{ip}:port{port}")}));
            return;
        }
        if b.created.is_some() {
            self.violate("sticky/two_flows_created_by_one_datagram", "two SelectBackend for one client datagram".into(), json!({}));
            return;
        }
        if self.draining {
            self.violate("drain/admitted_while_draining", format!("new flow {id} admitted after Drain"), json!({"source": format!("ip{ip}:port{port}")}));
            return;
        }
        self.inc("admissions_checked_against_cap");
        if *live_before >= self.cap {
            self.violate("cap/admitted_over_cap", format!("new flow {id} admitted with {live_before} live flows and max_flows={}", self.cap), json!({"live_before": live_before, "source": format!("ip{ip}:port{port}")}));
            return;
        }
        if let Some(u) = self.live_by_id.get(&id) {
            let fj = self.flow_json(*u);
            self.violate("identity/flow_id_reused_while_live", format!("SelectBackend announces FlowId {id} which is still live"), json!({"live_flow": fj}));
            return;
        }
        let key = self.key_of(ip, port);
        match self.hash_by_key.get(&key) {
            Some(h) if *h != hash => self.inc("exempt_affinity_hash_changed_for_same_key"),
            Some(_) => self.inc("affinity_hash_stable_for_same_key"),
            None => {
                self.hash_by_key.insert(key, hash);
            }
        }
        let want_cluster = self.cfg.cluster.map(|c| format!("c{c}")).unwrap_or_default();
        if cluster != want_cluster {
            self.inc("exempt_select_backend_names_other_cluster");
        }
        let uid = self.flows.len() as u32;
        self.flows.push(MFlow {
            uid,
            id,
            key,
            first_port: port,
            cfg: self.cfg.clone(),
            backend: None,
            select_key: hash,
            closed: false,
            fwd_count: 0,
            reply_count: 0,
            bseq: 0,
            last_fwd_arrival: 0,
            last_fwd: None,
            ports_used: 1 << port,
            ports_forwarded: 0,
            tc_lo: self.now_ms,
            tc_hi: self.now_ms,
            tb_lo: None,
            tb_hi: None,
        });
        self.live_by_key.insert(key, uid);
        self.live_by_id.insert(id, uid);
        let src_i = ip as usize * self.init.n_ports as usize + port as usize;
        let rec = &mut self.dgrams[src_i][seq as usize];
        rec.flow = Some(uid);
        rec.status = St::Pending;
        b.created = Some(uid);
        self.last_select = Some((id, cluster, hash));
        self.inc("flows_created");
        self.inc(if key.with_port { "flows_created_affinity_source_ip_port" } else { "flows_created_affinity_source_ip" });
        if *live_before + 1 == self.cap {
            self.inc("admissions_filling_the_last_slot");
        }
        self.max("live_flows_at_admission_incl_new", *live_before as u64 + 1);
    }

    fn on_open(&mut self, inp: &In<'_>, b: &mut Batch, id: usize, backend: SocketAddr) {
        let live = self.live_by_id.get(&id).copied();
        let (rid, addr, target, rkey) = match inp {
            In::Resolve { id, addr, target, key } => (*id, *addr, *target, *key),
            _ => {
                let sig = if live.is_some_and(|u| self.flows[u as usize].backend.is_some()) { "sticky/rebound_live_flow" } else { "sticky/open_upstream_unexpected" };
                self.violate(sig, format!("OpenUpstream(flow={id},{backend}) while handling {}", inp.name()), json!({"input": inp.name()}));
                return;
            }
        };
        let Some(u) = target.filter(|_| rid == id) else {
            self.violate("sticky/open_upstream_for_wrong_flow", format!("OpenUpstream(flow={id}) in answer to BackendResolved(flow={rid}) which names no live flow / another flow"), json!({}));
            return;
        };
        if let Some(old) = self.flows[u as usize].backend {
            let fj = self.flow_json(u);
            self.violate("sticky/rebound_live_flow", format!("live flow {id} bound to {old} was re-opened towards {backend} by a late BackendResolved"), json!({"flow": fj, "new_backend": backend.to_string()}));
            return;
        }
        if backend != addr {
            self.violate("sticky/open_upstream_addr_mismatch", format!("OpenUpstream names {backend}, BackendResolved said {addr}"), json!({}));
            return;
        }
        let f = &mut self.flows[u as usize];
        f.backend = Some(backend);
        let select_key = f.select_key;
        if rkey == 0 {
            self.inc("exempt_unrequested_resolve_bound_awaiting_flow");
        } else if rkey != select_key {
            self.inc("exempt_stale_resolve_bound_to_recycled_id");
            if self.init.strict {
                let fj = self.flow_json(u);
                self.violate("strict/stale_resolve_bound_to_recycled_id", format!("flow {id} (SelectBackend key {select_key:#x}) was bound to {backend} by a BackendResolved that answers the SelectBackend (key {rkey:#x}) of an earlier flow with the same FlowId"), json!({"flow": fj}));
                return;
            }
        }
        b.bound = true;
        self.inc("flows_bound_to_backend");
    }

    fn on_to_backend(&mut self, inp: &In<'_>, b: &mut Batch, t: Transmit) {
        let data = &t.payload[..];
        let has_hdr = data.len() >= 12 && data[..12] == PP2_SIG;
        let (hdr, body) = if has_hdr {
            match parse_ppv2(data) {
                Ok((n, s, d)) => (Some((s, d)), &data[n..]),
                Err(field) => {
                    self.violate(&format!("ppv2/bad_header/{field}"), format!("PROXY v2 header in front of an upstream datagram does not parse: {field}"), json!({"datagram_hex": hex_head(data), "dst": t.dst.to_string()}));
                    return;
                }
            }
        } else {
            (None, data)
        };
        if body.len() < CH || &body[..4] != b"C19c" {
            self.violate("integrity/unrecognised_payload_to_backend", "SendToBackend carries bytes no client sent".into(), json!({"datagram_hex": hex_head(data), "dst": t.dst.to_string()}));
            return;
        }
        let (ip, port) = (body[4], body[5]);
        let seq = u32::from_be_bytes([body[6], body[7], body[8], body[9]]);
        let src_i = ip as usize * self.init.n_ports as usize + port as usize;
        let Some(rec) = (ip < self.init.n_ips && port < self.init.n_ports).then(|| self.dgrams[src_i].get(seq as usize).cloned()).flatten() else {
            self.violate("integrity/unrecognised_payload_to_backend", "SendToBackend carries a datagram header no client sent".into(), json!({"datagram_hex": hex_head(data)}));
            return;
        };
        let dg = format!("ip{ip}:port{port}#{seq}");
        let expected = client_payload(ip, port, seq, rec.len);
        if body != &expected[..] {
            let sig = if body.len() < expected.len() && expected.starts_with(body) {
                "integrity/truncated_to_backend"
            } else if body.len() > expected.len() && body.starts_with(&expected) {
                "integrity/merged_or_extended_to_backend"
            } else {
                "integrity/corrupted_to_backend"
            };
            self.violate(sig, format!("client datagram {dg} ({} bytes) reached the backend as {} different bytes", expected.len(), body.len()), json!({"sent_hex": hex_head(&expected), "forwarded_hex": hex_head(body)}));
            return;
        }
        match rec.status {
            St::Forwarded => {
                self.violate("integrity/duplicated_to_backend", format!("client datagram {dg} forwarded twice"), json!({}));
                return;
            }
            St::Dropped => {
                self.violate("integrity/dropped_datagram_forwarded", format!("client datagram {dg} forwarded after it was reported dropped / superseded"), json!({}));
                return;
            }
            _ => {}
        }
        let is_current = matches!(inp, In::Client { ip: i, port: p, seq: s, .. } if (*i, *p, *s) == (ip, port, seq));
        match inp {
            In::Client { .. } | In::Resolve { .. } => {}
            _ => {
                self.violate("integrity/unsolicited_send_to_backend", format!("client datagram {dg} forwarded while handling {}", inp.name()), json!({}));
                return;
            }
        }
        let Some(u) = rec.flow else {
            self.violate("sticky/forwarded_without_flow", format!("client datagram {dg} was forwarded to {} although its affinity key has no live flow and none was announced", t.dst), json!({}));
            return;
        };
        let f = self.flows[u as usize].clone();
        if f.closed {
            let fj = self.flow_json(u);
            self.violate("teardown/output_for_closed_flow/send_to_backend", format!("client datagram {dg} forwarded on a flow that was already closed"), json!({"flow": fj}));
            return;
        }
        let Some(backend) = f.backend else {
            self.violate("sticky/forwarded_before_backend_bound", format!("client datagram {dg} forwarded to {} before OpenUpstream bound the flow", t.dst), json!({}));
            return;
        };
        if t.dst != backend {
            let fj = self.flow_json(u);
            self.violate("sticky/sent_to_other_backend", format!("client datagram {dg} of a flow bound to {backend} was sent to {}", t.dst), json!({"flow": fj}));
            return;
        }
        if rec.arrival <= f.last_fwd_arrival {
            let fj = self.flow_json(u);
            self.violate("integrity/reordered_to_backend", format!("client datagram {dg} forwarded after a datagram of the same flow that arrived later"), json!({"flow": fj}));
            return;
        }
        if f.cfg.requests != 0 && f.fwd_count >= f.cfg.requests {
            let fj = self.flow_json(u);
            self.violate("limit/requests_exceeded", format!("flow forwarded more than requests={} client datagrams", f.cfg.requests), json!({"flow": fj}));
            return;
        }
        // PROXY protocol v2 accounting
        let want_hdr = f.cfg.send_pp && (f.cfg.every || f.fwd_count == 0);
        match (want_hdr, hdr) {
            (true, None) => {
                let fj = self.flow_json(u);
                self.violate("ppv2/missing_header", format!("datagram #{} of a send_proxy_protocol flow carries no PROXY v2 header", f.fwd_count + 1), json!({"flow": fj, "datagram_hex": hex_head(data)}));
                return;
            }
            (false, Some(_)) => {
                let fj = self.flow_json(u);
                self.violate("ppv2/unexpected_header", format!("datagram #{} of the flow carries a PROXY v2 header it should not have", f.fwd_count + 1), json!({"flow": fj}));
                return;
            }
            (false, None) => self.inc("ppv2_absence_verified"),
            (true, Some((s, d))) => {
                if d != backend {
                    self.violate("ppv2/bad_header/destination", format!("PROXY v2 destination {d} is not the flow's backend {backend}"), json!({}));
                    return;
                }
                if s.ip() != self.client_ip(f.key.ip) {
                    self.violate("ppv2/bad_header/source_ip", format!("PROXY v2 source {s} is not the client's address"), json!({"client_ip": self.client_ip(ip).to_string()}));
                    return;
                }
                let sport = s.port().wrapping_sub(4000);
                let ok = if f.key.with_port { sport == f.key.port as u16 } else { sport < 8 && f.ports_used & (1 << sport) != 0 };
                if !ok {
                    self.violate("ppv2/bad_header/source_port", format!("PROXY v2 source port {} was never used by this flow's client", s.port()), json!({}));
                    return;
                }
                if sport != port as u16 {
                    self.inc("exempt_ppv2_source_port_is_the_flow_creators_not_this_datagrams");
                    if self.init.strict {
                        self.violate("strict/ppv2_source_port_of_other_datagram", format!("PROXY v2 header in front of datagram {dg} names source {s}, the datagram came from port index {port}"), json!({}));
                        return;
                    }
                }
                self.inc(if f.cfg.every { "ppv2_headers_verified_every_datagram" } else { "ppv2_headers_verified_first_only" });
                self.inc(if self.init.v6 { "ppv2_headers_verified_ipv6" } else { "ppv2_headers_verified_ipv4" });
            }
        }
        let now_ms = self.now_ms;
        let fm = &mut self.flows[u as usize];
        fm.fwd_count += 1;
        fm.last_fwd_arrival = rec.arrival;
        fm.last_fwd = Some((ip, port, seq));
        fm.tc_hi = fm.tc_hi.max(now_ms);
        fm.ports_forwarded |= 1 << port;
        let several_ports = fm.ports_forwarded.count_ones() > 1;
        self.dgrams[src_i][seq as usize].status = St::Forwarded;
        if is_current {
            b.forwarded_current = true;
        } else {
            self.inc("buffered_datagrams_flushed_on_resolution");
        }
        if several_ports {
            self.inc("datagrams_on_same_flow_from_several_ports");
        }
        self.inc("send_to_backend_verified");
        self.inc("client_datagrams_forwarded");
    }

    fn on_to_client(&mut self, inp: &In<'_>, b: &mut Batch, t: Transmit) {
        let (id, target, payload, answer_port) = match inp {
            In::Backend { id, target, payload, answer_port } => (*id, *target, *payload, *answer_port),
            _ => {
                self.violate("isolation/unsolicited_send_to_client", format!("SendToClient(dst={}) while handling {}", t.dst, inp.name()), json!({"payload_hex": hex_head(&t.payload)}));
                return;
            }
        };
        let Some(u) = target else {
            self.violate("isolation/reply_for_closed_or_unknown_flow", format!("a backend datagram tagged with FlowId {id} (not a live flow) was delivered to {}", t.dst), json!({"payload_hex": hex_head(&t.payload)}));
            return;
        };
        b.sent_client += 1;
        if b.sent_client > 1 {
            self.violate("integrity/reply_duplicated", "one backend datagram produced two SendToClient".into(), json!({}));
            return;
        }
        if t.payload != payload {
            let sig = if t.payload.len() < payload.len() && payload.starts_with(&t.payload) {
                "integrity/truncated_to_client"
            } else if t.payload.len() > payload.len() && t.payload.starts_with(payload) {
                "integrity/merged_or_extended_to_client"
            } else {
                "integrity/corrupted_to_client"
            };
            self.violate(sig, format!("backend datagram of {} bytes reached the client as {} different bytes", payload.len(), t.payload.len()), json!({"sent_hex": hex_head(payload), "delivered_hex": hex_head(&t.payload)}));
            return;
        }
        let f = self.flows[u as usize].clone();
        if f.backend.is_none() {
            let fj = self.flow_json(u);
            self.violate("isolation/reply_delivered_on_unbound_flow", "a backend datagram was delivered for a flow that has no backend yet".into(), json!({"flow": fj}));
            return;
        }
        let dport = t.dst.port().wrapping_sub(4000);
        let ok_ip = t.dst.ip() == self.client_ip(f.key.ip);
        let ok_port = if f.key.with_port { dport == f.key.port as u16 } else { dport < 8 && f.ports_used & (1 << dport) != 0 };
        if !ok_ip || !ok_port {
            let fj = self.flow_json(u);
            self.violate("isolation/reply_to_wrong_client", format!("backend datagram of the flow was delivered to {}, which is not the flow's client", t.dst), json!({"flow": fj}));
            return;
        }
        if f.cfg.responses != 0 && f.reply_count >= f.cfg.responses {
            let fj = self.flow_json(u);
            self.violate("limit/responses_exceeded", format!("flow returned more than responses={} replies", f.cfg.responses), json!({"flow": fj}));
            return;
        }
        if let Some(ap) = answer_port {
            if !f.key.with_port && ap as u16 != dport {
                self.inc("exempt_reply_to_other_port_of_same_ip");
                if self.init.strict {
                    let fj = self.flow_json(u);
                    self.violate("strict/reply_to_other_port_of_same_ip", format!("SOURCE_IP flow: the reply answering a datagram from port index {ap} was delivered to {}", t.dst), json!({"flow": fj}));
                    return;
                }
            }
        }
        if !f.key.with_port && dport != f.first_port as u16 {
            self.inc("replies_to_port_other_than_flow_creator");
        }
        let now_ms = self.now_ms;
        let fm = &mut self.flows[u as usize];
        fm.reply_count += 1;
        fm.tb_lo = Some(now_ms);
        fm.tb_hi = Some(now_ms);
        self.inc("send_to_client_verified");
        self.inc("backend_datagrams_returned");
    }

    fn on_close(&mut self, inp: &In<'_>, b: &mut Batch, id: usize) {
        b.n_close += 1;
        let Some(u) = self.live_by_id.get(&id).copied() else {
            let was = self.recently_closed.contains(&id);
            self.violate("teardown/close_for_closed_or_unknown_flow", format!("CloseFlow({id}) for a flow that is not live ({})", if was { "already closed once" } else { "never announced" }), json!({"input": inp.name()}));
            return;
        };
        let f = self.flows[u as usize].clone();
        let reason: &'static str = match inp {
            In::Client { existing, live_before, .. } => {
                let mine = *existing == Some(u) || b.created == Some(u);
                if mine && f.exhausted() {
                    "flows_closed_requests_reached"
                } else {
                    let fj = self.flow_json(u);
                    if !mine && *live_before >= self.cap {
                        self.violate("cap/existing_flow_evicted", format!("live flow {id} was closed while a client datagram of another source was handled at the cap"), json!({"flow": fj}));
                    } else {
                        self.violate("teardown/unjustified_close/client_datagram", format!("CloseFlow({id}) while handling a client datagram, flow neither exhausted nor idle"), json!({"flow": fj}));
                    }
                    return;
                }
            }
            In::Resolve { target, .. } => {
                if *target == Some(u) && f.exhausted() {
                    "flows_closed_requests_reached"
                } else {
                    let fj = self.flow_json(u);
                    self.violate("teardown/unjustified_close/backend_resolved", format!("CloseFlow({id}) while handling BackendResolved"), json!({"flow": fj}));
                    return;
                }
            }
            In::Backend { target, .. } => {
                if *target == Some(u) && f.exhausted() {
                    "flows_closed_responses_reached"
                } else {
                    let fj = self.flow_json(u);
                    self.violate("teardown/unjustified_close/backend_datagram", format!("CloseFlow({id}) while handling a backend datagram"), json!({"flow": fj}));
                    return;
                }
            }
            In::Timeout => {
                if f.lower() <= self.now_ms {
                    if f.lower() == f.upper() {
                        self.inc("idle_closes_with_exact_deadline_known");
                    }
                    if f.backend.is_none() { "flows_closed_idle_while_awaiting_backend" } else { "flows_closed_idle_established" }
                } else {
                    let fj = self.flow_json(u);
                    self.violate("teardown/closed_before_idle_timeout", format!("flow {id} closed by handle_timeout at t={}ms, earliest permissible idle close is t={}ms", self.now_ms, f.lower()), json!({"flow": fj}));
                    return;
                }
            }
            In::Abort { id: aid } => {
                if *aid == id {
                    "flows_closed_abort"
                } else {
                    let fj = self.flow_json(u);
                    self.violate("teardown/unjustified_close/abort_flow", format!("abort_flow({aid}) closed flow {id}"), json!({"flow": fj}));
                    return;
                }
            }
            In::CloseAll => "flows_closed_close_all",
            In::Config(kind) => {
                let fj = self.flow_json(u);
                let sig = if *kind == "config_set_max_flows" { "cap/existing_flow_evicted_on_cap_change".to_owned() } else { format!("teardown/unjustified_close/{kind}") };
                self.violate(&sig, format!("CloseFlow({id}) while handling {kind}"), json!({"flow": fj}));
                return;
            }
        };
        let fm = &mut self.flows[u as usize];
        fm.closed = true;
        self.live_by_id.remove(&id);
        if self.live_by_key.get(&f.key) == Some(&u) {
            self.live_by_key.remove(&f.key);
        }
        self.recently_closed.push(id);
        if self.recently_closed.len() > 8 {
            self.recently_closed.remove(0);
        }
        self.inc("flows_closed");
        self.inc(reason);
        if reason.starts_with("flows_closed_idle") {
            self.inc("flows_closed_idle");
        }
        if self.draining {
            self.inc("flows_closed_while_draining");
        }
    }

    #[allow(clippy::too_many_arguments)]
    fn after_client(&mut self, b: &Batch, ip: u8, port: u8, seq: u32, len: usize, existing: Option<u32>, live_before: usize) {
        let src_i = ip as usize * self.init.n_ports as usize + port as usize;
        let status = self.dgrams[src_i][seq as usize].status;
        let now_ms = self.now_ms;
        // why a drop would be expected per the documentation
        let expected_drop: Option<&'static str> = if len > self.max_rx {
            Some("client_datagrams_dropped_oversize")
        } else if self.cfg.cluster.is_none() {
            Some("client_datagrams_dropped_no_cluster")
        } else if len == 0 {
            Some("client_datagrams_dropped_empty")
        } else if existing.is_none() && self.draining {
            Some("sheds_while_draining")
        } else if existing.is_none() && live_before >= self.cap {
            Some("sheds_at_cap")
        } else {
            None
        };
        match status {
            St::Forwarded => {
                if b.dropped.is_some() {
                    self.inc("exempt_drop_and_forward_for_one_datagram");
                }
                if let Some(u) = existing {
                    self.flows[u as usize].tc_lo = now_ms;
                    if live_before >= self.cap {
                        self.inc("existing_flow_served_at_or_over_cap");
                    }
                    if live_before > self.cap {
                        self.inc("existing_flow_served_while_live_above_shrunk_cap");
                    }
                    if self.draining {
                        self.inc("existing_flow_served_while_draining");
                    }
                }
            }
            St::Pending => {
                // admitted by this very datagram (buffered until a backend is resolved)
                self.inc("buffered_while_awaiting_backend");
            }
            St::InFlight => {
                let rec_flow_awaiting = existing.filter(|u| self.flows[*u as usize].backend.is_none() && !self.flows[*u as usize].closed);
                if b.dropped.is_some() {
                    self.dgrams[src_i][seq as usize].status = St::Dropped;
                    match expected_drop {
                        Some(k) => self.inc(k),
                        None => self.inc("exempt_unexplained_drop_of_client_datagram"),
                    }
                    if existing.is_some() {
                        self.inc("client_datagrams_dropped_on_existing_flow");
                    }
                } else if let Some(u) = rec_flow_awaiting {
                    self.dgrams[src_i][seq as usize].status = St::Pending;
                    self.flows[u as usize].tc_lo = now_ms;
                    self.inc("buffered_while_awaiting_backend");
                    self.inc("buffered_behind_an_earlier_buffered_datagram");
                } else {
                    self.dgrams[src_i][seq as usize].status = St::Dropped;
                    self.inc("exempt_client_datagram_vanished_silently");
                }
            }
            St::Dropped => {}
        }
        let _ = (ip, port);
    }
}
