//! C19 part (b): real UDP sockets through a live worker (`lib/src/udp.rs` on top of the
//! UdpManager). Cells run in parallel; bounded-time expectations that were missed are re-run
//! once in isolation before they count.

use std::{
    collections::BTreeMap,
    sync::Mutex,
    time::{Duration, Instant},
};

use serde_json::{Value, json};

use super::{
    cell::Cell,
    judge::{Outcome, judge},
    script::{Spec, generate},
};
use crate::{
    common::{Ctx, Report, Rng, par_cases_named},
    lab,
};

const STREAM: u64 = 1902;

pub const REQUIRED: &[&str] = &[
    "b.client_datagrams_delivered_intact",
    "b.replies_delivered_to_the_asking_socket",
    "b.sticky_pairs_verified",
    "b.new_source_directly_followed_by_established_flow",
    "b.flows_observed",
    "b.cap_full_windows",
    "b.new_source_shed_while_table_full",
    "b.established_flow_served_while_table_full",
    "b.expiry_waits",
    "b.reconfigurations",
    "b.affinity_flips_with_live_flows",
    "b.cap_changes",
    "b.backend_set_changes",
    "b.order_pairs_verified_client_to_backend",
    "b.order_pairs_verified_backend_to_client",
    "b.waiting_source_episodes",
    "b.soft_stops",
    "b.deactivations_with_footprint_back_to_baseline",
    "b.datagrams_of_one_key_from_several_ports",
    "b.cells_source_ip",
    "b.cells_source_ip_port",
];

struct CellResult {
    spec: Spec,
    out: Outcome,
    wall_ms: u64,
}

fn run_cell(ctx: &Ctx, case: u64) -> CellResult {
    let mut rng = Rng::for_case(ctx.seed, STREAM, case);
    let spec = generate(&mut rng);
    let h = Cell::run(&spec, case);
    let out = judge(&spec, &h);
    CellResult { spec, out, wall_ms: h.wall_ms }
}

fn witness(ctx: &Ctx, case: u64, spec: &Spec, detail: &Value, extra: Value) -> Value {
    json!({
        "part": "b", "case": case, "seed": ctx.seed,
        "cell": spec.to_json(),
        "ops": spec.ops.iter().enumerate().map(|(i, o)| format!("{i:3}. {}", o.describe())).collect::<Vec<_>>(),
        "oracle": detail,
        "payloads": "client datagram = 'C19q' tag(2) socket(1) replies_asked(1) seq(4) g(4) len(2) reply_len(2) + keystream; shorter than 20 B: 0x40|socket + keystream; backend datagram = 'C19r' tag(2) backend(1) socket(1) seq(4) k(1) 0 bseq(4) len(2) + keystream",
        "rerun": extra,
    })
}

fn shape(spec: &Spec) -> Vec<u8> {
    let mut v = vec![spec.kind, spec.with_port as u8, spec.lb, spec.n_backends, spec.front_s as u8, spec.back_s as u8, spec.cap as u8, (spec.max_rx / 100) as u8, spec.requests as u8, spec.responses as u8, spec.pp, spec.socks.len() as u8];
    v.extend(spec.ops.iter().map(|o| o.kind()));
    v
}

/// fold one cell into the report; candidates are returned for the isolated re-run
fn fold(ctx: &Ctx, case: u64, res: &CellResult, rep: &mut Report, candidates: &Mutex<Vec<(String, u64, String, Value)>>) {
    let o = &res.out;
    for (k, n) in &o.obs {
        match k.strip_prefix("max:") {
            Some(m) => rep.obs_max(m, *n),
            None => rep.obs(k, *n),
        }
    }
    rep.obs(if res.spec.with_port { "b.cells_source_ip_port" } else { "b.cells_source_ip" }, 1);
    rep.obs(if res.spec.kind == 0 { "b.cells_cap" } else { "b.cells_mix" }, 1);
    rep.obs_max("b.cell_wall_ms", res.wall_ms);
    for r in &o.inconclusive {
        rep.inconclusive(r);
    }
    for f in &o.violations {
        rep.violation(&f.sig, &f.what, witness(ctx, case, &res.spec, &f.detail, Value::Null));
    }
    let mut c = candidates.lock().unwrap();
    for f in &o.candidates {
        c.push((f.sig.clone(), case, f.what.clone(), witness(ctx, case, &res.spec, &f.detail, Value::Null)));
    }
    rep.case_bytes(&shape(&res.spec), o.nontrivial);
}

pub fn assumptions(rep: &mut Report) {
    rep.assume("b: an upstream socket (source address seen by a backend) is one flow; the kernel does not hand a just-closed ephemeral port to the next socket within half an idle timeout, so two clients seen on one upstream socket less than timeout/2 apart (no teardown event, no requests/responses limit) share a flow");
    rep.assume("b: a change of backend or upstream socket for one client key is accepted when the key was silent for >= min(front,back)/2, when the cell has requests/responses limits, after an affinity flip / listener deactivation / soft stop, or when the previous backend was removed; otherwise it is re-run in isolation and then counted");
    rep.assume("b: after an affinity flip every source is re-keyed (flows of the old key are unreachable and idle out): stickiness is judged per key and per era between such events");
    rep.assume("b: SOURCE_IP cells: replies go to the port that created the flow; a reply received by another socket of the asker's IP is exempt, by a socket of another IP a violation. SOURCE_IP_PORT: exactly the asking socket (datagrams sent right before a flip: same-IP rule)");
    rep.assume("b: a datagram that never arrives is not judged (drops are counted by presumed cause); bounded-time expectations (idle teardown within max(front,back) + 1.2 s, waiting source admitted within max + 1.5 s) are re-run once in isolation before they count as violations");
    rep.assume("b: footprint = probe.snapshot().slab_len minus its value before any traffic; every flow holds exactly one slab slot (its connected upstream socket)");
}

pub fn run_live(ctx: &Ctx, rep: &mut Report) {
    lab::raise_fd_limit();
    assumptions(rep);
    let candidates: Mutex<Vec<(String, u64, String, Value)>> = Mutex::new(Vec::new());
    if let Some(path) = &ctx.replay {
        let v: Value = serde_json::from_str(&std::fs::read_to_string(path).unwrap_or_default()).unwrap_or(Value::Null);
        let mut rctx = ctx.clone();
        if let Some(seed) = v["seed"].as_u64() {
            rctx.seed = seed;
        }
        let cases: Vec<u64> = v["witnesses"].as_array().map(|a| a.iter().filter(|w| w["part"] == "b").filter_map(|w| w["case"].as_u64()).collect()).unwrap_or_default();
        for c in cases {
            let res = run_cell(&rctx, c);
            fold(&rctx, c, &res, rep, &candidates);
            // replay = already the isolated run
            for (sig, case, what, w) in candidates.lock().unwrap().drain(..) {
                rep.violation(&sig, &what, w);
                let _ = case;
            }
        }
        return;
    }
    for k in REQUIRED {
        rep.require(k);
    }
    let n = ctx.opt_u64("live_cells", ctx.tier.pick(160, 3200));
    // cells sleep most of the time (idle timeouts): run more of them than there are cores, and
    // keep the tail of the budget for the isolated re-runs
    let mut pctx = ctx.clone();
    pctx.threads = ctx.opt_u64("live_threads", (ctx.threads * 2) as u64) as usize;
    pctx.budget = ctx.budget.saturating_sub(Duration::from_secs(ctx.tier.pick(14, 60)));
    par_cases_named(&pctx, rep, n, "cell", |i, r| {
        let res = run_cell(ctx, i);
        fold(ctx, i, &res, r, &candidates);
    });

    // isolated re-runs: per candidate signature the two lowest cases, one run each, nothing else running
    let mut by_sig: BTreeMap<String, Vec<(u64, String, Value)>> = BTreeMap::new();
    for (sig, case, what, w) in candidates.into_inner().unwrap() {
        by_sig.entry(sig).or_default().push((case, what, w));
    }
    let started = Instant::now();
    let rerun_budget = Duration::from_secs(ctx.tier.pick(45, 240));
    for (sig, mut list) in by_sig {
        list.sort_by_key(|x| x.0);
        list.dedup_by_key(|x| x.0);
        rep.obs(&format!("b.candidates:{sig}"), list.len() as u64);
        // one isolated re-run each for up to four cases of this signature (a handful of cells on 16
        // cores is an unloaded machine); the signature counts when one of them shows it again
        let picks: Vec<&(u64, String, Value)> = if started.elapsed() > rerun_budget { Vec::new() } else { list.iter().take(4).collect() };
        let tried = picks.len();
        rep.obs("b.isolated_reruns", tried as u64);
        let results: Vec<Option<(String, Value)>> = std::thread::scope(|s| {
            let hs: Vec<_> = picks
                .iter()
                .map(|(case, _, _)| {
                    let sig = &sig;
                    s.spawn(move || {
                        let res = run_cell(ctx, *case);
                        res.out.candidates.iter().chain(res.out.violations.iter()).find(|f| &f.sig == sig).map(|f| (f.what.clone(), f.detail.clone()))
                    })
                })
                .collect();
            hs.into_iter().map(|h| h.join().unwrap_or(None)).collect()
        });
        let mut confirmed = false;
        for ((_, what, w), again) in picks.iter().zip(results) {
            if let Some((what2, detail2)) = again {
                let mut w = w.clone();
                w["rerun"] = json!({"reproduced_in_isolation": true, "what": what2, "oracle": detail2});
                rep.violation(&sig, what, w);
                confirmed = true;
                break;
            }
        }
        if confirmed {
            rep.obs(&format!("b.confirmed_in_isolation:{sig}"), 1);
        } else if tried == 0 {
            rep.inconclusive(&format!("b: candidate {sig} not re-run (budget)"));
        } else {
            rep.inconclusive(&format!("b: candidate {sig} not reproduced in isolation"));
        }
    }
}
