//! C19 part (b): one cell = one live worker + UDP listener + scripted backends and clients; runs
//! the concrete operation list of a `Spec` and records everything the peers saw.

use std::{
    collections::{HashMap, HashSet},
    net::{Ipv4Addr, SocketAddr},
    time::{Duration, Instant},
};

use sozu_command_lib::proto::command::{
    ActivateListener, Cluster, DeactivateListener, ListenerType, LoadBalancingAlgorithms, RemoveBackend, RequestUdpFrontend, ResponseStatus, Status, UdpAffinityKey, UdpClusterConfig, UdpListenerConfig, UpdateUdpListenerConfig, request::RequestType,
};

use super::{
    script::{Op, Shot, Spec},
    wire::{Arr, BackendPeer, ClientSock, Got, Parsed, RepSent, make_req},
};
use crate::{
    common::par::PanicRec,
    lab::{self, Worker, WorkerOpts},
};

pub const CLUSTER: &str = "c19";
const FRONT_PORT: u16 = 5300;
const BACK_PORT: u16 = 9000;

#[derive(Clone, Debug)]
pub struct Sent {
    pub g: u32,
    pub sid: u8,
    pub seq: u32,
    pub len: usize,
    pub nrep: u8,
    pub rlen: u16,
    pub t: Instant,
    pub op: usize,
    pub ok: bool,
    /// bumps at every event that re-keys or tears down all flows (flip, deactivate, activate, soft stop)
    pub era: u32,
    /// sent after the last settle before such an event: which era handled it is unknown
    pub amb: bool,
    pub with_port: bool,
    pub max_rx_lo: u32,
    pub max_rx_hi: u32,
    pub listener_up: bool,
    pub cap_small: bool,
    pub backends_removed: bool,
}

#[derive(Clone, Debug, Default)]
pub struct Window {
    pub op: usize,
    pub cands: Vec<u8>,
    pub extras: Vec<u8>,
    pub cap: u32,
    pub begin: HashMap<u8, (u8, SocketAddr)>,
    pub end: HashMap<u8, (u8, SocketAddr)>,
    /// client datagrams with g in g_begin..g_end were sent while every confirmed candidate was live
    pub g_begin: u32,
    pub g_end: u32,
    pub closed: bool,
}

#[derive(Clone, Debug)]
pub struct AdmitRes {
    pub op: usize,
    pub sid: u8,
    pub victim: u8,
    pub cap: u32,
    pub admitted_after_ms: Option<u64>,
    pub victim_idle_ms_at_admission: Option<u64>,
    pub waited_ms: u64,
    pub live_slots_end: i64,
    pub knocks: u32,
}

#[derive(Clone, Debug)]
pub struct ExpireRes {
    pub op: usize,
    pub g_at: u32,
    pub baseline_after_ms: Option<u64>,
    pub waited_ms: u64,
    pub live_slots_start: i64,
    pub live_slots_end: i64,
    pub forced_reset: bool,
}

#[derive(Clone, Debug)]
pub struct Event {
    pub op: usize,
    pub what: String,
    pub ok: bool,
    pub t: Instant,
}

#[derive(Clone, Debug)]
pub struct Footprint {
    pub op: usize,
    pub live_slots: i64,
    pub cap_max: u32,
}

/// everything observed in one cell
pub struct History {
    pub t0: Instant,
    pub tag: u16,
    pub front: SocketAddr,
    pub client_addrs: Vec<SocketAddr>,
    pub backend_addrs: Vec<SocketAddr>,
    pub sent: Vec<Sent>,
    pub arrivals: Vec<Arr>,
    pub replies_sent: Vec<RepSent>,
    pub got: Vec<Got>,
    pub windows: Vec<Window>,
    pub admits: Vec<AdmitRes>,
    pub expires: Vec<ExpireRes>,
    pub events: Vec<Event>,
    pub footprints: Vec<Footprint>,
    pub baseline: usize,
    pub removed_backends: Vec<(u8, usize)>,
    pub status_failures: Vec<usize>,
    pub soft_stop: Option<(bool, bool)>, // (final answer ok, worker thread ended)
    pub panics: Vec<PanicRec>,
    pub setup_error: Option<String>,
    pub wall_ms: u64,
}

pub struct Cell<'a> {
    spec: &'a Spec,
    w: Worker,
    tag: u16,
    front: SocketAddr,
    ips: Vec<Ipv4Addr>,
    clients: Vec<ClientSock>,
    backends: Vec<BackendPeer>,
    cursors: Vec<(usize, usize)>,
    arr_by_req: HashMap<(u8, u32), (u8, SocketAddr)>,
    replies_got: HashSet<(u8, u32, u8)>,
    buf: Vec<u8>,
    g: u32,
    op: usize,
    era: u32,
    with_port: bool,
    max_rx: u32,
    cap: u32,
    cap_max: u32,
    front_s: u32,
    back_s: u32,
    listener_up: bool,
    cap_small: bool,
    last_settle: usize,
    h: History,
}

fn eff_cap(c: u32) -> u32 {
    if c == 0 { 100_000 } else { c }
}

impl<'a> Cell<'a> {
    pub fn run(spec: &'a Spec, case: u64) -> History {
        let started = Instant::now();
        let ip = lab::fresh_ip();
        let tag = (case as u16) ^ 0x5a5a;
        let front = lab::sa(ip, FRONT_PORT);
        let mut h = History {
            t0: started,
            tag,
            front,
            client_addrs: Vec::new(),
            backend_addrs: Vec::new(),
            sent: Vec::new(),
            arrivals: Vec::new(),
            replies_sent: Vec::new(),
            got: Vec::new(),
            windows: Vec::new(),
            admits: Vec::new(),
            expires: Vec::new(),
            events: Vec::new(),
            footprints: Vec::new(),
            baseline: 0,
            removed_backends: Vec::new(),
            status_failures: Vec::new(),
            soft_stop: None,
            panics: Vec::new(),
            setup_error: None,
            wall_ms: 0,
        };
        // peers first (a bind error is a harness problem)
        let mut ips = vec![ip];
        let mut clients: Vec<ClientSock> = Vec::new();
        let mut backends = Vec::new();
        for b in 0..spec.n_backends + spec.spare_backends {
            match BackendPeer::start(b, lab::sa(ip, BACK_PORT + b as u16), tag) {
                Ok(p) => backends.push(p),
                Err(e) => {
                    h.setup_error = Some(e);
                    return h;
                }
            }
        }
        for (sid, (ipi, port)) in spec.socks.iter().enumerate() {
            while ips.len() <= *ipi as usize {
                ips.push(lab::fresh_ip());
            }
            let mut tries = 0;
            loop {
                match ClientSock::bind(sid as u8, lab::sa(ips[*ipi as usize], *port)) {
                    Ok(c) => {
                        clients.push(c);
                        break;
                    }
                    Err(e) => {
                        tries += 1;
                        // another cell owns this address: take another private IP for this source
                        // (only safe while no socket of this IP exists yet)
                        let shared = spec.socks[..sid].iter().any(|(i, _)| i == ipi);
                        if tries > 3 || shared || *ipi == 0 {
                            h.setup_error = Some(e);
                            return h;
                        }
                        ips[*ipi as usize] = lab::fresh_ip();
                    }
                }
            }
        }
        h.client_addrs = clients.iter().map(|c| c.addr).collect();
        h.backend_addrs = backends.iter().map(|b| b.addr).collect();
        let w = Worker::start(WorkerOpts::default());
        let n_b = backends.len();
        let mut cell = Cell {
            spec,
            w,
            tag,
            front,
            ips,
            clients,
            backends,
            cursors: vec![(0, 0); n_b],
            arr_by_req: HashMap::new(),
            replies_got: HashSet::new(),
            buf: vec![0u8; 70_000],
            g: 0,
            op: 0,
            era: 0,
            with_port: spec.with_port,
            max_rx: spec.max_rx,
            cap: spec.cap,
            cap_max: eff_cap(spec.cap),
            front_s: spec.front_s,
            back_s: spec.back_s,
            listener_up: true,
            cap_small: false,
            last_settle: 0,
            h,
        };
        if let Err(e) = cell.setup() {
            cell.h.setup_error = Some(e);
        } else {
            for (i, op) in spec.ops.iter().enumerate() {
                cell.op = i;
                cell.exec(op);
                if !cell.w.is_running() && cell.h.soft_stop.is_none() {
                    cell.event("worker thread is gone", false);
                    break;
                }
            }
            cell.settle(Duration::from_millis(40), Duration::from_millis(300));
        }
        cell.finish(started)
    }

    fn finish(mut self, started: Instant) -> History {
        self.sync_logs();
        for b in self.backends.iter_mut() {
            b.stop();
        }
        self.sync_logs();
        self.collect();
        let mut h = self.h;
        h.panics = self.w.stop();
        h.wall_ms = started.elapsed().as_millis() as u64;
        h
    }

    fn event(&mut self, what: &str, ok: bool) {
        self.h.events.push(Event { op: self.op, what: what.to_owned(), ok, t: Instant::now() });
    }

    fn cluster(&self, with_port: bool) -> Cluster {
        let lb = match self.spec.lb {
            0 => LoadBalancingAlgorithms::RoundRobin,
            1 => LoadBalancingAlgorithms::Hrw,
            2 => LoadBalancingAlgorithms::Maglev,
            _ => LoadBalancingAlgorithms::Random,
        };
        Cluster {
            cluster_id: CLUSTER.into(),
            load_balancing: lb.into(),
            udp: Some(UdpClusterConfig {
                affinity_key: Some(if with_port { UdpAffinityKey::SourceIpPort } else { UdpAffinityKey::SourceIp }.into()),
                responses: Some(self.spec.responses),
                requests: Some(self.spec.requests),
                send_proxy_protocol: Some(self.spec.pp > 0),
                proxy_protocol_every_datagram: Some(self.spec.pp == 2),
                health: None,
            }),
            ..Default::default()
        }
    }

    fn activate(&mut self) -> bool {
        self.w.ok(RequestType::ActivateListener(ActivateListener { address: self.front.into(), proxy: ListenerType::Udp.into(), from_scm: false }))
    }

    fn setup(&mut self) -> Result<(), String> {
        let l = UdpListenerConfig {
            address: self.front.into(),
            public_address: None,
            front_timeout: self.spec.front_s,
            back_timeout: self.spec.back_s,
            max_rx_datagram_size: self.spec.max_rx,
            max_flows: self.spec.cap,
            active: false,
        };
        if !self.w.ok(RequestType::AddUdpListener(l)) {
            return Err("AddUdpListener refused".into());
        }
        if !self.activate() {
            return Err("ActivateListener(UDP) refused".into());
        }
        let c = self.cluster(self.spec.with_port);
        if !self.w.add_cluster(c) {
            return Err("AddCluster refused".into());
        }
        if !self.w.ok(RequestType::AddUdpFrontend(RequestUdpFrontend { cluster_id: CLUSTER.into(), address: self.front.into(), tags: Default::default() })) {
            return Err("AddUdpFrontend refused".into());
        }
        for b in 0..self.spec.n_backends {
            let addr = self.backends[b as usize].addr;
            if !self.w.add_backend(CLUSTER, &format!("b{b}"), addr) {
                return Err("AddBackend refused".into());
            }
        }
        if !self.w.ok(RequestType::Status(Status {})) {
            return Err("Status refused after setup".into());
        }
        self.w.wait_iterations(1, Duration::from_secs(2));
        self.h.baseline = self.w.probe.snapshot().slab_len;
        Ok(())
    }

    // ---- observation -----------------------------------------------------------------------

    fn collect(&mut self) -> usize {
        let mut n = 0;
        let from = self.h.got.len();
        for c in &self.clients {
            n += c.drain(&mut self.buf, &mut self.h.got);
        }
        for g in &self.h.got[from..] {
            if let Parsed::Rep { sid, seq, k, .. } = g.parsed {
                self.replies_got.insert((sid, seq, k));
            }
        }
        n
    }

    fn sync_logs(&mut self) -> usize {
        let mut n = 0;
        for (i, b) in self.backends.iter().enumerate() {
            let l = b.log.lock().unwrap();
            let (ca, cs) = self.cursors[i];
            for a in &l.arrivals[ca..] {
                if let Parsed::Req { sid, seq, .. } = a.parsed {
                    self.arr_by_req.entry((sid, seq)).or_insert((a.backend, a.from));
                }
                self.h.arrivals.push(a.clone());
                n += 1;
            }
            self.h.replies_sent.extend(l.sent[cs..].iter().cloned());
            self.cursors[i] = (l.arrivals.len(), l.sent.len());
        }
        n
    }

    fn live_slots(&self) -> i64 {
        self.w.probe.snapshot().slab_len as i64 - self.h.baseline as i64
    }

    fn footprint(&mut self) {
        if self.h.soft_stop.is_some() {
            return; // the event loop is gone: the last snapshot is stale
        }
        let live_slots = self.live_slots();
        self.h.footprints.push(Footprint { op: self.op, live_slots, cap_max: self.cap_max });
    }

    /// wait until nothing moved for `quiet`, at most `max`
    fn settle(&mut self, quiet: Duration, max: Duration) {
        let start = Instant::now();
        let mut last = Instant::now();
        loop {
            let n = self.collect() + self.sync_logs();
            if n > 0 {
                last = Instant::now();
            }
            if last.elapsed() >= quiet || start.elapsed() >= max {
                break;
            }
            std::thread::sleep(Duration::from_millis(3));
        }
        self.last_settle = self.h.sent.len();
        self.footprint();
    }

    fn pause(&mut self, d: Duration) {
        let until = Instant::now() + d;
        while Instant::now() < until {
            self.collect();
            std::thread::sleep(Duration::from_millis(5).min(until.saturating_duration_since(Instant::now())));
        }
    }

    // ---- traffic ---------------------------------------------------------------------------

    fn send(&mut self, s: &Shot) -> (u8, u32) {
        let c = &mut self.clients[s.sid as usize];
        let seq = c.next_seq;
        c.next_seq += 1;
        let g = self.g;
        self.g += 1;
        let p = make_req(self.tag, s.sid, seq, g, s.len as usize, s.nrep, s.rlen);
        let ok = c.sock.send_to(&p, self.front).is_ok();
        self.h.sent.push(Sent {
            g,
            sid: s.sid,
            seq,
            len: s.len as usize,
            nrep: s.nrep,
            rlen: s.rlen,
            t: Instant::now(),
            op: self.op,
            ok,
            era: self.era,
            amb: false,
            with_port: self.with_port,
            max_rx_lo: self.max_rx,
            max_rx_hi: self.max_rx,
            listener_up: self.listener_up,
            cap_small: self.cap_small,
            backends_removed: self.h.removed_backends.len() >= self.spec.n_backends as usize,
        });
        (s.sid, seq)
    }

    fn burst(&mut self, shots: &[Shot]) -> Vec<(u8, u32)> {
        // no pause, no read in between: one readable pass of the listener sees several of them
        shots.iter().map(|s| self.send(s)).collect()
    }

    /// one plain request per socket, wait for each reply; (backend, upstream socket) that carried it
    fn confirm(&mut self, sids: &[u8], max: Duration) -> HashMap<u8, (u8, SocketAddr)> {
        let shots: Vec<Shot> = sids.iter().map(|s| Shot { sid: *s, len: 24 + (*s as u16 % 7), nrep: 1, rlen: 28 }).collect();
        let sent = self.burst(&shots);
        let start = Instant::now();
        loop {
            self.collect();
            let done = sent.iter().all(|(sid, seq)| self.replies_got.contains(&(*sid, *seq, 0)));
            if done || start.elapsed() > max {
                break;
            }
            std::thread::sleep(Duration::from_millis(2));
        }
        let mut out = HashMap::new();
        for _ in 0..50 {
            self.sync_logs();
            out.clear();
            for (sid, seq) in &sent {
                if self.replies_got.contains(&(*sid, *seq, 0)) {
                    if let Some(x) = self.arr_by_req.get(&(*sid, *seq)) {
                        out.insert(*sid, *x);
                    }
                }
            }
            let want = sent.iter().filter(|(sid, seq)| self.replies_got.contains(&(*sid, *seq, 0))).count();
            if out.len() >= want {
                break;
            }
            std::thread::sleep(Duration::from_millis(2));
        }
        out
    }

    // ---- reconfiguration -------------------------------------------------------------------

    /// datagrams sent since the last settle may be handled before or after the coming event
    fn new_era(&mut self) {
        for s in &mut self.h.sent[self.last_settle..] {
            s.amb = true;
        }
        self.era += 1;
    }

    fn update_listener(&mut self, patch: UpdateUdpListenerConfig, what: &str) {
        let ok = self.w.ok(RequestType::UpdateUdpListener(patch));
        self.event(what, ok);
    }

    fn patch(&self) -> UpdateUdpListenerConfig {
        UpdateUdpListenerConfig { address: self.front.into(), public_address: None, front_timeout: None, back_timeout: None, max_rx_datagram_size: None, max_flows: None }
    }

    fn deactivate(&mut self) -> bool {
        self.new_era();
        let ok = self.w.ok(RequestType::DeactivateListener(DeactivateListener { address: self.front.into(), proxy: ListenerType::Udp.into(), to_scm: false }));
        self.listener_up = false;
        ok
    }

    fn reactivate(&mut self) -> bool {
        self.new_era();
        let ok = self.activate();
        self.listener_up = ok;
        ok
    }

    fn t_max(&self) -> Duration {
        Duration::from_secs(self.spec.all_timeouts().1 as u64)
    }

    fn exec(&mut self, op: &Op) {
        match op {
            Op::Burst(shots) => {
                self.burst(shots);
            }
            Op::Settle => self.settle(Duration::from_millis(50), Duration::from_millis(600)),
            Op::Pause(ms) => self.pause(Duration::from_millis(*ms as u64)),
            Op::FullBegin { cands, extras, cap } => {
                let begin = self.confirm(cands, Duration::from_millis(800));
                self.settle(Duration::from_millis(30), Duration::from_millis(300));
                self.h.windows.push(Window { op: self.op, cands: cands.clone(), extras: extras.clone(), cap: *cap, begin, g_begin: self.g, ..Default::default() });
            }
            Op::FullEnd => {
                let g_end = self.g;
                let Some(idx) = self.h.windows.iter().rposition(|w| !w.closed) else { return };
                let cands = self.h.windows[idx].cands.clone();
                let end = self.confirm(&cands, Duration::from_millis(800));
                let w = &mut self.h.windows[idx];
                w.end = end;
                w.g_end = g_end;
                w.closed = true;
                self.settle(Duration::from_millis(30), Duration::from_millis(300));
            }
            Op::ExpectAdmit { sid, victim, keep } => self.expect_admit(*sid, *victim, keep),
            Op::ExpireAll => self.expire_all(),
            Op::Flip => {
                self.new_era();
                self.with_port = !self.with_port;
                let c = self.cluster(self.with_port);
                let ok = self.w.add_cluster(c);
                self.event(if self.with_port { "AddCluster(affinity=SOURCE_IP_PORT)" } else { "AddCluster(affinity=SOURCE_IP)" }, ok);
            }
            Op::SetCap(n) => {
                self.cap = *n;
                self.cap_small = *n < 50 && *n != 0;
                self.cap_max = self.cap_max.max(eff_cap(*n));
                if self.cap_small {
                    for s in &mut self.h.sent[self.last_settle..] {
                        s.cap_small = true;
                    }
                }
                let mut p = self.patch();
                p.max_flows = Some(*n);
                self.update_listener(p, &format!("UpdateUdpListener(max_flows={n})"));
            }
            Op::SetTimeouts(f, b) => {
                self.front_s = *f;
                self.back_s = *b;
                let mut p = self.patch();
                p.front_timeout = Some(*f);
                p.back_timeout = Some(*b);
                self.update_listener(p, &format!("UpdateUdpListener(timeouts={f}/{b})"));
            }
            Op::SetMaxRx(n) => {
                let (lo, hi) = (self.max_rx.min(*n), self.max_rx.max(*n));
                for s in &mut self.h.sent[self.last_settle..] {
                    s.max_rx_lo = s.max_rx_lo.min(lo);
                    s.max_rx_hi = s.max_rx_hi.max(hi);
                }
                self.max_rx = *n;
                let mut p = self.patch();
                p.max_rx_datagram_size = Some(*n);
                self.update_listener(p, &format!("UpdateUdpListener(max_rx={n})"));
            }
            Op::AddBackend(b) => {
                let addr = self.backends[*b as usize].addr;
                let ok = self.w.add_backend(CLUSTER, &format!("b{b}"), addr);
                self.event(&format!("AddBackend(b{b})"), ok);
            }
            Op::RemoveBackend(b) => {
                let addr = self.backends[*b as usize].addr;
                let ok = self.w.ok(RequestType::RemoveBackend(RemoveBackend { cluster_id: CLUSTER.into(), backend_id: format!("b{b}"), address: addr.into() }));
                self.h.removed_backends.push((*b, self.op));
                self.event(&format!("RemoveBackend(b{b})"), ok);
            }
            Op::Deactivate => {
                let ok = self.deactivate();
                self.event("DeactivateListener", ok);
                // flows are torn down with the listener: the footprint is back at the baseline
                self.w.wait_iterations(1, Duration::from_secs(1));
                let live = self.live_slots();
                self.event(&format!("footprint after DeactivateListener: {live} upstream slots"), live == 0);
            }
            Op::Activate => {
                let ok = self.reactivate();
                self.event("ActivateListener", ok);
            }
            Op::SoftStop => {
                self.new_era();
                self.listener_up = false;
                let ok = match self.w.soft_stop() {
                    Ok(id) => matches!(self.w.wait_final(&id, Duration::from_secs(4)), Ok(r) if r.status == ResponseStatus::Ok as i32),
                    Err(_) => false,
                };
                let ended = self.w.join(Duration::from_secs(3));
                self.h.soft_stop = Some((ok, ended));
            }
            Op::Status => {
                if self.h.soft_stop.is_some() {
                    return;
                }
                if !self.w.ok(RequestType::Status(Status {})) {
                    self.h.status_failures.push(self.op);
                }
                self.footprint();
            }
        }
    }

    fn expect_admit(&mut self, sid: u8, victim: u8, keep: &[u8]) {
        let victim_last = self.h.sent.iter().rev().find(|s| s.sid == victim).map(|s| s.t).unwrap_or_else(Instant::now);
        let start = Instant::now();
        let max = self.t_max() + Duration::from_millis(1500);
        let mut knocks = Vec::new();
        let mut admitted = None;
        while start.elapsed() < max {
            let mut shots: Vec<Shot> = keep.iter().map(|s| Shot { sid: *s, len: 30, nrep: 1, rlen: 30 }).collect();
            shots.push(Shot { sid, len: 33, nrep: 1, rlen: 33 });
            let sent = self.burst(&shots);
            knocks.push(*sent.last().unwrap());
            let until = Instant::now() + Duration::from_millis(140);
            while Instant::now() < until {
                self.collect();
                if knocks.iter().any(|(s, q)| self.replies_got.contains(&(*s, *q, 0))) {
                    admitted = Some((start.elapsed().as_millis() as u64, victim_last.elapsed().as_millis() as u64));
                    break;
                }
                std::thread::sleep(Duration::from_millis(4));
            }
            if admitted.is_some() {
                break;
            }
        }
        self.settle(Duration::from_millis(30), Duration::from_millis(300));
        let live = self.live_slots();
        self.h.admits.push(AdmitRes {
            op: self.op,
            sid,
            victim,
            cap: self.cap,
            admitted_after_ms: admitted.map(|a| a.0),
            victim_idle_ms_at_admission: admitted.map(|a| a.1),
            waited_ms: start.elapsed().as_millis() as u64,
            live_slots_end: live,
            knocks: knocks.len() as u32,
        });
    }

    fn expire_all(&mut self) {
        if !self.listener_up {
            return;
        }
        self.settle(Duration::from_millis(40), Duration::from_millis(400));
        let start = Instant::now();
        let live_start = self.live_slots();
        let max = self.t_max() + Duration::from_millis(1200);
        let mut ok_after = None;
        loop {
            self.collect();
            if self.live_slots() == 0 {
                ok_after = Some(start.elapsed().as_millis() as u64);
                break;
            }
            if start.elapsed() >= max {
                break;
            }
            std::thread::sleep(Duration::from_millis(15));
        }
        let live_end = self.live_slots();
        let mut forced = false;
        if ok_after.is_none() {
            // put the cell back into a known state so that the rest of the script still means something
            forced = true;
            let a = self.deactivate();
            let b = self.reactivate();
            self.event("forced reset (Deactivate+Activate) after flows did not idle out", a && b);
        } else {
            // every flow is gone: whatever comes next is handled by new flows
            self.era += 1;
        }
        self.h.expires.push(ExpireRes {
            op: self.op,
            g_at: self.g,
            baseline_after_ms: ok_after,
            waited_ms: start.elapsed().as_millis() as u64,
            live_slots_start: live_start,
            live_slots_end: live_end,
            forced_reset: forced,
        });
        self.footprint();
    }
}

#[allow(dead_code)]
pub fn ip_of(h: &History, sid: u8) -> std::net::IpAddr {
    h.client_addrs[sid as usize].ip()
}
