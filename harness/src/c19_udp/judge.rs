//! C19 part (b): oracles over the history of one cell. Written from the property statement:
//! who received which datagram, on which upstream socket, and when.

use std::{
    collections::{BTreeMap, HashMap},
    net::SocketAddr,
    time::Instant,
};

use serde_json::{Value, json};

use super::{
    cell::{History, Sent},
    script::Spec,
    wire::{Arr, Got, HDR, Parsed, hex, make_rep, make_req},
};

pub struct Finding {
    pub sig: String,
    pub what: String,
    pub detail: Value,
}

#[derive(Default)]
pub struct Outcome {
    pub obs: BTreeMap<String, u64>,
    /// refuted on logical grounds
    pub violations: Vec<Finding>,
    /// bounded-time expectations missed: to be re-run in isolation before they count
    pub candidates: Vec<Finding>,
    pub inconclusive: Vec<String>,
    pub nontrivial: bool,
}

impl Outcome {
    fn obs(&mut self, k: &str, n: u64) {
        *self.obs.entry(format!("b.{k}")).or_insert(0) += n;
    }
    fn violation(&mut self, sig: &str, what: String, detail: Value) {
        if self.violations.iter().filter(|f| f.sig == sig).count() < 2 {
            self.violations.push(Finding { sig: sig.to_owned(), what, detail });
        }
        self.obs(&format!("flagged:{sig}"), 1);
    }
    fn candidate(&mut self, sig: &str, what: String, detail: Value) {
        if self.candidates.iter().filter(|f| f.sig == sig).count() < 2 {
            self.candidates.push(Finding { sig: sig.to_owned(), what, detail });
        }
        self.obs(&format!("candidate:{sig}"), 1);
    }
}

fn ms(h: &History, t: Instant) -> u64 {
    t.saturating_duration_since(h.t0).as_millis() as u64
}

fn sent_json(h: &History, s: &Sent) -> Value {
    json!({"g": s.g, "socket": format!("s{}={}", s.sid, h.client_addrs[s.sid as usize]), "seq": s.seq, "len": s.len, "replies_asked": s.nrep,
        "sent_at_ms": ms(h, s.t), "op": s.op, "era": s.era, "affinity_at_send": if s.with_port { "SOURCE_IP_PORT" } else { "SOURCE_IP" }})
}

fn arr_json(h: &History, a: &Arr) -> Value {
    json!({"backend": format!("b{}={}", a.backend, h.backend_addrs[a.backend as usize]), "from_upstream_socket": a.from.to_string(), "at_ms": ms(h, a.t),
        "len": a.data.len(), "payload": hex(&a.data, 32), "parsed": format!("{:?}", a.parsed)})
}

fn got_json(h: &History, g: &Got) -> Value {
    json!({"on_client_socket": format!("s{}={}", g.sock, h.client_addrs[g.sock as usize]), "from": g.from.to_string(), "at_ms": ms(h, g.t),
        "len": g.data.len(), "payload": hex(&g.data, 32), "parsed": format!("{:?}", g.parsed)})
}

pub fn judge(spec: &Spec, h: &History) -> Outcome {
    let mut o = Outcome::default();
    if let Some(e) = &h.setup_error {
        o.inconclusive.push(format!("b: cell setup failed: {e}"));
        return o;
    }
    let (t_min_s, t_max_s) = spec.all_timeouts();
    let half_min_ms = t_min_s as u64 * 500;
    let n_socks = spec.socks.len();
    let by_ip = spec.ever_source_ip();
    let coarse = |sid: u8| -> u32 { if by_ip { spec.socks[sid as usize].0 as u32 } else { 1000 + sid as u32 } };
    let sent_idx: HashMap<(u8, u32), usize> = h.sent.iter().enumerate().map(|(i, s)| ((s.sid, s.seq), i)).collect();
    let mut tiny_sent: HashMap<(u8, usize), u64> = HashMap::new();
    for s in &h.sent {
        if s.len < HDR && s.len > 0 {
            *tiny_sent.entry((s.sid, s.len)).or_insert(0) += 1;
        }
    }
    o.obs("client_datagrams_sent", h.sent.len() as u64);
    o.obs("client_datagrams_arrived_at_backends", h.arrivals.len() as u64);
    o.obs("backend_datagrams_sent", h.replies_sent.len() as u64);
    o.obs("backend_datagrams_arrived_at_clients", h.got.len() as u64);

    // ---- (3) integrity at the backends, attribution of every arrival -----------------------
    // delivered[sent index] = arrival index
    let mut delivered: HashMap<usize, usize> = HashMap::new();
    let mut tiny_arr: HashMap<(u8, usize), u64> = HashMap::new();
    // arrival index -> socket it is attributed to
    let mut arr_sid: Vec<Option<u8>> = vec![None; h.arrivals.len()];
    for (ai, a) in h.arrivals.iter().enumerate() {
        match &a.parsed {
            Parsed::Req { tag, sid, seq, .. } if *tag == h.tag && (*sid as usize) < n_socks => match sent_idx.get(&(*sid, *seq)) {
                Some(&si) => {
                    let s = &h.sent[si];
                    let want = make_req(h.tag, s.sid, s.seq, s.g, s.len, s.nrep, s.rlen);
                    if want != a.data {
                        o.violation(
                            "integrity/client_datagram_altered",
                            format!("backend b{} received datagram s{}#{} with {} bytes, {} were sent (or content differs)", a.backend, sid, seq, a.data.len(), s.len),
                            json!({"sent": sent_json(h, s), "arrival": arr_json(h, a), "expected_payload": hex(&want, 32)}),
                        );
                    } else if let Some(&prev) = delivered.get(&si) {
                        o.violation(
                            "integrity/client_datagram_duplicated",
                            format!("datagram s{sid}#{seq} was delivered twice"),
                            json!({"sent": sent_json(h, s), "first": arr_json(h, &h.arrivals[prev]), "second": arr_json(h, a)}),
                        );
                    } else {
                        delivered.insert(si, ai);
                        arr_sid[ai] = Some(*sid);
                        if s.len as u32 > s.max_rx_hi {
                            o.obs("exempt_oversize_client_datagram_forwarded", 1);
                        }
                    }
                }
                None => o.violation(
                    "integrity/client_datagram_altered",
                    format!("backend b{} received a datagram naming s{sid}#{seq}, which was never sent", a.backend),
                    json!({"arrival": arr_json(h, a)}),
                ),
            },
            Parsed::Tiny { sid } if (*sid as usize) < n_socks => {
                let want = make_req(h.tag, *sid, 0, 0, a.data.len(), 0, 0);
                let n = tiny_arr.entry((*sid, a.data.len())).or_insert(0);
                *n += 1;
                if want != a.data {
                    o.violation(
                        "integrity/client_datagram_altered",
                        format!("backend b{} received a {}-byte datagram that no client sent", a.backend, a.data.len()),
                        json!({"arrival": arr_json(h, a)}),
                    );
                } else if *n > tiny_sent.get(&(*sid, a.data.len())).copied().unwrap_or(0) {
                    o.violation(
                        "integrity/client_datagram_duplicated",
                        format!("more {}-byte datagrams of s{sid} arrived than were sent", a.data.len()),
                        json!({"arrival": arr_json(h, a), "sent": tiny_sent.get(&(*sid, a.data.len())), "arrived": *n}),
                    );
                } else {
                    arr_sid[ai] = Some(*sid);
                    o.obs("tiny_datagrams_delivered", 1);
                }
            }
            Parsed::Empty => o.obs("empty_datagrams_forwarded", 1),
            _ => o.violation(
                "integrity/client_datagram_altered",
                format!("backend b{} received a datagram that no client sent", a.backend),
                json!({"arrival": arr_json(h, a)}),
            ),
        }
        // PROXY protocol v2 header in front of the payload
        match (&a.pp, arr_sid[ai]) {
            (Some(Ok(src)), Some(sid)) if spec.pp > 0 => {
                let me = h.client_addrs[sid as usize];
                let s = match &a.parsed {
                    Parsed::Req { seq, .. } => sent_idx.get(&(sid, *seq)).map(|i| &h.sent[*i]),
                    _ => None,
                };
                let strict_port = s.is_some_and(|s| s.with_port && !s.amb);
                if src.ip() != me.ip() || (strict_port && *src != me) {
                    o.violation(
                        "isolation/ppv2_header_names_another_client",
                        format!("datagram of {me} reached b{} behind a PROXY v2 header naming {src}", a.backend),
                        json!({"arrival": arr_json(h, a), "header_source": src.to_string(), "sender": me.to_string()}),
                    );
                } else if *src != me {
                    o.obs("exempt_ppv2_names_other_port_of_same_ip", 1);
                } else {
                    o.obs("ppv2_headers_verified", 1);
                }
            }
            (Some(Err(e)), _) => o.violation("integrity/proxy_protocol_header_malformed", format!("b{}: {e}", a.backend), json!({"arrival": arr_json(h, a)})),
            (Some(Ok(src)), _) if spec.pp == 0 => o.violation(
                "integrity/unexpected_proxy_protocol_header",
                format!("b{} received a PROXY v2 header (source {src}) although send_proxy_protocol is off", a.backend),
                json!({"arrival": arr_json(h, a)}),
            ),
            _ => {}
        }
    }
    o.obs("client_datagrams_delivered_intact", delivered.len() as u64);

    // ---- upstream sockets: one flow each; order within a flow ------------------------------
    let limits = spec.has_limits();
    let mut flows_seen: HashMap<(u8, SocketAddr), ()> = HashMap::new();
    for b in 0..h.backend_addrs.len() as u8 {
        // last attributed arrival per upstream socket, last seq per (upstream, socket)
        let mut last_on: HashMap<SocketAddr, usize> = HashMap::new();
        let mut last_seq: HashMap<(SocketAddr, u8), u32> = HashMap::new();
        for (ai, a) in h.arrivals.iter().enumerate().filter(|(_, a)| a.backend == b) {
            flows_seen.insert((b, a.from), ());
            let Some(sid) = arr_sid[ai] else { continue };
            if let Some(&pi) = last_on.get(&a.from) {
                let p = &h.arrivals[pi];
                let psid = arr_sid[pi].unwrap();
                if coarse(psid) != coarse(sid) {
                    let gap = a.t.saturating_duration_since(p.t).as_millis() as u64;
                    let era = |ai: usize| match &h.arrivals[ai].parsed {
                        Parsed::Req { sid, seq, .. } => sent_idx.get(&(*sid, *seq)).map(|i| (h.sent[*i].era, h.sent[*i].amb)),
                        _ => None,
                    };
                    let same_era = matches!((era(pi), era(ai)), (Some((e1, false)), Some((e2, false))) if e1 == e2);
                    if limits {
                        o.obs("exempt_upstream_port_reused_in_cell_with_limits", 1);
                    } else if !same_era || gap >= half_min_ms {
                        o.obs("exempt_upstream_port_reused_after_teardown", 1);
                    } else {
                        o.violation(
                            "isolation/upstream_socket_shared_by_two_clients",
                            format!(
                                "backend b{b} received datagrams of two different clients (s{psid} then s{sid}, {gap} ms apart) from the same upstream socket {}: a flow's datagram was sent on another flow's socket, its replies go to the wrong client",
                                a.from
                            ),
                            json!({"first": arr_json(h, p), "then": arr_json(h, a), "first_client": h.client_addrs[psid as usize].to_string(), "second_client": h.client_addrs[sid as usize].to_string()}),
                        );
                    }
                }
            }
            last_on.insert(a.from, ai);
            if let Parsed::Req { seq, .. } = a.parsed {
                if let Some(prev) = last_seq.insert((a.from, sid), seq) {
                    if seq < prev {
                        o.violation(
                            "integrity/client_datagrams_reordered_within_flow",
                            format!("b{b} received s{sid}#{seq} after s{sid}#{prev} on upstream socket {}", a.from),
                            json!({"arrival": arr_json(h, a)}),
                        );
                    } else {
                        o.obs("order_pairs_verified_client_to_backend", 1);
                    }
                }
            }
        }
    }
    o.obs("flows_observed", flows_seen.len() as u64);

    // ---- (1) stickiness per affinity key ---------------------------------------------------
    let removed_before = |b: u8, op: usize| h.removed_backends.iter().any(|(rb, rop)| *rb == b && *rop <= op);
    let mut last_of_key: HashMap<(bool, u32), (u32, usize, usize)> = HashMap::new(); // (era, sent idx, arrival idx)
    for (si, s) in h.sent.iter().enumerate() {
        let Some(&ai) = delivered.get(&si) else { continue };
        if s.amb {
            continue;
        }
        let key = (s.with_port, spec.key(s.sid, s.with_port));
        let a = &h.arrivals[ai];
        if let Some(&(era, psi, pai)) = last_of_key.get(&key) {
            if era == s.era {
                let p = &h.sent[psi];
                let pa = &h.arrivals[pai];
                if p.sid != s.sid {
                    o.obs("datagrams_of_one_key_from_several_ports", 1);
                }
                if (pa.backend, pa.from) == (a.backend, a.from) {
                    o.obs("sticky_pairs_verified", 1);
                } else {
                    let gap = s.t.saturating_duration_since(p.t).as_millis() as u64;
                    if limits {
                        o.obs("exempt_flow_changed_in_cell_with_limits", 1);
                    } else if gap >= half_min_ms {
                        o.obs("flow_changed_after_possible_idle_expiry", 1);
                    } else if removed_before(pa.backend, s.op) {
                        o.obs("exempt_flow_changed_after_backend_removal", 1);
                    } else {
                        let (sig, what) = if pa.backend != a.backend {
                            ("stickiness/backend_changed_while_flow_live", format!("client key of s{} was served by b{} and {gap} ms later by b{}", s.sid, pa.backend, a.backend))
                        } else {
                            ("stickiness/upstream_socket_changed_while_flow_live", format!("client key of s{} moved from upstream socket {} to {} of b{} within {gap} ms", s.sid, pa.from, a.from, a.backend))
                        };
                        o.candidate(
                            sig,
                            what,
                            json!({"previous": {"sent": sent_json(h, p), "arrival": arr_json(h, pa)}, "then": {"sent": sent_json(h, s), "arrival": arr_json(h, a)}, "idle_timeouts_s": [t_min_s, t_max_s]}),
                        );
                    }
                }
            }
        }
        last_of_key.insert(key, (s.era, si, ai));
    }

    // ---- (5) teardown: after idle timeout + slack ------------------------------------------
    for e in &h.expires {
        o.obs("expiry_waits", 1);
        match e.baseline_after_ms {
            Some(ms) => {
                o.obs("expiry_waits_footprint_back_to_baseline", 1);
                *o.obs.entry("max:b.ms_until_footprint_back_to_baseline".into()).or_insert(0) = (*o.obs.get("max:b.ms_until_footprint_back_to_baseline").unwrap_or(&0)).max(ms);
                // black box: the next datagram of every client comes from a new upstream socket
                let mut before: HashMap<(bool, u32), (u8, SocketAddr)> = HashMap::new();
                for (si, s) in h.sent.iter().enumerate().filter(|(_, s)| s.g < e.g_at) {
                    if let Some(&ai) = delivered.get(&si) {
                        before.insert((s.with_port, spec.key(s.sid, s.with_port)), (h.arrivals[ai].backend, h.arrivals[ai].from));
                    }
                }
                let mut checked = std::collections::HashSet::new();
                for (si, s) in h.sent.iter().enumerate().filter(|(_, s)| s.g >= e.g_at) {
                    let k = (s.with_port, spec.key(s.sid, s.with_port));
                    let Some(&ai) = delivered.get(&si) else { continue };
                    if !checked.insert(k) {
                        continue;
                    }
                    if let Some(old) = before.get(&k) {
                        if *old == (h.arrivals[ai].backend, h.arrivals[ai].from) {
                            o.candidate(
                                "teardown/idle_flow_not_torn_down",
                                format!("s{} still uses upstream socket {} after all flows were idle for {} ms", s.sid, old.1, e.waited_ms),
                                json!({"op": e.op, "observation": "same upstream socket after the idle timeout", "then": arr_json(h, &h.arrivals[ai])}),
                            );
                        } else {
                            o.obs("new_upstream_socket_after_expiry", 1);
                        }
                    }
                }
            }
            None => o.candidate(
                "teardown/idle_flow_not_torn_down",
                format!(
                    "{} upstream socket(s)/slab slot(s) above the baseline {} ms after the last datagram (idle timeouts front/back <= {} s): idle flows were not torn down",
                    e.live_slots_end, e.waited_ms, t_max_s
                ),
                json!({"op": e.op, "observation": "footprint (probe.snapshot().slab_len - baseline)", "live_slots_when_traffic_stopped": e.live_slots_start, "live_slots_after_wait": e.live_slots_end, "waited_ms": e.waited_ms, "idle_timeouts_s": [t_min_s, t_max_s]}),
            ),
        }
    }

    // ---- (2) isolation and integrity at the clients ----------------------------------------
    let rep_idx: HashMap<(u8, u32, u8), usize> = h.replies_sent.iter().enumerate().map(|(i, r)| ((r.sid, r.seq, r.k), i)).collect();
    let mut rep_got: HashMap<usize, usize> = HashMap::new();
    let mut last_bseq: HashMap<(u8, u8, SocketAddr), u32> = HashMap::new();
    for (gi, g) in h.got.iter().enumerate() {
        if g.from != h.front {
            o.violation(
                "isolation/reply_not_sent_from_listener_address",
                format!("client socket s{} received a datagram from {} instead of the listener {}", g.sock, g.from, h.front),
                json!({"received": got_json(h, g)}),
            );
            continue;
        }
        let Parsed::Rep { tag, backend, sid, seq, k, .. } = g.parsed else {
            o.violation("integrity/backend_datagram_altered", format!("client socket s{} received a datagram no backend sent", g.sock), json!({"received": got_json(h, g)}));
            continue;
        };
        let Some(&ri) = (if tag == h.tag { rep_idx.get(&(sid, seq, k)) } else { None }) else {
            o.violation("integrity/backend_datagram_altered", format!("client socket s{} received a datagram no backend sent", g.sock), json!({"received": got_json(h, g)}));
            continue;
        };
        let r = &h.replies_sent[ri];
        let want = make_rep(h.tag, r.backend, r.sid, r.seq, r.k, r.bseq, r.len);
        if want != g.data || backend != r.backend {
            o.violation(
                "integrity/backend_datagram_altered",
                format!("reply #{k} of b{} to s{sid}#{seq}: {} bytes sent, {} received (or content differs)", r.backend, r.len, g.data.len()),
                json!({"received": got_json(h, g), "expected_payload": hex(&want, 32)}),
            );
            continue;
        }
        if let Some(&prev) = rep_got.get(&ri) {
            o.violation(
                "integrity/backend_datagram_duplicated",
                format!("reply #{k} of b{} to s{sid}#{seq} was delivered twice", r.backend),
                json!({"first": got_json(h, &h.got[prev]), "second": got_json(h, g)}),
            );
            continue;
        }
        rep_got.insert(ri, gi);
        // who may receive it
        let req = sent_idx.get(&(sid, seq)).map(|i| &h.sent[*i]);
        let asker = h.client_addrs[sid as usize];
        let me = h.client_addrs[g.sock as usize];
        let exact = req.is_some_and(|s| s.with_port && !s.amb);
        if me.ip() != asker.ip() || (exact && g.sock != sid) {
            o.violation(
                "isolation/reply_delivered_to_another_client",
                format!("reply of b{} to datagram #{seq} of client {asker} was delivered to client {me}", r.backend),
                json!({"request": req.map(|s| sent_json(h, s)), "reply_sent_to_upstream_socket": r.to.to_string(), "received": got_json(h, g),
                    "request_arrival": req.and_then(|s| sent_idx.get(&(s.sid, s.seq))).and_then(|i| delivered.get(i)).map(|ai| arr_json(h, &h.arrivals[*ai]))}),
            );
        } else if g.sock != sid {
            o.obs("exempt_reply_to_other_port_of_same_ip", 1);
        } else {
            o.obs("replies_delivered_to_the_asking_socket", 1);
        }
        if r.len as u32 > req.map(|s| s.max_rx_hi).unwrap_or(u32::MAX) {
            o.obs("exempt_oversize_backend_datagram_forwarded", 1);
        }
        if let Some(prev) = last_bseq.insert((g.sock, r.backend, r.to), r.bseq) {
            if r.bseq < prev {
                o.violation(
                    "integrity/backend_datagrams_reordered_within_flow",
                    format!("s{} received datagram {} of b{} (upstream socket {}) after datagram {prev}", g.sock, r.bseq, r.backend, r.to),
                    json!({"received": got_json(h, g)}),
                );
            } else {
                o.obs("order_pairs_verified_backend_to_client", 1);
            }
        }
    }

    // ---- (4) cap ---------------------------------------------------------------------------
    for w in h.windows.iter().filter(|w| w.closed) {
        let live: Vec<u8> = w.cands.iter().copied().filter(|s| w.begin.get(s).is_some() && w.begin.get(s) == w.end.get(s)).collect();
        let cand_keys: Vec<u32> = w.cands.iter().map(|s| coarse(*s)).collect();
        if (live.len() as u32) < w.cap {
            o.obs("cap_windows_exempt_table_not_provably_full", 1);
            continue;
        }
        o.obs("cap_full_windows", 1);
        if live.len() as u32 > w.cap {
            o.obs("cap_full_windows_with_live_flows_above_shrunk_cap", 1);
        }
        for (si, s) in h.sent.iter().enumerate().filter(|(_, s)| s.g >= w.g_begin && s.g < w.g_end) {
            if delivered.get(&si).is_none() && (s.len < HDR || s.len as u32 > s.max_rx_lo) {
                continue;
            }
            let is_cand = cand_keys.contains(&coarse(s.sid)) && (by_ip || w.cands.contains(&s.sid));
            let is_live = live.iter().any(|l| coarse(*l) == coarse(s.sid));
            match (is_cand, delivered.get(&si)) {
                (true, Some(_)) if is_live => o.obs("established_flow_served_while_table_full", 1),
                (true, None) if is_live => o.obs("established_flow_datagram_lost_while_table_full", 1),
                (true, _) => o.obs("exempt_candidate_without_confirmed_flow_in_full_window", 1),
                (false, None) => o.obs("new_source_shed_while_table_full", 1),
                (false, Some(&ai)) => o.violation(
                    "cap/new_source_served_while_table_full",
                    format!(
                        "max_flows = {}: {} flows were live before and after (same upstream sockets), yet a datagram of another source (s{}) was forwarded in between",
                        w.cap,
                        live.len(),
                        s.sid
                    ),
                    json!({"window_op": w.op, "max_flows": w.cap, "live_flows (socket -> backend, upstream socket)": live.iter().map(|x| format!("s{x} -> b{} {}", w.begin[x].0, w.begin[x].1)).collect::<Vec<_>>(),
                        "sent": sent_json(h, s), "arrival": arr_json(h, &h.arrivals[ai])}),
                ),
            }
        }
    }
    for a in &h.admits {
        o.obs("waiting_source_episodes", 1);
        match a.admitted_after_ms {
            Some(ms) => {
                let idle = a.victim_idle_ms_at_admission.unwrap_or(0);
                if idle < half_min_ms {
                    o.candidate(
                        "cap/waiting_source_admitted_before_any_flow_idled",
                        format!("max_flows = {}: table full, yet s{} was served only {idle} ms after the last datagram of the flow that went idle (timeout >= {t_min_s} s)", a.cap, a.sid),
                        json!({"op": a.op, "admitted_after_ms": ms, "idle_flow": format!("s{}", a.victim)}),
                    );
                } else {
                    o.obs("waiting_source_admitted_after_a_flow_idled_out", 1);
                }
            }
            None => {
                if a.live_slots_end >= a.cap as i64 {
                    o.candidate(
                        "teardown/idle_flow_not_torn_down",
                        format!(
                            "max_flows = {}: the flow of s{} was idle for {} ms (timeouts <= {t_max_s} s) but its slot was not released: {} upstream slots still live, waiting source s{} never served in {} attempts",
                            a.cap, a.victim, a.waited_ms, a.live_slots_end, a.sid, a.knocks
                        ),
                        json!({"op": a.op, "observation": "waiting source not admitted, footprint still at the cap", "live_slots": a.live_slots_end, "waited_ms": a.waited_ms}),
                    );
                } else {
                    o.candidate(
                        "cap/waiting_source_not_admitted_after_slot_freed",
                        format!("max_flows = {}: only {} upstream slots live after s{} idled out, yet s{} was not served in {} attempts", a.cap, a.live_slots_end, a.victim, a.sid, a.knocks),
                        json!({"op": a.op, "live_slots": a.live_slots_end, "waited_ms": a.waited_ms}),
                    );
                }
            }
        }
    }
    for f in &h.footprints {
        *o.obs.entry("max:b.live_upstream_slots".into()).or_insert(0) = (*o.obs.get("max:b.live_upstream_slots").unwrap_or(&0)).max(f.live_slots.max(0) as u64);
        if f.live_slots > f.cap_max as i64 {
            o.violation(
                "cap/more_upstream_sockets_than_max_flows",
                format!("{} upstream slots live, max_flows never exceeded {}", f.live_slots, f.cap_max),
                json!({"op": f.op, "live_slots": f.live_slots, "largest_max_flows_so_far": f.cap_max}),
            );
        }
        if f.live_slots < 0 {
            o.violation(
                "teardown/footprint_below_baseline",
                format!("slab footprint {} below the baseline: a slot was released twice", f.live_slots),
                json!({"op": f.op, "live_slots": f.live_slots, "baseline": h.baseline}),
            );
        }
    }

    // ---- (6) reconfiguration, (7) worker health --------------------------------------------
    for e in &h.events {
        if e.what.starts_with("footprint after DeactivateListener") {
            if e.ok {
                o.obs("deactivations_with_footprint_back_to_baseline", 1);
            } else {
                o.violation("teardown/flows_survive_listener_deactivation", e.what.clone(), json!({"op": e.op}));
            }
        } else if e.what == "worker thread is gone" {
            if h.panics.iter().all(|p| !p.in_sozu()) {
                o.inconclusive.push("b: worker thread ended without a sozu panic".into());
            }
        } else if e.ok {
            o.obs("reconfigurations", 1);
            if e.what.contains("affinity") {
                o.obs("affinity_flips_with_live_flows", 1);
            }
            if e.what.contains("max_flows") {
                o.obs("cap_changes", 1);
            }
            if e.what.contains("Backend") {
                o.obs("backend_set_changes", 1);
            }
            if e.what.starts_with("forced reset") {
                o.obs("forced_resets_after_failed_expiry", 1);
            }
        } else {
            o.inconclusive.push(format!("b: command refused or unanswered: {}", e.what));
        }
    }
    for p in &h.panics {
        if p.in_sozu() {
            o.violation(&p.signature(), format!("the worker panicked: {} at {}", p.message, p.location), json!({"panic": p.message, "location": p.location}));
        } else {
            o.inconclusive.push(format!("b: worker thread panicked outside sozu: {} at {}", p.message, p.location));
        }
    }
    for op in &h.status_failures {
        o.violation("worker/status_not_answered", "the worker did not answer Status with OK within 5 s".into(), json!({"op": op}));
    }
    if let Some((ok, ended)) = h.soft_stop {
        o.obs("soft_stops", 1);
        if ok && ended {
            o.obs("soft_stops_completed", 1);
        } else {
            o.candidate(
                "worker/soft_stop_not_completed",
                format!("soft stop with live UDP flows: final answer OK = {ok}, worker ended = {ended} (within 4 s + 3 s)"),
                json!({"final_ok": ok, "worker_thread_ended": ended}),
            );
        }
    }

    // ---- drops by cause (never judged) -----------------------------------------------------
    let mut served_before: HashMap<(bool, u32), bool> = HashMap::new();
    for (si, s) in h.sent.iter().enumerate() {
        let key = (s.with_port, spec.key(s.sid, s.with_port));
        if s.len >= HDR {
            if delivered.contains_key(&si) {
                served_before.insert(key, true);
                continue;
            }
        } else {
            continue; // tiny / empty: counted by size class below
        }
        let in_window = h.windows.iter().any(|w| s.g >= w.g_begin && s.g < w.g_end && w.extras.contains(&s.sid));
        let in_admit = h.admits.iter().any(|a| a.op == s.op && a.sid == s.sid);
        let cause = if !s.ok {
            "send_failed"
        } else if !s.listener_up {
            "listener_down_or_stopping"
        } else if s.len as u32 > s.max_rx_lo {
            "oversize"
        } else if in_window || in_admit || s.cap_small {
            "over_cap"
        } else if limits {
            "flow_limits"
        } else if s.amb {
            "around_reconfiguration"
        } else if s.backends_removed {
            "no_backend"
        } else {
            "unexplained"
        };
        o.obs(&format!("client_datagrams_dropped:{cause}"), 1);
        if cause == "unexplained" && std::env::var("C19B_DEBUG").is_ok() {
            eprintln!("UNEXPLAINED drop: {} ops: {}", sent_json(h, s), spec.ops.iter().enumerate().map(|(i, o)| format!("{i}:{}", o.describe().chars().take(40).collect::<String>())).collect::<Vec<_>>().join(" | "));
        }
    }
    let tiny_s: u64 = tiny_sent.values().sum();
    let tiny_a: u64 = tiny_arr.values().sum();
    o.obs("tiny_datagrams_sent", tiny_s);
    o.obs("client_datagrams_dropped:tiny_or_empty", tiny_s.saturating_sub(tiny_a) + h.sent.iter().filter(|s| s.len == 0).count() as u64);
    for (ri, r) in h.replies_sent.iter().enumerate() {
        if rep_got.contains_key(&ri) {
            continue;
        }
        let req = sent_idx.get(&(r.sid, r.seq)).map(|i| &h.sent[*i]);
        let cause = if !r.ok {
            "send_failed"
        } else if req.is_some_and(|s| r.len as u32 > s.max_rx_lo) {
            "oversize"
        } else if limits {
            "flow_limits"
        } else if req.is_some_and(|s| s.amb || !s.listener_up) {
            "around_reconfiguration"
        } else {
            "unexplained"
        };
        o.obs(&format!("backend_datagrams_dropped:{cause}"), 1);
    }

    // bursts in which a new source's first datagram is directly followed by an established flow's
    let mut seen_key: HashMap<(u32, bool, u32), ()> = HashMap::new();
    let mut prev: Option<(&Sent, bool)> = None;
    for s in &h.sent {
        let k = (s.era, s.with_port, spec.key(s.sid, s.with_port));
        let is_new = seen_key.insert(k, ()).is_none();
        if let Some((p, p_new)) = prev {
            if p.op == s.op && p_new && !is_new && spec.key(p.sid, p.with_port) != spec.key(s.sid, s.with_port) {
                o.obs("new_source_directly_followed_by_established_flow", 1);
            }
        }
        prev = Some((s, is_new));
    }
    o.nontrivial = delivered.len() >= 10 && rep_got.len() >= 5 && flows_seen.len() >= 2;
    o
}
