//! C19 part (b): scenario of one cell (configuration + concrete operation list), generated from
//! (seed, case) alone.

use serde_json::{Value, json};

use crate::common::Rng;

#[derive(Clone, Debug)]
pub struct Shot {
    pub sid: u8,
    pub len: u16,
    pub nrep: u8,
    pub rlen: u16,
}

#[derive(Clone, Debug)]
pub enum Op {
    /// datagrams sent back-to-back, without any pause, from the named client sockets
    Burst(Vec<Shot>),
    /// wait until the peers have been quiet for a while
    Settle,
    Pause(u32),
    /// round trip on every candidate, then mark the start of a window in which only `extras`
    /// (sources without a flow) and the candidates send; `cap` = max_flows in force
    FullBegin { cands: Vec<u8>, extras: Vec<u8>, cap: u32 },
    /// round trip on every candidate of the open window, end of the window
    FullEnd,
    /// `victim` stops sending; the other sources keep their flows busy and `sid` keeps knocking:
    /// it must be served once the victim's flow has idled out
    ExpectAdmit { sid: u8, victim: u8, keep: Vec<u8> },
    /// no traffic until every flow must have idled out; footprint must return to the baseline
    ExpireAll,
    /// AddCluster with the other affinity key
    Flip,
    SetCap(u32),
    SetTimeouts(u32, u32),
    SetMaxRx(u32),
    AddBackend(u8),
    RemoveBackend(u8),
    Deactivate,
    Activate,
    SoftStop,
    Status,
}

impl Op {
    pub fn kind(&self) -> u8 {
        match self {
            Op::Burst(_) => 1,
            Op::Settle => 2,
            Op::Pause(_) => 3,
            Op::FullBegin { .. } => 4,
            Op::FullEnd => 5,
            Op::ExpectAdmit { .. } => 6,
            Op::ExpireAll => 7,
            Op::Flip => 8,
            Op::SetCap(_) => 9,
            Op::SetTimeouts(..) => 10,
            Op::SetMaxRx(_) => 11,
            Op::AddBackend(_) => 12,
            Op::RemoveBackend(_) => 13,
            Op::Deactivate => 14,
            Op::Activate => 15,
            Op::SoftStop => 16,
            Op::Status => 17,
        }
    }

    pub fn describe(&self) -> String {
        match self {
            Op::Burst(s) => format!(
                "Burst[{}]",
                s.iter().map(|x| format!("s{}:{}B{}", x.sid, x.len, if x.nrep > 0 { format!("/r{}x{}B", x.nrep, x.rlen) } else { String::new() })).collect::<Vec<_>>().join(" ")
            ),
            Op::Settle => "Settle".into(),
            Op::Pause(ms) => format!("Pause({ms}ms)"),
            Op::FullBegin { cands, extras, cap } => format!("FullBegin(cap={cap}, established candidates={cands:?}, sources without flow={extras:?})"),
            Op::FullEnd => "FullEnd".into(),
            Op::ExpectAdmit { sid, victim, keep } => format!("ExpectAdmit(s{sid} waits, s{victim} goes idle, kept busy={keep:?})"),
            Op::ExpireAll => "ExpireAll".into(),
            Op::Flip => "FlipAffinity".into(),
            Op::SetCap(n) => format!("UpdateUdpListener(max_flows={n})"),
            Op::SetTimeouts(f, b) => format!("UpdateUdpListener(front_timeout={f}, back_timeout={b})"),
            Op::SetMaxRx(n) => format!("UpdateUdpListener(max_rx_datagram_size={n})"),
            Op::AddBackend(b) => format!("AddBackend(b{b})"),
            Op::RemoveBackend(b) => format!("RemoveBackend(b{b})"),
            Op::Deactivate => "DeactivateListener".into(),
            Op::Activate => "ActivateListener".into(),
            Op::SoftStop => "SoftStop".into(),
            Op::Status => "Status".into(),
        }
    }
}

#[derive(Clone, Debug)]
pub struct Spec {
    /// 0 = cap cell, 1 = mixed traffic + reconfiguration cell
    pub kind: u8,
    pub with_port: bool,
    /// 0 ROUND_ROBIN, 1 HRW, 2 MAGLEV, 3 RANDOM
    pub lb: u8,
    pub n_backends: u8,
    pub spare_backends: u8,
    pub front_s: u32,
    pub back_s: u32,
    pub cap: u32,
    pub max_rx: u32,
    pub requests: u32,
    pub responses: u32,
    /// 0 off, 1 first datagram, 2 every datagram
    pub pp: u8,
    /// client sockets: (index of the source IP, port)
    pub socks: Vec<(u8, u16)>,
    pub n_ips: u8,
    pub ops: Vec<Op>,
}

impl Spec {
    pub fn to_json(&self) -> Value {
        json!({
            "kind": if self.kind == 0 { "cap" } else { "mix" },
            "affinity": if self.with_port { "SOURCE_IP_PORT" } else { "SOURCE_IP" },
            "load_balancing": (["ROUND_ROBIN", "HRW", "MAGLEV", "RANDOM"][self.lb as usize]),
            "backends": self.n_backends, "front_timeout_s": self.front_s, "back_timeout_s": self.back_s,
            "max_flows": self.cap, "max_rx_datagram_size": self.max_rx,
            "requests": self.requests, "responses": self.responses,
            "send_proxy_protocol": (["off", "first", "every"][self.pp as usize]),
            "client_sockets (ip index, port)": self.socks.iter().enumerate().map(|(i, (ip, p))| format!("s{i}=ip{ip}:{p}")).collect::<Vec<_>>(),
        })
    }

    pub fn all_timeouts(&self) -> (u32, u32) {
        let mut lo = self.front_s.min(self.back_s);
        let mut hi = self.front_s.max(self.back_s);
        for op in &self.ops {
            if let Op::SetTimeouts(f, b) = op {
                lo = lo.min(*f).min(*b);
                hi = hi.max(*f).max(*b);
            }
        }
        (lo, hi)
    }

    pub fn has_limits(&self) -> bool {
        self.requests > 0 || self.responses > 0
    }

    /// affinity key of a socket under a mode: sockets of one IP share a key unless the port counts
    pub fn key(&self, sid: u8, with_port: bool) -> u32 {
        let (ip, port) = self.socks[sid as usize];
        if with_port { ((ip as u32) << 16) | port as u32 } else { (ip as u32) << 16 }
    }

    pub fn ever_source_ip(&self) -> bool {
        !self.with_port || self.ops.iter().any(|o| matches!(o, Op::Flip))
    }
}

fn req_len(rng: &mut Rng, max_rx: u32) -> u16 {
    let m = max_rx as usize;
    let l = match rng.below(100) {
        0..=1 => 0,
        2..=3 => 1,
        4 => rng.range(2, 19) as usize,
        5..=7 => 1472,
        8..=11 => m - rng.usize_below(3),
        12..=13 => m + 1 + rng.usize_below(3),
        14..=15 => 20,
        16..=69 => rng.range(20, 120) as usize,
        _ => rng.boundary_size(&[64, 512, 1472, m], m.max(20)),
    };
    l.min(20_000) as u16
}

fn rep_len(rng: &mut Rng, max_rx: u32) -> u16 {
    let m = max_rx as usize;
    let l = match rng.below(40) {
        0 => m + 1,
        1..=2 => m - rng.usize_below(2),
        3 => 1472,
        4 => 20,
        5..=30 => rng.range(20, 200) as usize,
        _ => rng.boundary_size(&[512, 1472, m], m.max(20)),
    };
    l.clamp(20, 20_000) as u16
}

fn shot(rng: &mut Rng, sid: u8, max_rx: u32, plain: (u64, u64)) -> Shot {
    if rng.chance(plain.0, plain.1) {
        return Shot { sid, len: rng.range(20, 90) as u16, nrep: 1, rlen: rng.range(20, 90) as u16 };
    }
    let len = req_len(rng, max_rx);
    let nrep = if (len as usize) < super::wire::HDR { 0 } else { *rng.pick(&[0u8, 1, 1, 1, 1, 2, 3]) };
    Shot { sid, len, nrep, rlen: rep_len(rng, max_rx) }
}

/// keep a burst small enough for the listener's default receive buffer
fn trim(shots: &mut Vec<Shot>) {
    let mut bytes = 0usize;
    let mut keep = 0;
    for s in shots.iter() {
        bytes += s.len as usize + 800; // rough skb overhead
        if bytes > 150_000 {
            break;
        }
        keep += 1;
    }
    shots.truncate(keep.max(1));
}

pub fn generate(rng: &mut Rng) -> Spec {
    let kind = if rng.chance(2, 5) { 0 } else { 1 };
    let with_port = rng.bool();
    let n_backends = rng.range(2, 3) as u8;
    let (front_s, back_s) = *rng.pick(&[(1u32, 1u32), (1, 1), (1, 1), (1, 2), (2, 1)]);
    let max_rx = *rng.pick(&[1500u32, 1500, 1500, 600, 4000, 9000]);
    let mut spec = Spec {
        kind,
        with_port,
        lb: rng.below(4) as u8,
        n_backends,
        spare_backends: 1,
        front_s,
        back_s,
        cap: 0,
        max_rx,
        requests: 0,
        responses: 0,
        pp: if rng.chance(1, 6) { rng.range(1, 2) as u8 } else { 0 },
        socks: Vec::new(),
        n_ips: 0,
        ops: Vec::new(),
    };
    // client sockets. SOURCE_IP cells: many IPs, some with two ports; SOURCE_IP_PORT cells: many
    // ports on few IPs. Cells that flip get a mix.
    let flips = kind == 1 && rng.chance(1, 2);
    let (n_ips, per_ip): (u8, u8) = if !with_port || flips { (rng.range(8, 12) as u8, 2) } else { (rng.range(2, 3) as u8, rng.range(8, 12) as u8) };
    spec.n_ips = n_ips;
    for ip in 0..n_ips {
        let n = if !with_port || flips { if rng.chance(1, 2) { per_ip } else { 1 } } else { per_ip };
        for p in 0..n {
            if spec.socks.len() < 60 {
                spec.socks.push((ip, 20_000 + 37 * p as u16 + ip as u16));
            }
        }
    }
    if kind == 0 {
        gen_cap_cell(rng, &mut spec);
    } else {
        gen_mix_cell(rng, &mut spec, flips);
    }
    spec
}

/// one socket per distinct key (under both modes: distinct IPs when the IP may be the key)
fn distinct_key_sids(spec: &Spec, by_ip: bool) -> Vec<u8> {
    let mut seen = std::collections::HashSet::new();
    let mut out = Vec::new();
    for (i, (ip, port)) in spec.socks.iter().enumerate() {
        let k = if by_ip { (*ip as u32) << 16 } else { ((*ip as u32) << 16) | *port as u32 };
        if seen.insert(k) {
            out.push(i as u8);
        }
    }
    out
}

fn gen_cap_cell(rng: &mut Rng, spec: &mut Spec) {
    let mut pool = distinct_key_sids(spec, !spec.with_port);
    rng.shuffle(&mut pool);
    let n = rng.range(2, 5).min(pool.len() as u64 - 3) as usize;
    spec.cap = n as u32;
    let est: Vec<u8> = pool[..n].to_vec();
    let extras: Vec<u8> = pool[n..(n + rng.urange(2, 3)).min(pool.len())].to_vec();
    let max_rx = spec.max_rx;
    let full_rounds = |rng: &mut Rng, ops: &mut Vec<Op>, est: &[u8], extras: &[u8]| {
        for _ in 0..rng.range(2, 4) {
            let mut shots = Vec::new();
            for _ in 0..rng.range(6, 24) {
                // a source without a flow immediately followed by established flows
                let x = *rng.pick(extras);
                shots.push(shot(rng, x, max_rx, (1, 2)));
                for _ in 0..rng.range(1, 3) {
                    let e = *rng.pick(est);
                    shots.push(shot(rng, e, max_rx, (1, 3)));
                }
            }
            // every established flow is refreshed in every round
            for e in est {
                shots.push(shot(rng, *e, max_rx, (1, 1)));
            }
            trim(&mut shots);
            ops.push(Op::Burst(shots));
            ops.push(Op::Pause(rng.range(60, 220) as u32));
        }
    };
    let mut ops = Vec::new();
    ops.push(Op::FullBegin { cands: est.clone(), extras: extras.clone(), cap: n as u32 });
    full_rounds(rng, &mut ops, &est, &extras);
    ops.push(Op::FullEnd);
    // a flow idles out, a waiting source gets in
    let victim = est[rng.usize_below(est.len())];
    let keep: Vec<u8> = est.iter().copied().filter(|s| *s != victim).collect();
    let waiting = extras[0];
    let mut live = keep.clone();
    if rng.chance(3, 4) {
        ops.push(Op::ExpectAdmit { sid: waiting, victim, keep: keep.clone() });
        live.push(waiting);
    } else {
        live.push(victim);
    }
    // cap change below the live count: live flows continue, nobody new gets in
    if rng.chance(2, 3) && n >= 2 {
        let smaller = rng.range(1, n as u64 - 1) as u32;
        ops.push(Op::SetCap(smaller));
        let others: Vec<u8> = extras.iter().copied().filter(|s| !live.contains(s)).collect();
        if !others.is_empty() {
            ops.push(Op::FullBegin { cands: live.clone(), extras: others.clone(), cap: smaller });
            full_rounds(rng, &mut ops, &live, &others);
            ops.push(Op::FullEnd);
        }
    }
    ops.push(Op::Settle);
    ops.push(Op::ExpireAll);
    // after expiry everybody is a new source again
    let mut shots: Vec<Shot> = est.iter().chain(extras.iter()).map(|s| shot(rng, *s, max_rx, (1, 1))).collect();
    rng.shuffle(&mut shots);
    shots.truncate(spec.cap.max(1) as usize);
    ops.push(Op::Burst(shots));
    ops.push(Op::Settle);
    ops.push(Op::Status);
    spec.ops = ops;
}

fn gen_mix_cell(rng: &mut Rng, spec: &mut Spec, flips: bool) {
    spec.cap = *rng.pick(&[0u32, 0, 64, 200]);
    if rng.chance(1, 4) {
        if rng.bool() {
            spec.requests = rng.range(1, 4) as u32;
        } else {
            spec.responses = rng.range(1, 3) as u32;
        }
    }
    let max_rx0 = spec.max_rx;
    let mut max_rx = max_rx0;
    let n_socks = spec.socks.len();
    let mut ops = Vec::new();
    let epochs = rng.range(2, 3);
    let mut removed: Vec<u8> = Vec::new();
    let mut added_spare = false;
    let mut cap_small = false;
    for epoch in 0..epochs {
        // every epoch starts with an empty flow table: all sources are new
        let mut fresh: Vec<u8> = (0..n_socks as u8).collect();
        rng.shuffle(&mut fresh);
        let mut est: Vec<u8> = Vec::new();
        let bursts = rng.range(3, 6);
        for b in 0..bursts {
            let mut shots = Vec::new();
            let n_new = if est.is_empty() { rng.range(2, 4) } else { rng.range(1, 4) };
            for _ in 0..n_new {
                let Some(x) = fresh.pop() else { break };
                shots.push(shot(rng, x, max_rx, (1, 2)));
                // the important case: a new source's first datagram immediately followed by
                // datagrams of other, already established flows
                for _ in 0..rng.range(1, 4) {
                    if est.is_empty() {
                        break;
                    }
                    let e = *rng.pick(&est);
                    shots.push(shot(rng, e, max_rx, (1, 3)));
                }
                if rng.chance(1, 3) {
                    shots.push(shot(rng, x, max_rx, (0, 1)));
                }
                est.push(x);
            }
            for _ in 0..rng.range(0, 12) {
                let e = *rng.pick(&est);
                shots.push(shot(rng, e, max_rx, (1, 4)));
            }
            trim(&mut shots);
            ops.push(Op::Burst(shots));
            match rng.below(4) {
                0 => ops.push(Op::Settle),
                1 => ops.push(Op::Pause(rng.range(1, 60) as u32)),
                _ => {}
            }
            // runtime reconfiguration while flows are live
            if b + 1 < bursts && rng.chance(2, 5) {
                if rng.chance(1, 2) {
                    ops.push(Op::Settle);
                }
                match rng.below(12) {
                    0..=2 if flips => {
                        ops.push(Op::Flip);
                        // every source gets a new flow under the new key
                        fresh = (0..n_socks as u8).collect();
                        rng.shuffle(&mut fresh);
                        est.clear();
                    }
                    3 => {
                        let (f, bk) = *rng.pick(&[(1u32, 1u32), (2, 2), (1, 2), (2, 1)]);
                        ops.push(Op::SetTimeouts(f, bk));
                    }
                    4 => {
                        max_rx = *rng.pick(&[600u32, 1500, 4000, 9000]);
                        ops.push(Op::SetMaxRx(max_rx));
                    }
                    5 | 6 if !added_spare => {
                        added_spare = true;
                        ops.push(Op::AddBackend(spec.n_backends));
                    }
                    7 | 8 if removed.len() + 1 < spec.n_backends as usize => {
                        let cand: Vec<u8> = (0..spec.n_backends).filter(|x| !removed.contains(x)).collect();
                        let r = *rng.pick(&cand);
                        removed.push(r);
                        ops.push(Op::RemoveBackend(r));
                    }
                    9 | 10 => {
                        cap_small = !cap_small;
                        ops.push(Op::SetCap(if cap_small { rng.range(1, 3) as u32 } else { 200 }));
                    }
                    _ => ops.push(Op::Status),
                }
            }
        }
        ops.push(Op::Settle);
        if cap_small {
            cap_small = false;
            ops.push(Op::SetCap(200));
        }
        if epoch + 1 < epochs {
            if rng.chance(1, 4) {
                ops.push(Op::Deactivate);
                ops.push(Op::Pause(rng.range(5, 50) as u32));
                ops.push(Op::Activate);
            } else {
                ops.push(Op::ExpireAll);
            }
        }
    }
    match rng.below(4) {
        0 => {
            ops.push(Op::SoftStop);
            let s: Vec<Shot> = (0..3).map(|_| { let x = rng.below(n_socks as u64) as u8; shot(rng, x, max_rx, (1, 1)) }).collect();
            ops.push(Op::Burst(s));
            ops.push(Op::Settle);
        }
        1 => {
            ops.push(Op::Deactivate);
            let s: Vec<Shot> = (0..3).map(|_| { let x = rng.below(n_socks as u64) as u8; shot(rng, x, max_rx, (1, 1)) }).collect();
            ops.push(Op::Burst(s));
            ops.push(Op::Settle);
            ops.push(Op::Status);
        }
        2 => {
            ops.push(Op::ExpireAll);
            ops.push(Op::Status);
        }
        _ => ops.push(Op::Status),
    }
    spec.ops = ops;
}
