//! C15 — no HTTP/2 input can crash, wedge or over-commit a worker.
//!
//! Part (a): the frame-decoder lab (`run_parser`). Direct calls of the public
//! `sozu_lib::protocol::mux::parser::{preface, frame_header, frame_body}` on arbitrary byte strings.
//!
//! Oracle (from the statement: "the frame decoder consumes exactly header plus declared payload or
//! reports an error, for every input"), against a reference decode written from RFC 9113 §4.1/§6
//! and RFC 9218 §7.1 that only looks at the raw bytes:
//!
//! * `frame_header` is `Err` or `Ok((rest, h))` with `rest` = the input minus exactly 9 bytes and
//!   `h` = (24-bit length, type, flags, stream id with the reserved bit cleared) of those 9 bytes;
//!   it must be `Err` when fewer than 9 bytes are present or the length exceeds the maximum given;
//! * `frame_body` is `Err` or consumes exactly `payload_len` bytes of what follows, and the decoded
//!   frame equals the reference decode (PING, RST_STREAM, WINDOW_UPDATE, SETTINGS, GOAWAY, PRIORITY,
//!   PRIORITY_UPDATE, DATA/HEADERS padding and priority arithmetic);
//! * it must be `Err` when no decode exists (payload shorter than declared, fixed-size frame of the
//!   wrong size, padding larger than what is left), and `Ok` on a well-formed frame;
//! * never a panic (a panic located under /repo is the violation `panic@file:line`).
//!
//! Where RFC 9113 lets the decision live in the connection layer (stream-id zero/non-zero rules,
//! zero WINDOW_UPDATE increment, PUSH_PROMISE) or where sozu documents a cap of its own (64
//! SETTINGS entries, 1024-byte PRIORITY_UPDATE value) both answers are accepted and counted as
//! exempt; the consumption/content checks still apply when the decoder says `Ok`.
//!
//! Part (b): the live worker lab (`run_live`, module `live` at the end of this file): hostile HTTP/2
//! clients and a hostile h2c backend against a real worker; see the comment above `run_live`.

use serde_json::{Value, json};
use sozu_lib::protocol::mux::parser::{self, Frame, FrameHeader, FrameType, PriorityPart};

use crate::common::{Ctx, Report, Rng, guard, par_cases_named};

// ---------------------------------------------------------------------------------------------
// reference decode (RFC 9113 §4.1, §6; RFC 9218 §7.1) — deliberately not sharing code with sozu
// ---------------------------------------------------------------------------------------------

const PREFACE: &[u8] = b"PRI * HTTP/2.0\r\n\r\nSM\r\n\r\n";

const T_DATA: u8 = 0;
const T_HEADERS: u8 = 1;
const T_PRIORITY: u8 = 2;
const T_RST: u8 = 3;
const T_SETTINGS: u8 = 4;
const T_PUSH: u8 = 5;
const T_PING: u8 = 6;
const T_GOAWAY: u8 = 7;
const T_WINUP: u8 = 8;
const T_CONT: u8 = 9;
const T_PRIO_UPDATE: u8 = 0x10;

const TYPE_NAMES: [&str; 12] = [
    "DATA", "HEADERS", "PRIORITY", "RST_STREAM", "SETTINGS", "PUSH_PROMISE", "PING", "GOAWAY",
    "WINDOW_UPDATE", "CONTINUATION", "PRIORITY_UPDATE", "UNKNOWN",
];

fn type_index(t: u8) -> usize {
    match t {
        0..=9 => t as usize,
        T_PRIO_UPDATE => 10,
        _ => 11,
    }
}

/// sozu-documented caps (DESIGN appendix A): answers beyond them are exempt, not judged
const SOZU_MAX_SETTINGS_ENTRIES: usize = 64;
const SOZU_MAX_PRIORITY_UPDATE_VALUE: usize = 1024;

#[derive(Clone, Copy, Debug)]
struct RefHeader {
    len: u32,
    ty: u8,
    flags: u8,
    sid: u32,
}

fn ref_header(input: &[u8]) -> Option<RefHeader> {
    if input.len() < 9 {
        return None;
    }
    Some(RefHeader {
        len: ((input[0] as u32) << 16) | ((input[1] as u32) << 8) | input[2] as u32,
        ty: input[3],
        flags: input[4],
        sid: (((input[5] as u32) << 24) | ((input[6] as u32) << 16) | ((input[7] as u32) << 8) | input[8] as u32)
            & 0x7fff_ffff,
    })
}

/// does the frame type satisfy RFC 9113's stream-id rule (zero / non-zero)?
fn sid_rule_ok(ty: u8, sid: u32) -> bool {
    match ty {
        T_DATA | T_HEADERS | T_PRIORITY | T_RST | T_PUSH | T_CONT => sid != 0,
        T_SETTINGS | T_PING | T_GOAWAY | T_PRIO_UPDATE => sid == 0,
        _ => true,
    }
}

#[derive(Debug, PartialEq)]
enum RefContent {
    Data { start: usize, len: usize, end_stream: bool },
    Headers { prio: Option<(bool, u32, u8)>, start: usize, len: usize, end_stream: bool, end_headers: bool },
    Priority { exclusive: bool, dep: u32, weight: u8 },
    Rst { code: u32 },
    Settings { pairs: Vec<(u16, u32)>, ack: bool },
    Ping { payload: [u8; 8], ack: bool },
    GoAway { last: u32, code: u32, debug_start: usize, debug_len: usize },
    WindowUpdate { inc: u32 },
    Continuation,
    PriorityUpdate { sid: u32, value: Vec<u8> },
    Unknown(u8),
    /// PUSH_PROMISE: no content comparison
    Opaque,
}

#[derive(Debug)]
enum Expect {
    /// no decode exists for these bytes: the decoder must report an error
    Reject(&'static str),
    /// both answers permitted; if Ok the content (when given) and the consumption are checked
    Either(&'static str, Option<RefContent>),
    /// well-formed: must be Ok with this content
    Accept(RefContent),
}

fn be32(b: &[u8]) -> u32 {
    ((b[0] as u32) << 24) | ((b[1] as u32) << 16) | ((b[2] as u32) << 8) | b[3] as u32
}

/// reference decode of the payload that follows a header `h`
fn ref_body(h: &RefHeader, body: &[u8]) -> Expect {
    let len = h.len as usize;
    if body.len() < len {
        return Expect::Reject("payload_truncated");
    }
    let p = &body[..len];
    match h.ty {
        T_DATA | T_HEADERS => {
            let padded = h.flags & 0x8 != 0;
            let prio = h.ty == T_HEADERS && h.flags & 0x20 != 0;
            let mut off = 0usize;
            let mut pad = 0usize;
            if padded {
                if len < 1 {
                    return Expect::Reject("padded_without_pad_length_byte");
                }
                pad = p[0] as usize;
                off = 1;
            }
            let mut pr = None;
            if prio {
                if len < off + 5 {
                    return Expect::Reject("priority_fields_truncated");
                }
                let d = be32(&p[off..off + 4]);
                pr = Some((d & 0x8000_0000 != 0, d & 0x7fff_ffff, p[off + 4]));
                off += 5;
            }
            let rem = len - off;
            if pad > rem {
                return Expect::Reject("pad_exceeds_payload");
            }
            if h.ty == T_DATA {
                Expect::Accept(RefContent::Data { start: off, len: rem - pad, end_stream: h.flags & 1 != 0 })
            } else {
                Expect::Accept(RefContent::Headers {
                    prio: pr,
                    start: off,
                    len: rem - pad,
                    end_stream: h.flags & 1 != 0,
                    end_headers: h.flags & 4 != 0,
                })
            }
        }
        T_PRIORITY => {
            if len != 5 {
                return Expect::Reject("fixed_size_mismatch");
            }
            let d = be32(&p[..4]);
            Expect::Accept(RefContent::Priority { exclusive: d & 0x8000_0000 != 0, dep: d & 0x7fff_ffff, weight: p[4] })
        }
        T_RST => {
            if len != 4 {
                return Expect::Reject("fixed_size_mismatch");
            }
            Expect::Accept(RefContent::Rst { code: be32(p) })
        }
        T_SETTINGS => {
            let ack = h.flags & 1 != 0;
            if ack && len != 0 {
                return Expect::Reject("settings_ack_with_payload");
            }
            if len % 6 != 0 {
                return Expect::Reject("settings_not_multiple_of_6");
            }
            let pairs: Vec<(u16, u32)> = p
                .chunks(6)
                .map(|c| ((((c[0] as u16) << 8) | c[1] as u16), be32(&c[2..6])))
                .collect();
            if pairs.len() > SOZU_MAX_SETTINGS_ENTRIES {
                return Expect::Either("settings_above_sozu_cap", Some(RefContent::Settings { pairs, ack }));
            }
            Expect::Accept(RefContent::Settings { pairs, ack })
        }
        T_PUSH => Expect::Either("push_promise", Some(RefContent::Opaque)),
        T_PING => {
            if len != 8 {
                return Expect::Reject("fixed_size_mismatch");
            }
            let mut payload = [0u8; 8];
            payload.copy_from_slice(p);
            Expect::Accept(RefContent::Ping { payload, ack: h.flags & 1 != 0 })
        }
        T_GOAWAY => {
            if len < 8 {
                return Expect::Reject("goaway_too_short");
            }
            Expect::Accept(RefContent::GoAway {
                last: be32(&p[..4]) & 0x7fff_ffff,
                code: be32(&p[4..8]),
                debug_start: 8,
                debug_len: len - 8,
            })
        }
        T_WINUP => {
            if len != 4 {
                return Expect::Reject("fixed_size_mismatch");
            }
            let inc = be32(p) & 0x7fff_ffff;
            if inc == 0 {
                // §6.9: an error, but whether stream or connection error depends on state
                return Expect::Either("window_update_zero_increment", Some(RefContent::WindowUpdate { inc }));
            }
            Expect::Accept(RefContent::WindowUpdate { inc })
        }
        T_CONT => Expect::Accept(RefContent::Continuation),
        T_PRIO_UPDATE => {
            if len < 4 {
                return Expect::Reject("priority_update_too_short");
            }
            let c = RefContent::PriorityUpdate { sid: be32(&p[..4]) & 0x7fff_ffff, value: p[4..].to_vec() };
            if len - 4 > SOZU_MAX_PRIORITY_UPDATE_VALUE {
                return Expect::Either("priority_update_above_sozu_cap", Some(c));
            }
            Expect::Accept(c)
        }
        other => Expect::Accept(RefContent::Unknown(other)),
    }
}

// ---------------------------------------------------------------------------------------------
// translating sozu's answer into the reference vocabulary (observation only)
// ---------------------------------------------------------------------------------------------

fn sozu_type_byte(t: &FrameType) -> u8 {
    match t {
        FrameType::Data => 0,
        FrameType::Headers => 1,
        FrameType::Priority => 2,
        FrameType::RstStream => 3,
        FrameType::Settings => 4,
        FrameType::PushPromise => 5,
        FrameType::Ping => 6,
        FrameType::GoAway => 7,
        FrameType::WindowUpdate => 8,
        FrameType::Continuation => 9,
        FrameType::PriorityUpdate => 0x10,
        FrameType::Unknown(b) => *b,
    }
}

fn prio_tuple(p: &PriorityPart) -> Option<(bool, u32, u8)> {
    match p {
        PriorityPart::Rfc7540 { stream_dependency, weight } => {
            Some((stream_dependency.exclusive, stream_dependency.stream_id, *weight))
        }
        PriorityPart::Rfc9218 { .. } => None,
    }
}

/// (observed content, stream id carried by the frame if it has one)
fn observe(frame: &Frame) -> (RefContent, Option<u32>) {
    match frame {
        Frame::Data(d) => (
            RefContent::Data { start: d.payload.start as usize, len: d.payload.len as usize, end_stream: d.end_stream },
            Some(d.stream_id),
        ),
        Frame::Headers(h) => (
            RefContent::Headers {
                prio: h.priority.as_ref().map(|p| prio_tuple(p).unwrap_or((false, u32::MAX, 0))),
                start: h.header_block_fragment.start as usize,
                len: h.header_block_fragment.len as usize,
                end_stream: h.end_stream,
                end_headers: h.end_headers,
            },
            Some(h.stream_id),
        ),
        Frame::Priority(p) => {
            let (exclusive, dep, weight) = prio_tuple(&p.inner).unwrap_or((false, u32::MAX, 0));
            (RefContent::Priority { exclusive, dep, weight }, Some(p.stream_id))
        }
        Frame::RstStream(r) => (RefContent::Rst { code: r.error_code }, Some(r.stream_id)),
        Frame::Settings(s) => (
            RefContent::Settings { pairs: s.settings.iter().map(|x| (x.identifier, x.value)).collect(), ack: s.ack },
            None,
        ),
        Frame::PushPromise(_) => (RefContent::Opaque, None),
        Frame::Ping(p) => (RefContent::Ping { payload: p.payload, ack: p.ack }, None),
        Frame::GoAway(g) => (
            RefContent::GoAway {
                last: g.last_stream_id,
                code: g.error_code,
                debug_start: g.additional_debug_data.start as usize,
                debug_len: g.additional_debug_data.len as usize,
            },
            None,
        ),
        Frame::WindowUpdate(w) => (RefContent::WindowUpdate { inc: w.increment }, Some(w.stream_id)),
        Frame::Continuation(_) => (RefContent::Continuation, None),
        Frame::PriorityUpdate(p) => (
            RefContent::PriorityUpdate { sid: p.prioritized_stream_id, value: p.priority_field_value.clone() },
            None,
        ),
        Frame::Unknown(b) => (RefContent::Unknown(*b), None),
    }
}

// ---------------------------------------------------------------------------------------------
// counters (flushed into the Report once per batch: 2 M inputs must not pay string maps)
// ---------------------------------------------------------------------------------------------

#[derive(Default)]
struct Tally {
    inputs: u64,
    preface_ok: u64,
    preface_err: u64,
    header_ok: u64,
    header_err_short: u64,
    header_err_oversize: u64,
    header_exempt_sid_rejected: u64,
    header_exempt_sid_accepted: u64,
    body_ok: [u64; 12],
    body_err: [u64; 12],
    reject_truncated: u64,
    reject_fixed: u64,
    reject_pad: u64,
    reject_other: u64,
    exempt_accepted: u64,
    exempt_rejected: u64,
    padded_ok: u64,
    prio_headers_ok: u64,
    trailing_ok: u64,
    stream_walks: u64,
    stream_frames: u64,
    max_payload_ok: u64,
}

impl Tally {
    fn flush(&self, r: &mut Report) {
        r.obs("inputs", self.inputs);
        r.obs("preface_ok", self.preface_ok);
        r.obs("preface_err", self.preface_err);
        r.obs("header_ok", self.header_ok);
        r.obs("header_err_short_input", self.header_err_short);
        r.obs("header_err_length_above_max", self.header_err_oversize);
        r.obs("exempt:stream_id_rule_rejected_by_decoder", self.header_exempt_sid_rejected);
        r.obs("exempt:stream_id_rule_left_to_connection_layer", self.header_exempt_sid_accepted);
        for i in 0..12 {
            r.obs(&format!("body_ok/{}", TYPE_NAMES[i]), self.body_ok[i]);
            r.obs(&format!("body_err/{}", TYPE_NAMES[i]), self.body_err[i]);
        }
        r.obs("reject/payload_truncated", self.reject_truncated);
        r.obs("reject/fixed_size_mismatch", self.reject_fixed);
        r.obs("reject/pad_exceeds_payload", self.reject_pad);
        r.obs("reject/other_malformed", self.reject_other);
        r.obs("exempt:either_accepted", self.exempt_accepted);
        r.obs("exempt:either_rejected", self.exempt_rejected);
        r.obs("padded_frames_decoded", self.padded_ok);
        r.obs("headers_with_priority_decoded", self.prio_headers_ok);
        r.obs("ok_with_trailing_bytes_left_untouched", self.trailing_ok);
        r.obs("frame_stream_walks", self.stream_walks);
        r.obs("frame_stream_frames", self.stream_frames);
        r.obs_max("payload_len_decoded", self.max_payload_ok);
    }
}

// ---------------------------------------------------------------------------------------------
// the oracle
// ---------------------------------------------------------------------------------------------

fn hex_capped(b: &[u8]) -> String {
    if b.len() <= 600 {
        hex::encode(b)
    } else {
        format!("{}..(+{} bytes)", hex::encode(&b[..600]), b.len() - 600)
    }
}

struct Case<'a> {
    ctx: &'a Ctx,
    seed: u64,
    batch: u64,
    class: &'static str,
}

impl Case<'_> {
    fn witness(&self, k: u64, input: &[u8], max: u32, expected: String, observed: String) -> Value {
        json!({
            "case": self.batch, "seed": self.seed, "k": k, "class": self.class,
            "max_frame_size": max, "input_len": input.len(), "input_hex": hex_capped(input),
            "expected": expected, "observed": observed,
            "reproduce": "parser::frame_header(&input, max_frame_size) then parser::frame_body(rest, &header)",
        })
    }
}

/// what the decoder did with one input
#[derive(Clone, Copy, PartialEq, Eq, Debug)]
enum Outcome {
    HeaderErr,
    BodyErr,
    /// accepted; total bytes consumed
    Frame(usize),
    /// an oracle fired (already reported)
    Flagged,
}

fn is_suffix_at(whole: &[u8], rest: &[u8], at: usize) -> bool {
    at <= whole.len() && rest.len() == whole.len() - at && std::ptr::eq(rest.as_ptr(), whole[at..].as_ptr())
}

/// decode `input` with sozu and with the reference; report disagreements
fn check_one(c: &Case, k: u64, input: &[u8], max: u32, t: &mut Tally, r: &mut Report) -> Outcome {
    t.inputs += 1;

    // ---- preface ----
    match parser::preface(input) {
        Ok((rest, p)) => {
            t.preface_ok += 1;
            if !input.starts_with(PREFACE) || p != PREFACE || !is_suffix_at(input, rest, 24) {
                r.violation(
                    "preface/accepted_or_consumed_wrong",
                    "preface() returned Ok on bytes that are not the 24-byte client preface, or did not consume exactly 24 bytes",
                    c.witness(k, input, max, "Ok only for the exact preface, consuming 24".into(), format!("rest_len={}", rest.len())),
                );
                return Outcome::Flagged;
            }
        }
        Err(_) => {
            t.preface_err += 1;
            if input.starts_with(PREFACE) {
                r.violation(
                    "preface/rejected_valid",
                    "preface() rejected an input starting with the client preface",
                    c.witness(k, input, max, "Ok".into(), "Err".into()),
                );
                return Outcome::Flagged;
            }
        }
    }

    // ---- header ----
    let rh = ref_header(input);
    let res = parser::frame_header(input, max);
    let (rest, h): (&[u8], FrameHeader) = match res {
        Err(e) => {
            match rh {
                None => t.header_err_short += 1,
                Some(h) if h.len > max => t.header_err_oversize += 1,
                Some(h) if !sid_rule_ok(h.ty, h.sid) => t.header_exempt_sid_rejected += 1,
                Some(h) => {
                    r.violation(
                        "header/rejected_wellformed",
                        "frame_header rejected nine bytes whose length is within the maximum and whose stream id satisfies the frame type's rule",
                        c.witness(k, input, max, format!("Ok({h:?})"), format!("{e:?}")),
                    );
                    return Outcome::Flagged;
                }
            }
            return Outcome::HeaderErr;
        }
        Ok(v) => v,
    };
    let Some(rh) = rh else {
        r.violation(
            "header/accepted_short_input",
            "frame_header returned Ok on fewer than 9 bytes",
            c.witness(k, input, max, "Err".into(), format!("Ok({h:?})")),
        );
        return Outcome::Flagged;
    };
    if !is_suffix_at(input, rest, 9) {
        r.violation(
            "header/consumed_not_9",
            "frame_header did not consume exactly the 9 header bytes",
            c.witness(k, input, max, "rest = input[9..]".into(), format!("rest_len={} input_len={}", rest.len(), input.len())),
        );
        return Outcome::Flagged;
    }
    for (field, got, want) in [
        ("payload_len", h.payload_len as u64, rh.len as u64),
        ("frame_type", sozu_type_byte(&h.frame_type) as u64, rh.ty as u64),
        ("flags", h.flags as u64, rh.flags as u64),
        ("stream_id", h.stream_id as u64, rh.sid as u64),
    ] {
        if got != want {
            r.violation(
                &format!("header/field_mismatch/{field}"),
                "frame_header decoded a field differently from the wire bytes",
                c.witness(k, input, max, format!("{field}={want}"), format!("{field}={got}")),
            );
            return Outcome::Flagged;
        }
    }
    if rh.len > max {
        r.violation(
            "header/accepted_length_above_max",
            "frame_header accepted a frame longer than the maximum frame size it was given",
            c.witness(k, input, max, "Err(FRAME_SIZE_ERROR)".into(), format!("Ok({h:?})")),
        );
        return Outcome::Flagged;
    }
    t.header_ok += 1;
    if !sid_rule_ok(rh.ty, rh.sid) {
        t.header_exempt_sid_accepted += 1;
    }

    // ---- body ----
    let ti = type_index(rh.ty);
    let tname = TYPE_NAMES[ti];
    let expect = ref_body(&rh, rest);
    let plen = rh.len as usize;
    match parser::frame_body(rest, &h) {
        Err(e) => {
            t.body_err[ti] += 1;
            match expect {
                Expect::Reject(why) => match why {
                    "payload_truncated" => t.reject_truncated += 1,
                    "fixed_size_mismatch" => t.reject_fixed += 1,
                    "pad_exceeds_payload" => t.reject_pad += 1,
                    _ => t.reject_other += 1,
                },
                Expect::Either(..) => t.exempt_rejected += 1,
                Expect::Accept(content) => {
                    r.violation(
                        &format!("body/rejected_wellformed/{tname}"),
                        "frame_body reported an error on a well-formed, completely present frame",
                        c.witness(k, input, max, format!("Ok({content:?})"), format!("{e:?}")),
                    );
                    return Outcome::Flagged;
                }
            }
            Outcome::BodyErr
        }
        Ok((rest2, frame)) => {
            if let Expect::Reject(why) = expect {
                r.violation(
                    &format!("body/accepted_malformed/{tname}/{why}"),
                    "frame_body returned Ok although no decode of these bytes exists (RFC 9113 makes it a size/protocol error)",
                    c.witness(k, input, max, format!("Err ({why})"), format!("Ok({frame:?}) rest_len={}", rest2.len())),
                );
                return Outcome::Flagged;
            }
            if !is_suffix_at(rest, rest2, plen) {
                r.violation(
                    &format!("body/consumed_not_payload_len/{tname}"),
                    "frame_body returned Ok without consuming exactly the declared payload length",
                    c.witness(
                        k, input, max,
                        format!("consumed {plen} of {}", rest.len()),
                        format!("consumed {} (rest_len={})", rest.len() as i64 - rest2.len() as i64, rest2.len()),
                    ),
                );
                return Outcome::Flagged;
            }
            let want = match expect {
                Expect::Accept(c) => Some(c),
                Expect::Either(_, c) => {
                    t.exempt_accepted += 1;
                    c
                }
                Expect::Reject(_) => unreachable!(),
            };
            let (got, got_sid) = observe(&frame);
            if let Some(want) = want {
                if want != got {
                    r.violation(
                        &format!("body/content_mismatch/{tname}"),
                        "the decoded frame differs from the wire bytes",
                        c.witness(k, input, max, format!("{want:?}"), format!("{got:?}")),
                    );
                    return Outcome::Flagged;
                }
                match &want {
                    RefContent::Data { start, .. } | RefContent::Headers { start, .. } if rh.flags & 0x8 != 0 && *start > 0 => {
                        t.padded_ok += 1
                    }
                    _ => {}
                }
                if let RefContent::Headers { prio: Some(_), .. } = &want {
                    t.prio_headers_ok += 1;
                }
            }
            if let Some(s) = got_sid {
                if s != rh.sid {
                    r.violation(
                        &format!("body/content_mismatch/{tname}/stream_id"),
                        "the decoded frame carries a stream id different from the header's",
                        c.witness(k, input, max, format!("stream_id={}", rh.sid), format!("stream_id={s}")),
                    );
                    return Outcome::Flagged;
                }
            }
            t.body_ok[ti] += 1;
            if !rest2.is_empty() {
                t.trailing_ok += 1;
            }
            t.max_payload_ok = t.max_payload_ok.max(plen as u64);
            Outcome::Frame(9 + plen)
        }
    }
}

/// run `check_one` behind a panic guard; a panic under /repo is the violation
fn checked(c: &Case, k: u64, input: &[u8], max: u32, t: &mut Tally, r: &mut Report) -> Outcome {
    match guard(|| check_one(c, k, input, max, t, r)) {
        Ok(o) => {
            record_shape(input, max, o, r);
            o
        }
        Err(p) => {
            if p.in_sozu() {
                r.violation(
                    &p.signature(),
                    &format!("the frame decoder panicked: {} at {}", p.message, p.location),
                    c.witness(k, input, max, "Err or Ok, never a panic".into(), format!("panic: {} at {}", p.message, p.location)),
                );
            } else {
                r.broken(&format!("harness panic in parser lab batch {} input {k}: {} at {}", c.batch, p.message, p.location));
            }
            r.case(0, false);
            Outcome::Flagged
        }
    }
}

fn len_bucket(len: u32, max: u32) -> u8 {
    match len {
        0..=9 => len as u8,
        10..=18 => 10,
        19..=255 => 11,
        256..=1028 => 12,
        1029..=16384 => 13,
        _ if len <= max => 14,
        _ => 15,
    }
}

fn record_shape(input: &[u8], max: u32, o: Outcome, r: &mut Report) {
    match ref_header(input) {
        None => r.case_bytes(&[0xff, input.len() as u8], false),
        Some(h) => {
            let tail = (input.len() - 9).cmp(&(h.len as usize)) as i8 as u8;
            let sidc = match h.sid {
                0 => 0u8,
                0x7fff_ffff => 3,
                s if s % 2 == 1 => 1,
                _ => 2,
            };
            let oc = match o {
                Outcome::HeaderErr => 0u8,
                Outcome::BodyErr => 1,
                Outcome::Frame(_) => 2,
                Outcome::Flagged => 3,
            };
            r.case_bytes(&[h.ty.min(0x12), h.flags, len_bucket(h.len, max), sidc, input[5] >> 7, tail, oc], true);
        }
    }
}

// ---------------------------------------------------------------------------------------------
// generators
// ---------------------------------------------------------------------------------------------

const MAX_SIZES: [u32; 6] = [16_384, 16_385, 32_768, 65_535, 1 << 20, (1 << 24) - 1];
const ALL_TYPES: [u8; 20] = [0, 1, 2, 3, 4, 5, 6, 7, 8, 9, 0x0a, 0x0b, 0x0c, 0x0f, 0x10, 0x11, 0x12, 0x7f, 0x80, 0xff];
const GRID_LENS: [u32; 17] = [0, 1, 3, 4, 5, 6, 7, 8, 9, 11, 12, 13, 14, 18, 36, 16_385, 0xff_ffff];
const GRID_SIDS: [u32; 7] = [0, 1, 2, 0x7fff_ffff, 0x8000_0000, 0x8000_0001, 0xffff_ffff];
const GRID_TAILS: u64 = 3; // exact, +9 trailing bytes, one byte short
const GRID_POINTS: u64 = (ALL_TYPES.len() * 256 * GRID_LENS.len() * GRID_SIDS.len()) as u64 * GRID_TAILS;
const GRID_BATCH: u64 = 4096;
const INTERESTING: [u8; 10] = [0, 1, 4, 5, 6, 8, 9, 0x7f, 0x80, 0xff];

fn put_header(out: &mut Vec<u8>, len: u32, ty: u8, flags: u8, sid_raw: u32) {
    out.extend_from_slice(&[(len >> 16) as u8, (len >> 8) as u8, len as u8, ty, flags]);
    out.extend_from_slice(&sid_raw.to_be_bytes());
}

/// the grid point `g` of the exhaustively enumerated (type, flags, length, stream id, tail) space;
/// payload bytes come from a fixed-seed stream (not part of the exhaustiveness claim)
fn grid_input(g: u64) -> (Vec<u8>, u32) {
    let mut x = g;
    let tail = x % GRID_TAILS;
    x /= GRID_TAILS;
    let sid = GRID_SIDS[(x % GRID_SIDS.len() as u64) as usize];
    x /= GRID_SIDS.len() as u64;
    let len = GRID_LENS[(x % GRID_LENS.len() as u64) as usize];
    x /= GRID_LENS.len() as u64;
    let flags = (x % 256) as u8;
    x /= 256;
    let ty = ALL_TYPES[x as usize];
    let mut rng = Rng::for_case(0xC15, 1, g);
    let mut out = Vec::with_capacity(9 + len as usize + 9);
    put_header(&mut out, len, ty, flags, sid);
    // lengths above every buffer the grid builds (16 385: above/at the maximum; 2^24-1): only a
    // few payload bytes follow, the decoder must refuse either the length or the truncation
    let mut payload = rng.bytes(if len > 64 { 40 } else { len as usize });
    if len > 0 {
        // first byte = pad length when PADDED: sweep the boundary around what is left
        let l = len as i64;
        let cands = [0, 1, l - 7, l - 6, l - 2, l - 1, l, 255];
        payload[0] = cands[rng.usize_below(cands.len())].clamp(0, 255) as u8;
    }
    match tail {
        0 => out.extend_from_slice(&payload),
        1 => {
            out.extend_from_slice(&payload);
            out.extend_from_slice(&rng.bytes(9));
        }
        _ => {
            if !payload.is_empty() {
                payload.pop();
            }
            out.extend_from_slice(&payload);
        }
    }
    (out, MAX_SIZES[(g % 2) as usize])
}

fn pick_sid(rng: &mut Rng, want_zero: Option<bool>) -> u32 {
    let base = match want_zero {
        Some(true) => 0,
        Some(false) => *rng.pick(&[1u32, 3, 2, 0x7fff_ffff, 0x7fff_fffe, 101]),
        None => *rng.pick(&[0u32, 1, 2, 3, 0x7fff_ffff, 0x1234_5678]),
    };
    if rng.chance(1, 4) { base | 0x8000_0000 } else { base }
}

/// a well-formed frame of wire type `ty` (full bytes). `big` allows payloads up to 16 384
fn valid_frame(rng: &mut Rng, ty: u8, big: bool) -> Vec<u8> {
    let var_len = |rng: &mut Rng| -> usize {
        if big && rng.chance(1, 6) {
            *rng.pick(&[16_383usize, 16_384, 9_000, 4_096])
        } else {
            rng.boundary_size(&[0, 1, 5, 6, 9, 24, 255, 256], 600)
        }
    };
    let mut out = Vec::new();
    match ty {
        T_DATA | T_HEADERS => {
            let mut flags = rng.next_u64() as u8 & if ty == T_DATA { 0x09 } else { 0x2d };
            if rng.chance(1, 8) {
                flags |= rng.next_u64() as u8 & !0x28; // undefined flag bits must be ignored
            }
            let body = var_len(rng);
            let mut payload = Vec::new();
            let pad = if flags & 0x8 != 0 { *rng.pick(&[0usize, 1, 2, 7, 255]) } else { 0 };
            if flags & 0x8 != 0 {
                payload.push(pad as u8);
            }
            if ty == T_HEADERS && flags & 0x20 != 0 {
                payload.extend_from_slice(&rng.bytes(5));
            }
            payload.extend_from_slice(&rng.bytes(body));
            payload.extend(std::iter::repeat(0u8).take(pad));
            put_header(&mut out, payload.len() as u32, ty, flags, pick_sid(rng, Some(false)));
            out.extend_from_slice(&payload);
        }
        T_PRIORITY => {
            put_header(&mut out, 5, ty, rng.next_u64() as u8, pick_sid(rng, Some(false)));
            out.extend_from_slice(&rng.bytes(5));
        }
        T_RST => {
            put_header(&mut out, 4, ty, rng.next_u64() as u8, pick_sid(rng, Some(false)));
            out.extend_from_slice(&(rng.below(0x10) as u32).to_be_bytes());
        }
        T_SETTINGS => {
            if rng.chance(1, 4) {
                put_header(&mut out, 0, ty, 1, pick_sid(rng, Some(true)));
            } else {
                let n = *rng.pick(&[0usize, 1, 2, 6, 8, 63, 64, 65, 100]);
                put_header(&mut out, (n * 6) as u32, ty, rng.next_u64() as u8 & !1, pick_sid(rng, Some(true)));
                for _ in 0..n {
                    out.extend_from_slice(&(rng.below(12) as u16).to_be_bytes());
                    out.extend_from_slice(&(rng.next_u64() as u32).to_be_bytes());
                }
            }
        }
        T_PUSH => {
            let n = var_len(rng).max(4);
            put_header(&mut out, n as u32, ty, rng.next_u64() as u8 & 0x0c, pick_sid(rng, Some(false)));
            out.extend_from_slice(&rng.bytes(n));
        }
        T_PING => {
            put_header(&mut out, 8, ty, rng.next_u64() as u8, pick_sid(rng, Some(true)));
            out.extend_from_slice(&rng.bytes(8));
        }
        T_GOAWAY => {
            let n = rng.boundary_size(&[0, 1, 16], 300);
            put_header(&mut out, (8 + n) as u32, ty, rng.next_u64() as u8, pick_sid(rng, Some(true)));
            out.extend_from_slice(&rng.bytes(8 + n));
        }
        T_WINUP => {
            put_header(&mut out, 4, ty, rng.next_u64() as u8, pick_sid(rng, None));
            let inc = *rng.pick(&[1u32, 0, 0x7fff_ffff, 0x8000_0001, 65_535, 0xffff_ffff]);
            out.extend_from_slice(&inc.to_be_bytes());
        }
        T_CONT => {
            let n = var_len(rng);
            put_header(&mut out, n as u32, ty, rng.next_u64() as u8 & 0x04, pick_sid(rng, Some(false)));
            out.extend_from_slice(&rng.bytes(n));
        }
        T_PRIO_UPDATE => {
            let n = *rng.pick(&[0usize, 1, 3, 8, 1023, 1024, 1025, 2000]);
            put_header(&mut out, (4 + n) as u32, ty, rng.next_u64() as u8, pick_sid(rng, Some(true)));
            out.extend_from_slice(&rng.bytes(4 + n));
        }
        other => {
            let n = var_len(rng);
            put_header(&mut out, n as u32, other, rng.next_u64() as u8, pick_sid(rng, None));
            out.extend_from_slice(&rng.bytes(n));
        }
    }
    out
}

fn any_type(rng: &mut Rng) -> u8 {
    if rng.chance(9, 10) { *rng.pick(&[0u8, 1, 2, 3, 4, 5, 6, 7, 8, 9, 0x10]) } else { *rng.pick(&ALL_TYPES) }
}

fn set_len(frame: &mut [u8], len: u32) {
    frame[0] = (len >> 16) as u8;
    frame[1] = (len >> 8) as u8;
    frame[2] = len as u8;
}

/// one structural or byte-level mutation of a frame
fn mutate(rng: &mut Rng, f: &mut Vec<u8>, max: u32) {
    if f.is_empty() {
        let n = rng.urange(1, 12);
        f.extend_from_slice(&rng.bytes(n));
        return;
    }
    match rng.below(12) {
        0 => {
            let i = rng.usize_below(f.len());
            f[i] ^= 1 << rng.below(8);
        }
        1 => {
            let i = rng.usize_below(f.len());
            f[i] = *rng.pick(&INTERESTING);
        }
        2 => {
            let i = rng.usize_below(f.len() + 1);
            f.insert(i, *rng.pick(&INTERESTING));
        }
        3 => {
            let i = rng.usize_below(f.len());
            f.remove(i);
        }
        // length classes: 0, wrong fixed size (±1, ±2), > max, the byte count actually present ±1
        4 if f.len() >= 9 => {
            let cur = ref_header(f).map(|h| h.len).unwrap_or(0) as i64;
            let present = f.len() as i64 - 9;
            let cands = [0, cur - 1, cur + 1, cur - 2, cur + 2, present, present + 1, present - 1, max as i64, max as i64 + 1, 0xff_ffff];
            set_len(f, cands[rng.usize_below(cands.len())].clamp(0, 0xff_ffff) as u32);
        }
        5 if f.len() >= 9 => f[3] = any_type(rng),
        6 if f.len() >= 9 => f[4] ^= *rng.pick(&[0x1u8, 0x4, 0x8, 0x20, 0x28, 0x29, 0xff]),
        7 if f.len() >= 9 => {
            let sid = pick_sid(rng, None);
            f[5..9].copy_from_slice(&sid.to_be_bytes());
        }
        // pad length byte
        8 if f.len() >= 10 => {
            let present = (f.len() - 9) as i64;
            let cands = [0, 1, present - 7, present - 6, present - 2, present - 1, present, 255];
            f[9] = cands[rng.usize_below(cands.len())].clamp(0, 255) as u8;
            f[4] |= 0x8;
        }
        9 => {
            let n = rng.usize_below(f.len() + 1);
            f.truncate(n);
        }
        10 => {
            let n = rng.urange(1, 20);
            f.extend_from_slice(&rng.bytes(n));
        }
        _ => {
            let i = rng.usize_below(f.len());
            let n = rng.urange(1, 4).min(f.len() - i);
            let b = rng.bytes(n);
            f[i..i + n].copy_from_slice(&b);
        }
    }
}

fn pick_max(rng: &mut Rng) -> u32 {
    if rng.chance(2, 3) { 16_384 } else { *rng.pick(&MAX_SIZES) }
}

/// files of the repository's fuzz corpus (read at run time only if present)
fn load_corpus() -> Vec<(String, Vec<u8>)> {
    let mut out = Vec::new();
    let Ok(dirs) = std::fs::read_dir("/repo/fuzz/corpus") else {
        return out;
    };
    let mut dirs: Vec<_> = dirs.filter_map(|d| d.ok()).map(|d| d.path()).collect();
    dirs.sort();
    for d in dirs {
        let Ok(files) = std::fs::read_dir(&d) else { continue };
        let mut files: Vec<_> = files.filter_map(|f| f.ok()).map(|f| f.path()).collect();
        files.sort();
        for f in files {
            if let Ok(bytes) = std::fs::read(&f) {
                if bytes.len() <= 1 << 16 {
                    out.push((f.display().to_string(), bytes));
                }
            }
        }
    }
    out
}

// ---------------------------------------------------------------------------------------------
// batches
// ---------------------------------------------------------------------------------------------

const INPUTS_PER_BATCH: u64 = 512;

struct Plan {
    grid_batches: u64,
    trunc_batches: u64,
    corpus_batches: u64,
    random_batches: u64,
}

impl Plan {
    fn total(&self) -> u64 {
        self.grid_batches + self.trunc_batches + self.corpus_batches + self.random_batches
    }
}

/// every prefix of `frame` (exhaustive when short, boundaries + samples otherwise)
fn truncations(c: &Case, rng: &mut Rng, frame: &[u8], max: u32, k: &mut u64, t: &mut Tally, r: &mut Report) {
    let n = frame.len();
    if n <= 96 {
        for cut in 0..=n {
            checked(c, *k, &frame[..cut], max, t, r);
            *k += 1;
        }
        r.obs("frames_truncated_at_every_prefix", 1);
    } else {
        let mut cuts: Vec<usize> = (0..=24).collect();
        cuts.extend([n - 2, n - 1, n]);
        for _ in 0..8 {
            cuts.push(rng.usize_below(n));
        }
        for cut in cuts {
            checked(c, *k, &frame[..cut.min(n)], max, t, r);
            *k += 1;
        }
        r.obs("frames_truncated_sampled", 1);
    }
}

/// concatenated frames walked like a reader would: every frame consumed exactly, no desync
fn stream_walk(c: &Case, rng: &mut Rng, k: &mut u64, t: &mut Tally, r: &mut Report) {
    let n = rng.urange(2, 8);
    let mut stream = Vec::new();
    let mut bounds = vec![0usize];
    for _ in 0..n {
        let ty = *rng.pick(&[0u8, 1, 2, 3, 4, 6, 7, 8, 9, 0x10, 0x42]);
        let mut f = valid_frame(rng, ty, false);
        // keep the walk on frames every decoder must accept: drop the exempt shapes
        if let Some(h) = ref_header(&f) {
            let exempt = matches!(ref_body(&h, &f[9..]), Expect::Either(..));
            if exempt {
                f = valid_frame(rng, T_PING, false);
            }
        }
        stream.extend_from_slice(&f);
        bounds.push(stream.len());
    }
    t.stream_walks += 1;
    let mut at = 0usize;
    let mut i = 0usize;
    while at < stream.len() {
        let o = checked(c, *k, &stream[at..], 16_384, t, r);
        *k += 1;
        match o {
            Outcome::Frame(used) => {
                at += used;
                i += 1;
                t.stream_frames += 1;
                if bounds.get(i) != Some(&at) {
                    r.violation(
                        "stream/desynchronised",
                        "walking a concatenation of well-formed frames, the decoder's consumption left the frame boundaries",
                        c.witness(*k, &stream, 16_384, format!("boundaries {bounds:?}"), format!("offset {at} after frame {i}")),
                    );
                    return;
                }
            }
            Outcome::Flagged => return,
            Outcome::HeaderErr | Outcome::BodyErr => {
                // a well-formed frame refused: check_one has already flagged it unless exempt
                r.obs("stream_walk_stopped_on_error", 1);
                return;
            }
        }
    }
}

/// sozu's logger is thread-local and, uninitialised, prints every `error!` of the parser to
/// stdout: switch it off for the calling thread (observation is through return values only)
fn silence_sozu_logger() {
    use sozu_command_lib::logging::{LOGGER, parse_logging_spec};
    thread_local! { static DONE: std::cell::Cell<bool> = const { std::cell::Cell::new(false) }; }
    if !DONE.with(|d| d.replace(true)) {
        let (directives, _) = parse_logging_spec("off");
        LOGGER.with(|l| l.borrow_mut().set_directives(directives));
    }
}

/// pseudo batch index of the corpus replay in witnesses
const CORPUS_REPLAY: u64 = u64::MAX;

/// the fuzz corpus as it is and at every prefix length (done first: a run cut short by the
/// budget must still have replayed it)
fn corpus_replay(ctx: &Ctx, seed: u64, corpus: &[(String, Vec<u8>)], r: &mut Report) {
    silence_sozu_logger();
    let c = Case { ctx, seed, batch: CORPUS_REPLAY, class: "corpus_replay" };
    let mut t = Tally::default();
    let mut k = 0u64;
    let mut rng = Rng::for_case(seed, 0xC15A, CORPUS_REPLAY);
    for (_, bytes) in corpus {
        for max in [16_384, (1 << 24) - 1] {
            truncations(&c, &mut rng, bytes, max, &mut k, &mut t, r);
        }
        r.obs("corpus_files_replayed", 1);
    }
    t.flush(r);
}

fn run_batch(ctx: &Ctx, seed: u64, plan: &Plan, corpus: &[(String, Vec<u8>)], batch: u64, r: &mut Report) {
    silence_sozu_logger();
    let mut t = Tally::default();
    let mut k = 0u64;
    let mut rng = Rng::for_case(seed, 0xC15A, batch);
    let mut b = batch;
    if b < plan.grid_batches {
        let c = Case { ctx, seed, batch, class: "grid" };
        let lo = b * GRID_BATCH;
        let hi = (lo + GRID_BATCH).min(GRID_POINTS);
        for g in lo..hi {
            let (input, max) = grid_input(g);
            checked(&c, g, &input, max, &mut t, r);
        }
        r.obs("grid_points", hi - lo);
        t.flush(r);
        return;
    }
    b -= plan.grid_batches;
    if b < plan.trunc_batches {
        let c = Case { ctx, seed, batch, class: "truncation" };
        while t.inputs < INPUTS_PER_BATCH {
            let ty = any_type(&mut rng);
            let big = rng.chance(1, 20);
            let f = valid_frame(&mut rng, ty, big);
            let max = pick_max(&mut rng);
            truncations(&c, &mut rng, &f, max, &mut k, &mut t, r);
            // and the preface, alone and followed by a frame
            if rng.chance(1, 16) {
                let mut p = PREFACE.to_vec();
                p.extend_from_slice(&valid_frame(&mut rng, T_SETTINGS, false));
                truncations(&c, &mut rng, &p, max, &mut k, &mut t, r);
            }
        }
        t.flush(r);
        return;
    }
    b -= plan.trunc_batches;
    if b < plan.corpus_batches {
        let c = Case { ctx, seed, batch, class: "corpus" };
        if corpus.is_empty() {
            return;
        }
        while t.inputs < INPUTS_PER_BATCH {
            let (_, bytes) = rng.pick(corpus);
            let mut f = bytes.clone();
            let max = pick_max(&mut rng);
            for _ in 0..rng.urange(1, 4) {
                mutate(&mut rng, &mut f, max);
            }
            if rng.chance(1, 4) {
                let (_, other) = rng.pick(corpus);
                f.extend_from_slice(other);
            }
            checked(&c, k, &f, max, &mut t, r);
            k += 1;
            r.obs("corpus_mutants", 1);
        }
        t.flush(r);
        return;
    }
    // random / mutated / streams
    let c_rand = Case { ctx, seed, batch, class: "random_bytes" };
    let c_mut = Case { ctx, seed, batch, class: "mutated_frame" };
    let c_valid = Case { ctx, seed, batch, class: "valid_frame" };
    let c_stream = Case { ctx, seed, batch, class: "frame_stream" };
    while t.inputs < INPUTS_PER_BATCH {
        let max = pick_max(&mut rng);
        match rng.below(10) {
            0 => {
                // arbitrary bytes, short
                let n = rng.boundary_size(&[0, 8, 9, 10, 24], 80);
                let input = rng.bytes(n);
                checked(&c_rand, k, &input, max, &mut t, r);
            }
            1 => {
                // arbitrary bytes behind a plausible length field so that bodies are reached
                let n = rng.boundary_size(&[9, 13, 14, 17, 18], 300).max(9);
                let mut input = rng.bytes(n);
                let present = (n - 9) as i64;
                let l = (present + rng.range(0, 4) as i64 - 2).clamp(0, 0xff_ffff) as u32;
                set_len(&mut input, l);
                if rng.chance(3, 4) {
                    input[3] = any_type(&mut rng);
                }
                checked(&c_rand, k, &input, max, &mut t, r);
            }
            2 => {
                let ty = any_type(&mut rng);
                let big = rng.chance(1, 10);
                let f = valid_frame(&mut rng, ty, big);
                checked(&c_valid, k, &f, max, &mut t, r);
            }
            3 => stream_walk(&c_stream, &mut rng, &mut k, &mut t, r),
            _ => {
                let ty = any_type(&mut rng);
                let mut f = valid_frame(&mut rng, ty, false);
                for _ in 0..rng.urange(1, 3) {
                    mutate(&mut rng, &mut f, max);
                }
                if rng.chance(1, 5) {
                    let ty = any_type(&mut rng);
                    let next = valid_frame(&mut rng, ty, false);
                    f.extend_from_slice(&next);
                }
                checked(&c_mut, k, &f, max, &mut t, r);
            }
        }
        k += 1;
    }
    t.flush(r);
}

// ---------------------------------------------------------------------------------------------
// entry points
// ---------------------------------------------------------------------------------------------

/// part (a): the frame-decoder lab
pub fn run_parser(ctx: &Ctx, rep: &mut Report) {
    rep.assume("frame-decoder lab: the reference decode is written from RFC 9113 §4.1/§6 and RFC 9218 §7.1 only; kawa's `Slice` (start,len) is read as an offset into the bytes handed to frame_body");
    rep.assume("frame-decoder lab: stream-id zero/non-zero rules, zero WINDOW_UPDATE increments, PUSH_PROMISE, SETTINGS with more than 64 entries and PRIORITY_UPDATE values above 1024 bytes may be refused by the decoder or left to the connection layer: both answers are accepted and counted under exempt:*");
    rep.assume("frame-decoder lab: max_frame_size ranges over RFC-legal values 16384..=16777215 (what the production callers pass)");
    if ctx.replay.is_none() {
        for k in [
            "header_ok",
            "header_err_short_input",
            "header_err_length_above_max",
            "reject/payload_truncated",
            "reject/fixed_size_mismatch",
            "reject/pad_exceeds_payload",
            "padded_frames_decoded",
            "headers_with_priority_decoded",
            "ok_with_trailing_bytes_left_untouched",
            "frame_stream_frames",
            "preface_ok",
            "frames_truncated_at_every_prefix",
        ] {
            rep.require(k);
        }
        for (i, name) in TYPE_NAMES.iter().enumerate() {
            if i != T_PUSH as usize {
                rep.require(&format!("body_ok/{name}"));
            }
            rep.require(&format!("body_err/{name}"));
        }
    }

    let corpus = load_corpus();
    rep.set("parser_lab_fuzz_corpus_files", json!(corpus.len()));
    if corpus.is_empty() {
        rep.assume("frame-decoder lab: /repo/fuzz/corpus not present, corpus seeding skipped");
    } else if ctx.replay.is_none() {
        rep.require("corpus_files_replayed");
    }

    let grid_batches = GRID_POINTS.div_ceil(GRID_BATCH);
    let target_inputs = ctx.opt_u64("parser_inputs", ctx.tier.pick(8_000_000, 1_000_000_000));
    let rest = target_inputs.saturating_sub(GRID_POINTS) / INPUTS_PER_BATCH;
    let plan = Plan {
        grid_batches,
        trunc_batches: rest * 3 / 10,
        corpus_batches: if corpus.is_empty() { 0 } else { (rest / 10).max(1) },
        random_batches: (rest * 6 / 10).max(1),
    };
    rep.set(
        "parser_lab_plan",
        json!({"grid_points": GRID_POINTS, "grid_batches": plan.grid_batches, "truncation_batches": plan.trunc_batches,
               "corpus_batches": plan.corpus_batches, "random_batches": plan.random_batches,
               "grid": "20 type bytes x 256 flags x 17 lengths (0..36, 16385, 2^24-1) x 7 raw stream ids x {exact, +9 trailing, 1 short}; payload bytes sampled"}),
    );

    if let Some(path) = &ctx.replay {
        let v: Value = serde_json::from_str(&std::fs::read_to_string(path).unwrap_or_default()).unwrap_or(Value::Null);
        let seed = v["seed"].as_u64().unwrap_or(ctx.seed);
        let mut seen = std::collections::BTreeSet::new();
        for w in v["witnesses"].as_array().cloned().unwrap_or_default() {
            if w.get("max_frame_size").is_none() {
                continue; // not a parser-lab witness
            }
            let wseed = w["seed"].as_u64().unwrap_or(seed);
            if let Some(c) = w["case"].as_u64() {
                if seen.insert((wseed, c)) {
                    if c == CORPUS_REPLAY {
                        corpus_replay(ctx, wseed, &corpus, rep);
                    } else {
                        run_batch(ctx, wseed, &plan, &corpus, c, rep);
                    }
                }
            }
        }
        return;
    }

    corpus_replay(ctx, ctx.seed, &corpus, rep);
    let total = plan.total();
    // interleave the classes so that a run cut short by the budget still saw all of them
    let order = |i: u64| -> u64 {
        let stride = 7919 % total.max(1);
        if total > 1 && gcd(stride.max(1), total) == 1 { (i * stride.max(1)) % total } else { i }
    };
    par_cases_named(ctx, rep, total, "c15-parser", |i, r| run_batch(ctx, ctx.seed, &plan, &corpus, order(i), r));
    if rep.observed.get("grid_points").copied().unwrap_or(0) == GRID_POINTS {
        rep.set("parser_lab_grid_exhaustive", json!(true));
    } else {
        rep.set("parser_lab_grid_exhaustive", json!(false));
    }
}

fn gcd(a: u64, b: u64) -> u64 {
    if b == 0 { a } else { gcd(b, a % b) }
}

/// rename the evidence keys of one part (`max:` and `violation:` prefixes keep their meaning)
fn namespace(r: &mut Report, prefix: &str) {
    let rename = |k: &str| -> String {
        if k.starts_with("violation:") || k.starts_with(prefix) || k.starts_with(&format!("max:{prefix}")) || k.starts_with(&format!("exempt:{prefix}")) {
            k.to_owned()
        } else if let Some(rest) = k.strip_prefix("max:") {
            format!("max:{prefix}{rest}")
        } else {
            format!("{prefix}{k}")
        }
    };
    r.observed = std::mem::take(&mut r.observed).into_iter().map(|(k, v)| (rename(&k), v)).collect();
    r.required = std::mem::take(&mut r.required).into_iter().map(|k| rename(&k)).collect();
}

pub fn run(ctx: &Ctx) -> Report {
    let mut rep = Report::new(
        "exploration",
        "(a) frame-decoder lab: byte strings fed to preface/frame_header/frame_body and compared with an independent RFC 9113 decode: (1) an exhaustively enumerated grid of type byte x flags x length x raw stream id x tail (exact / trailing bytes / one byte short), (2) well-formed frames of every type cut at every prefix length, (3) the repository's fuzz corpus, as is, at every prefix, and mutated, (4) arbitrary bytes, mutated valid frames (length classes 0 / +-1 / +-2 / bytes present / > max, type, flags, stream id, pad length, insert/delete/flip) and concatenated frame streams walked frame by frame; a case is non-trivial when a 9-byte header is present; distinct = distinct (type, flags, length bucket, stream-id class, reserved bit, tail relation, decoder outcome). (b) live lab: scripted hostile HTTP/2 clients (TLS, ALPN h2) and a hostile h2c backend against a real worker, one scenario = one hostile connection: state-aware frame grid (type x flags x stream-id class x length class x payload, injected during the SETTINGS exchange / with open, half-closed, closed, reset streams / inside a header block / after GOAWAY), floods at 0.5x-1x-2x of the configured thresholds, concurrency and header-list over-commit, slot recycling, invalid prefaces, hostile backend behaviours, draining; a scenario is non-trivial when the hostile connection was established; distinct = distinct (family, workload parameters, stream state, classifier rule)",
    );
    let only = ctx.opt("part").map(|s| s.to_owned());
    if only.as_deref() != Some("b") {
        // part (a) gets a slice of the budget (quick: ~20 s), part (b) the rest
        let slice = ctx.opt_u64("a_budget_s", ctx.tier.pick(20, 300));
        let mut ctx_a = ctx.clone();
        if only.is_none() {
            ctx_a.budget = ctx.budget.min(ctx.started.elapsed() + std::time::Duration::from_secs(slice));
        }
        let mut ra = rep.fork();
        run_parser(&ctx_a, &mut ra);
        if only.is_none() {
            // running out of the slice is the plan, not a shortfall of the budget
            ra.observed.remove("cases_not_started_budget_exhausted");
        }
        namespace(&mut ra, "a.");
        if ra.samples.is_empty() {
            ra.sample(json!({"parser_lab": {"inputs": ra.observed.get("a.inputs"), "grid_points": ra.observed.get("a.grid_points"), "example": "9-octet header 000008 06 00 00000000 + 8 octets => Ok(Ping), consumed 17"}}));
        }
        rep.merge(ra);
    }
    // part (b) can be switched off with `--opt live=0`
    let live_enabled = ctx.opt("live") != Some("0");
    if only.as_deref() != Some("a") && live_enabled {
        // scenarios stop being started a little before the budget ends: bounded-time misses are
        // re-run in isolation afterwards
        let mut ctx_b = ctx.clone();
        let reserve = std::time::Duration::from_secs(ctx.opt_u64("b_reserve_s", ctx.tier.pick(20, 90)));
        ctx_b.budget = ctx.budget.saturating_sub(reserve);
        run_live(&ctx_b, &mut rep);
    }
    rep
}

// =============================================================================================
// Part (b): hostile HTTP/2 peers against a live worker
// =============================================================================================
//
// Per cell: one `lab::Worker`, two HTTPS listeners with ALPN h2 on a private loopback address
// (:8443 with sozu's default flood thresholds, :8444 with every documented `h2_*` threshold patched
// to a small value and MAX_CONCURRENT_STREAMS 8), a scripted HTTP/1.1 backend (cluster `h1`), a
// hostile-capable prior-knowledge h2c backend (cluster `h2`, `http2: true`), a second h2c backend
// that never leaves the protocol (cluster `h2ok`), a well-behaved probe client kept open in
// parallel, and the command channel (Status probes).
//
// Workload families (one scenario = one hostile connection, `ROTATION`): `walk` (state-aware frame
// grid), `flood`, `mcs` / `hdr` (over-commit), `recycle` / `early` / `pressure` (slot recycling with
// a read / a write pending on the recycled slot), `segmented` (valid traffic in small segments),
// `preface`, `backend` (hostile h2c backend), `vanish` (peer disappears mid-responses), `trailer`
// (trailer sections above the header budgets, elided and ordinary names), `crossing` (answers of
// the h2c backend that cross sozu's own RST_STREAM), `drain`.
//
// Oracles (see DESIGN.md "C15"):
//  * universal: no panic of the worker thread; Status answered within a bound during and after the
//    attack; the probe connection and a fresh connection keep being served; after its error the
//    hostile connection is closed by sozu and the H3 footprint returns to the baseline; never more
//    concurrent requests from one connection at the backends than SETTINGS_MAX_CONCURRENT_STREAMS
//    advertised; header lists above the advertised/documented limits never reach a backend;
//  * reaction class: `classify` (written from RFC 9113 only) labels every injected frame
//    valid / stream error{codes} / connection error{codes} / either. Only unambiguous labels are
//    judged. RFC 9113 §5.4.3 lets an endpoint treat a stream error as a connection error, so a
//    GOAWAY carrying an allowed code is accepted for a stream-error label (counted separately).
//  * floods at 0.5x / 1x / 2x of the configured thresholds: at most half the threshold must not
//    trip the defence, twice the threshold sent in one burst must end in GOAWAY(ENHANCE_YOUR_CALM or
//    an RFC code of the abused rule) and close; exactly the threshold is not judged.
//  * premise: almost every verdict needs the scripted backends to be reachable *in sozu's eyes*.
//    After every scenario sozu's own counters are read (QueryMetrics: backend.connections.error per
//    cluster, default 502/503/504 answers on the clusters whose backends never leave the protocol).
//    If they moved, the scenario is not judged (`triage`: inconclusive with its reason, only hard
//    evidence such as a panic or an oversized request at a backend still counts) and the next
//    scenario waits until control requests to both well-behaved clusters are answered 200 again
//    (`Cell::recover`). A connection error counted against a backend that accepted every connection
//    and never gave one up unread is a finding of its own
//    (`h2hostile/back/reachable_backend_counted_as_connection_failure`).
//  * time: every wall-clock allowance is multiplied by the pace of the machine (`calibrate`: a fixed
//    plan on as many cells side by side as there are threads, against a reference), a slow machine
//    runs fewer cells side by side; verdicts shaped by time or availability (`Shape::Timed`) only
//    count once reproduced twice alone on fresh cells (`confirm_suspects`).

/// part (b): live worker lab
pub fn run_live(ctx: &Ctx, rep: &mut Report) {
    live::run_live(ctx, rep)
}

mod live {
    use std::{
        collections::{BTreeMap, BTreeSet, HashMap, HashSet},
        io::{Read, Write},
        net::{SocketAddr, TcpStream},
        sync::{
            Arc, Condvar, Mutex,
            atomic::{AtomicU64, Ordering},
        },
        time::{Duration, Instant},
    };

    use serde_json::{Value, json};
    use sozu_command_lib::proto::command::{Cluster, ResponseStatus, Status, request::RequestType};

    use crate::{
        common::{Ctx, Report, Rng, par_cases_named},
        lab::{self, Worker, WorkerOpts},
        peers::{
            self, BackendServer, IoProgram, h1,
            h2::{self, Event, Frame, H2Conn, HeaderList, HpackMode, Replenish, Role, Transport},
            tls,
        },
    };

    const H1_HOST: &str = "h1.test";
    /// cluster whose h2c backend takes hostile orders (path /hb/...): only the `backend` workload uses it
    const H2_HOST: &str = "h2.test";
    /// cluster with an h2c backend that never leaves the protocol
    const H2OK_HOST: &str = "h2ok.test";

    // Wall-clock allowances. Every one of them only ever creates a *candidate* (a suspect that is
    // re-run alone before it counts), never a verdict; all are multiplied by the pace of this
    // machine, measured on a calibration cell before the cells run side by side (see `calibrate`).

    /// slowdown of this machine against an idle 16-core box, x100 (100..=400)
    static PACE_X100: AtomicU64 = AtomicU64::new(100);

    fn pace() -> f64 {
        PACE_X100.load(Ordering::SeqCst) as f64 / 100.0
    }

    fn paced(d: Duration) -> Duration {
        d.mul_f64(pace())
    }

    /// a Status command must be answered within this bound (statement: "keeps serving", "never loops
    /// without bound"); a miss is only a suspect until reproduced in isolation
    fn status_bound() -> Duration {
        paced(Duration::from_millis(2000))
    }
    /// how long a late Status answer is waited for before the loop is called wedged
    fn status_give_up() -> Duration {
        paced(Duration::from_secs(12))
    }
    /// after GOAWAY / after its error sozu must close the socket within this bound
    fn close_bound() -> Duration {
        paced(Duration::from_millis(2500))
    }
    /// footprint back to the baseline once the harness closed its side
    fn release_bound() -> Duration {
        paced(Duration::from_millis(4000))
    }
    /// a reaction (GOAWAY / RST_STREAM / PING ack / an answer) is waited for this long; stays below
    /// HOLD_MAX at every pace
    fn react_bound() -> Duration {
        paced(Duration::from_millis(4000))
    }
    /// backend: a held request is answered at the latest after this long
    const HOLD_MAX: Duration = Duration::from_secs(20);

    // ------------------------------------------------------------------------------------------
    // configured thresholds
    // ------------------------------------------------------------------------------------------

    #[derive(Clone, Copy, Debug)]
    pub(super) struct Knobs {
        rst: u32,
        ping: u32,
        settings: u32,
        empty: u32,
        wu0: u32,
        cont: u32,
        glitch: u32,
        abusive: u64,
        emitted: u64,
        mcs: u32,
    }

    /// sozu's documented defaults (doc/configure.md): listener A is left at them
    const DEFAULTS: Knobs = Knobs { rst: 100, ping: 100, settings: 50, empty: 100, wu0: 100, cont: 20, glitch: 100, abusive: 50, emitted: 500, mcs: 100 };
    /// listener B: every threshold patched to a small value
    const SMALL: Knobs = Knobs { rst: 20, ping: 20, settings: 10, empty: 20, wu0: 20, cont: 8, glitch: 20, abusive: 20, emitted: 20, mcs: 8 };

    // ------------------------------------------------------------------------------------------
    // thread-safe collector (backend threads judge too)
    // ------------------------------------------------------------------------------------------

    #[derive(Default, Debug)]
    pub(super) struct Sink {
        obs: Vec<(String, u64)>,
        maxes: Vec<(String, u64)>,
        viol: Vec<(String, String, Value)>,
        inconc: Vec<String>,
        /// bounded-time misses: (signature, what, witness); only a verdict once reproduced in isolation
        suspects: Vec<(String, String, Value)>,
        samples: Vec<Value>,
    }

    impl Sink {
        fn obs(&mut self, k: &str, n: u64) {
            if let Some(e) = self.obs.iter_mut().find(|(key, _)| key == k) {
                e.1 += n;
            } else {
                self.obs.push((k.to_owned(), n));
            }
        }
        fn max(&mut self, k: &str, n: u64) {
            if let Some(e) = self.maxes.iter_mut().find(|(key, _)| key == k) {
                e.1 = e.1.max(n);
            } else {
                self.maxes.push((k.to_owned(), n));
            }
        }
        fn violation(&mut self, sig: &str, what: &str, w: Value) {
            self.viol.push((sig.to_owned(), what.to_owned(), w));
        }
        fn suspect(&mut self, sig: &str, what: &str, w: Value) {
            self.suspects.push((sig.to_owned(), what.to_owned(), w));
        }
        fn inconclusive(&mut self, why: &str) {
            self.inconc.push(why.to_owned());
        }
        fn sample(&mut self, v: Value) {
            if self.samples.len() < 3 {
                self.samples.push(v);
            }
        }
        fn absorb(&mut self, other: Sink) {
            for (k, n) in other.obs {
                self.obs(&k, n);
            }
            for (k, n) in other.maxes {
                self.max(&k, n);
            }
            self.viol.extend(other.viol);
            self.inconc.extend(other.inconc);
            self.suspects.extend(other.suspects);
            for s in other.samples {
                self.sample(s);
            }
        }
        /// write everything but the suspects into the report
        fn flush(&mut self, rep: &mut Report) {
            for (k, n) in self.obs.drain(..) {
                rep.obs(&format!("b.{k}"), n);
            }
            for (k, n) in self.maxes.drain(..) {
                rep.obs_max(&format!("b.{k}"), n);
            }
            for (s, w, v) in self.viol.drain(..) {
                rep.violation(&s, &w, v);
            }
            for i in self.inconc.drain(..) {
                rep.inconclusive(&i);
            }
            for s in self.samples.drain(..) {
                rep.sample(s);
            }
        }
    }

    // ------------------------------------------------------------------------------------------
    // reference classifier (RFC 9113) — independent of sozu's code
    // ------------------------------------------------------------------------------------------

    const E_PROTOCOL: u32 = h2::ERR_PROTOCOL_ERROR;
    const E_FLOW: u32 = h2::ERR_FLOW_CONTROL_ERROR;
    const E_CLOSED: u32 = h2::ERR_STREAM_CLOSED;
    const E_SIZE: u32 = h2::ERR_FRAME_SIZE_ERROR;
    const E_REFUSED: u32 = h2::ERR_REFUSED_STREAM;
    const E_COMPRESSION: u32 = h2::ERR_COMPRESSION_ERROR;
    const E_CALM: u32 = h2::ERR_ENHANCE_YOUR_CALM;

    fn code_name(c: u32) -> String {
        match c {
            0 => "NO_ERROR".into(),
            1 => "PROTOCOL_ERROR".into(),
            2 => "INTERNAL_ERROR".into(),
            3 => "FLOW_CONTROL_ERROR".into(),
            4 => "SETTINGS_TIMEOUT".into(),
            5 => "STREAM_CLOSED".into(),
            6 => "FRAME_SIZE_ERROR".into(),
            7 => "REFUSED_STREAM".into(),
            8 => "CANCEL".into(),
            9 => "COMPRESSION_ERROR".into(),
            10 => "CONNECT_ERROR".into(),
            11 => "ENHANCE_YOUR_CALM".into(),
            12 => "INADEQUATE_SECURITY".into(),
            13 => "HTTP_1_1_REQUIRED".into(),
            other => format!("0x{other:x}"),
        }
    }

    fn codes_names(cs: &[u32]) -> Vec<String> {
        cs.iter().map(|c| code_name(*c)).collect()
    }

    /// stream states from the point of view of the receiver under test (sozu)
    #[derive(Clone, Copy, Debug, PartialEq, Eq)]
    pub(super) enum SS {
        Idle,
        /// both directions open
        Open,
        /// the scripted peer sent END_STREAM: half-closed (remote) at sozu
        RecvClosed,
        /// sozu sent END_STREAM: half-closed (local) at sozu; the peer may still send
        SendClosed,
        /// both END_STREAM flags exchanged
        ClosedEnd,
        /// the scripted peer sent RST_STREAM
        ClosedPeerRst,
        /// sozu sent RST_STREAM (frames in flight are expected: never judged)
        ClosedSozuRst,
        /// never used, below the highest identifier opened (RFC 9113 §5.1.1: implicitly closed)
        ClosedImplicit,
        /// the harness lost track (after an unjudged frame)
        Unknown,
    }

    impl SS {
        fn name(self) -> &'static str {
            match self {
                SS::Idle => "idle",
                SS::Open => "open",
                SS::RecvClosed => "half_closed_remote",
                SS::SendClosed => "half_closed_local",
                SS::ClosedEnd => "closed_end",
                SS::ClosedPeerRst => "closed_peer_rst",
                SS::ClosedSozuRst => "closed_sozu_rst",
                SS::ClosedImplicit => "closed_implicit",
                SS::Unknown => "unknown",
            }
        }
    }

    /// what the classifier knows about the connection
    #[derive(Clone, Debug)]
    pub(super) struct Model {
        /// true: sozu is the server (we are the client); false: sozu is the client of our backend
        sozu_server: bool,
        /// MAX_FRAME_SIZE sozu advertised (16384 until told otherwise)
        max_frame: u32,
        /// MAX_CONCURRENT_STREAMS sozu advertised (u32::MAX: none yet)
        max_streams: u32,
        streams: BTreeMap<u32, SS>,
        /// streams that certainly still occupy a slot at sozu (opened, held by the backend)
        pinned: BTreeSet<u32>,
        /// highest stream identifier opened by the side that opens streams (the client)
        highest: u32,
        /// an unfinished header block: (stream, CONTINUATION frames so far)
        header_block: Option<(u32, u32)>,
        /// the scripted peer sent GOAWAY: nothing is judged afterwards
        sent_goaway: bool,
        /// sozu's send windows are only known exactly while it has nothing to send
        windows_exact: bool,
        /// sozu's connection send window (as granted by the peer)
        conn_window: i64,
        stream_window: BTreeMap<u32, i64>,
        /// the peer acknowledged sozu's SETTINGS carrying ENABLE_PUSH=0 (backend side)
        push_disabled_acked: bool,
    }

    impl Model {
        fn new(sozu_server: bool) -> Model {
            Model {
                sozu_server,
                max_frame: 16_384,
                max_streams: u32::MAX,
                streams: BTreeMap::new(),
                pinned: BTreeSet::new(),
                highest: 0,
                header_block: None,
                sent_goaway: false,
                windows_exact: true,
                conn_window: 65_535,
                stream_window: BTreeMap::new(),
                push_disabled_acked: false,
            }
        }
        fn st(&self, sid: u32) -> SS {
            if let Some(s) = self.streams.get(&sid) {
                return *s;
            }
            if sid % 2 == 1 {
                if sid > self.highest { SS::Idle } else { SS::ClosedImplicit }
            } else {
                // server-initiated streams need PUSH_PROMISE: none was ever reserved
                SS::Idle
            }
        }
        fn set(&mut self, sid: u32, s: SS) {
            self.streams.insert(sid, s);
            if !matches!(s, SS::Open | SS::RecvClosed) {
                self.pinned.remove(&sid);
            }
        }
    }

    /// one frame as put on the wire (the declared length is always the payload length)
    #[derive(Clone, Debug)]
    pub(super) struct Fr {
        typ: u8,
        flags: u8,
        /// 31-bit identifier
        sid: u32,
        reserved: bool,
        payload: Vec<u8>,
        /// what the HPACK block of a HEADERS/PUSH_PROMISE/CONTINUATION is, when the generator knows
        block: Block,
    }

    #[derive(Clone, Copy, Debug, PartialEq, Eq)]
    pub(super) enum Block {
        /// not a header-bearing frame, or unknown content (never judged as valid)
        Opaque,
        /// literal-only encoding of a well-formed request without END_STREAM semantics of its own
        Request,
        /// literal-only encoding of a well-formed trailer section
        Trailers,
        /// literal-only encoding of a well-formed response (backend side)
        Response,
        /// bytes that no HPACK decoder can accept (RFC 7541 §6.1 index 0)
        Garbage,
        /// decodable, but not a response: no :status (RFC 9113 §8.1.1 malformed => stream error)
        MalformedResponse,
    }

    impl Fr {
        fn new(typ: u8, flags: u8, sid: u32, payload: Vec<u8>) -> Fr {
            Fr { typ, flags, sid, reserved: false, payload, block: Block::Opaque }
        }
        fn wire(&self) -> Vec<u8> {
            let raw = self.sid | if self.reserved { 0x8000_0000 } else { 0 };
            let f = Frame::new(self.typ, self.flags, raw, self.payload.clone());
            h2::encode_frame(&f)
        }
        fn describe(&self) -> String {
            let p = if self.payload.len() <= 24 { hex::encode(&self.payload) } else { format!("{}..", hex::encode(&self.payload[..24])) };
            format!(
                "{}(flags=0x{:02x} stream={}{} len={} payload={})",
                h2::frame_type_name(self.typ),
                self.flags,
                self.sid,
                if self.reserved { "+R" } else { "" },
                self.payload.len(),
                p
            )
        }
    }

    #[derive(Clone, Debug, PartialEq, Eq)]
    pub(super) enum Label {
        Valid,
        /// stream error on `sid` with one of these codes (a GOAWAY with one of them is accepted too)
        Stream(Vec<u32>),
        /// connection error with one of these codes
        Conn(Vec<u32>),
        Either,
    }

    #[derive(Clone, Debug)]
    pub(super) struct Verdict {
        label: Label,
        /// stable name of the rule (or of the reason for "either")
        rule: &'static str,
    }

    impl Verdict {
        fn class(&self) -> &'static str {
            match self.label {
                Label::Valid => "valid",
                Label::Stream(_) => "stream_error",
                Label::Conn(_) => "connection_error",
                Label::Either => "either",
            }
        }
    }

    struct Rules {
        conn: Vec<(u32, &'static str)>,
        stream: Vec<(u32, &'static str)>,
        either: Option<&'static str>,
    }

    impl Rules {
        fn conn(&mut self, code: u32, rule: &'static str) {
            self.conn.push((code, rule));
        }
        fn stream(&mut self, code: u32, rule: &'static str) {
            self.stream.push((code, rule));
        }
        fn either(&mut self, why: &'static str) {
            if self.either.is_none() {
                self.either = Some(why);
            }
        }
        fn finish(self, valid_rule: &'static str) -> Verdict {
            if let Some(why) = self.either {
                return Verdict { label: Label::Either, rule: why };
            }
            let uniq = |v: &[(u32, &'static str)]| -> Vec<u32> {
                let mut c: Vec<u32> = v.iter().map(|x| x.0).collect();
                c.sort_unstable();
                c.dedup();
                c
            };
            if self.conn.is_empty() && self.stream.is_empty() {
                return Verdict { label: Label::Valid, rule: valid_rule };
            }
            if self.stream.is_empty() {
                return Verdict { label: Label::Conn(uniq(&self.conn)), rule: self.conn[0].1 };
            }
            // a rule of stream scope applies: a conformant receiver may stop at it, or at a
            // connection-scope rule that applies as well — both forms, union of the codes
            let mut all = self.stream.clone();
            all.extend(self.conn.iter().copied());
            Verdict { label: Label::Stream(uniq(&all)), rule: self.stream[0].1 }
        }
    }

    fn be32(b: &[u8]) -> u32 {
        u32::from_be_bytes([b[0], b[1], b[2], b[3]])
    }

    /// RFC 9113 classification of frame `f` arriving at sozu in connection state `m`
    pub(super) fn classify(m: &Model, f: &Fr) -> Verdict {
        let mut r = Rules { conn: Vec::new(), stream: Vec::new(), either: None };
        let len = f.payload.len() as u32;
        let sid = f.sid;
        let st = if sid == 0 { SS::Idle } else { m.st(sid) };
        if m.sent_goaway {
            r.either("after_peer_goaway");
            return r.finish("-");
        }
        // §6.2/§6.10: inside a header block only CONTINUATION of the same stream may follow
        if let Some((hs, _)) = m.header_block {
            if !(f.typ == h2::FT_CONTINUATION && sid == hs) {
                r.conn(E_PROTOCOL, "frame_inside_header_block");
                if len > m.max_frame {
                    r.conn(E_SIZE, "frame_above_max_frame_size");
                }
                return r.finish("-");
            }
        }
        // §4.2: above SETTINGS_MAX_FRAME_SIZE
        if len > m.max_frame {
            let conn_scope = sid == 0 || matches!(f.typ, h2::FT_HEADERS | h2::FT_PUSH_PROMISE | h2::FT_CONTINUATION | h2::FT_SETTINGS);
            if conn_scope {
                r.conn(E_SIZE, "frame_above_max_frame_size");
            } else {
                r.stream(E_SIZE, "frame_above_max_frame_size");
            }
        }
        // §5.1: on a stream the peer half-closed or closed, any frame other than PRIORITY, RST_STREAM
        // and WINDOW_UPDATE may be answered with STREAM_CLOSED whatever else is wrong with it
        if sid != 0 && !matches!(f.typ, h2::FT_PRIORITY | h2::FT_RST_STREAM | h2::FT_WINDOW_UPDATE | h2::FT_DATA | h2::FT_HEADERS) {
            match st {
                SS::RecvClosed | SS::ClosedEnd | SS::ClosedPeerRst => {
                    if f.typ <= h2::FT_CONTINUATION {
                        r.stream(E_CLOSED, "frame_on_closed_stream");
                    } else {
                        // "unknown types are ignored" against "any other frame": not decidable
                        r.either("unknown_frame_type_on_closed_stream");
                    }
                }
                SS::ClosedSozuRst | SS::ClosedImplicit | SS::Unknown if f.typ <= h2::FT_CONTINUATION => r.either("stream_state_unknown"),
                _ => {}
            }
        }
        let valid_rule: &'static str;
        match f.typ {
            h2::FT_DATA => {
                valid_rule = "data_on_open_stream";
                if sid == 0 {
                    r.conn(E_PROTOCOL, "data_on_stream_0");
                } else {
                    match st {
                        SS::Idle => r.conn(E_PROTOCOL, "data_on_idle_stream"),
                        SS::Open | SS::SendClosed => {}
                        SS::RecvClosed => r.stream(E_CLOSED, "data_on_half_closed_remote_stream"),
                        SS::ClosedEnd => r.stream(E_CLOSED, "data_on_closed_stream"),
                        SS::ClosedPeerRst => r.stream(E_CLOSED, "data_after_own_rst_stream"),
                        SS::ClosedSozuRst => r.either("frame_after_sozu_rst"),
                        SS::ClosedImplicit => r.either("frame_on_implicitly_closed_stream"),
                        SS::Unknown => r.either("stream_state_unknown"),
                    }
                }
                if f.flags & h2::FL_PADDED != 0 {
                    // §6.1: padding of the payload length or more => connection error
                    match f.payload.first() {
                        None => {
                            r.conn(E_PROTOCOL, "padded_without_pad_length");
                            r.conn(E_SIZE, "padded_without_pad_length");
                        }
                        Some(p) if *p as u32 >= len => r.conn(E_PROTOCOL, "data_padding_exceeds_payload"),
                        _ => {}
                    }
                }
            }
            h2::FT_HEADERS => {
                valid_rule = "headers";
                let mut frame_ok = true;
                if sid == 0 {
                    r.conn(E_PROTOCOL, "headers_on_stream_0");
                    frame_ok = false;
                }
                // frame structure (§6.2)
                let mut off = 0usize;
                let mut pad = 0usize;
                if f.flags & h2::FL_PADDED != 0 {
                    match f.payload.first() {
                        None => {
                            r.stream(E_PROTOCOL, "padded_without_pad_length");
                            r.stream(E_SIZE, "padded_without_pad_length");
                            frame_ok = false;
                        }
                        Some(p) => {
                            pad = *p as usize;
                            off = 1;
                        }
                    }
                }
                if frame_ok && f.flags & h2::FL_PRIORITY != 0 {
                    if f.payload.len() < off + 5 {
                        r.stream(E_PROTOCOL, "headers_priority_fields_truncated");
                        r.stream(E_SIZE, "headers_priority_fields_truncated");
                        frame_ok = false;
                    } else {
                        let dep = be32(&f.payload[off..off + 4]) & 0x7fff_ffff;
                        if dep == sid {
                            r.either("self_dependency");
                        }
                        off += 5;
                    }
                }
                if frame_ok && pad > f.payload.len() - off {
                    // §6.2: PROTOCOL_ERROR, scope not stated
                    r.stream(E_PROTOCOL, "headers_padding_exceeds_payload");
                    frame_ok = false;
                }
                if sid != 0 {
                    if m.sozu_server {
                        if sid % 2 == 0 {
                            r.conn(E_PROTOCOL, "headers_on_even_stream_from_client");
                        } else {
                            match st {
                                SS::Idle => {
                                    // a new request
                                    if frame_ok {
                                        match f.block {
                                            Block::Request => {}
                                            Block::Garbage => r.conn(E_COMPRESSION, "hpack_decoding_error"),
                                            _ => r.either("header_block_content_not_modelled"),
                                        }
                                    }
                                    let open_now = m.pinned.len() as u64;
                                    let maybe_open = m.streams.values().filter(|s| matches!(s, SS::Open | SS::RecvClosed | SS::SendClosed | SS::Unknown)).count() as u64;
                                    if m.max_streams != u32::MAX {
                                        if open_now >= m.max_streams as u64 {
                                            // §5.1.2
                                            r.stream(E_PROTOCOL, "max_concurrent_streams_exceeded");
                                            r.stream(E_REFUSED, "max_concurrent_streams_exceeded");
                                        } else if maybe_open >= m.max_streams as u64 {
                                            r.either("concurrency_uncertain");
                                        }
                                    }
                                }
                                SS::Open => {
                                    // §8.1: a second HEADERS is a trailer section and must end the stream
                                    if f.flags & h2::FL_END_STREAM == 0 {
                                        r.stream(E_PROTOCOL, "second_headers_without_end_stream");
                                    } else if frame_ok && f.block != Block::Trailers {
                                        r.either("header_block_content_not_modelled");
                                    }
                                }
                                SS::RecvClosed => {
                                    r.stream(E_CLOSED, "headers_on_half_closed_remote_stream");
                                    r.stream(E_PROTOCOL, "headers_on_half_closed_remote_stream");
                                }
                                SS::ClosedEnd => {
                                    r.stream(E_CLOSED, "headers_on_closed_stream");
                                    r.stream(E_PROTOCOL, "headers_on_closed_stream");
                                }
                                SS::ClosedPeerRst => {
                                    r.stream(E_CLOSED, "headers_after_own_rst_stream");
                                    r.stream(E_PROTOCOL, "headers_after_own_rst_stream");
                                }
                                SS::ClosedImplicit => {
                                    // §5.1.1: unexpected stream identifier
                                    r.stream(E_PROTOCOL, "headers_reusing_lower_stream_id");
                                    r.stream(E_CLOSED, "headers_reusing_lower_stream_id");
                                }
                                SS::SendClosed => r.either("early_response_state"),
                                SS::ClosedSozuRst => r.either("frame_after_sozu_rst"),
                                SS::Unknown => r.either("stream_state_unknown"),
                            }
                        }
                    } else {
                        // sozu is the client: HEADERS from the backend
                        if sid % 2 == 0 {
                            r.conn(E_PROTOCOL, "headers_on_unreserved_even_stream");
                        } else {
                            match st {
                                SS::Idle => r.conn(E_PROTOCOL, "headers_on_idle_stream_from_server"),
                                SS::Open | SS::SendClosed => {
                                    if frame_ok {
                                        match f.block {
                                            Block::Response | Block::Trailers => {}
                                            Block::MalformedResponse => r.stream(E_PROTOCOL, "malformed_response_without_status"),
                                            Block::Garbage => r.conn(E_COMPRESSION, "hpack_decoding_error"),
                                            _ => r.either("header_block_content_not_modelled"),
                                        }
                                    }
                                }
                                SS::RecvClosed | SS::ClosedEnd | SS::ClosedPeerRst => {
                                    r.stream(E_CLOSED, "headers_on_closed_stream");
                                    r.stream(E_PROTOCOL, "headers_on_closed_stream");
                                }
                                SS::ClosedImplicit => r.either("frame_on_implicitly_closed_stream"),
                                SS::ClosedSozuRst => r.either("frame_after_sozu_rst"),
                                SS::Unknown => r.either("stream_state_unknown"),
                            }
                        }
                    }
                }
            }
            h2::FT_PRIORITY => {
                valid_rule = "priority_in_any_state";
                if sid == 0 {
                    r.conn(E_PROTOCOL, "priority_on_stream_0");
                    if len != 5 {
                        r.conn(E_SIZE, "priority_bad_length");
                    }
                } else if len != 5 {
                    r.stream(E_SIZE, "priority_bad_length");
                } else if be32(&f.payload[..4]) & 0x7fff_ffff == sid {
                    r.either("self_dependency");
                }
            }
            h2::FT_RST_STREAM => {
                valid_rule = "rst_stream_on_open_stream";
                if sid == 0 {
                    r.conn(E_PROTOCOL, "rst_stream_on_stream_0");
                }
                if len != 4 {
                    r.conn(E_SIZE, "rst_stream_bad_length");
                }
                if sid != 0 {
                    match st {
                        SS::Idle => r.conn(E_PROTOCOL, "rst_stream_on_idle_stream"),
                        SS::Open | SS::RecvClosed | SS::SendClosed => {}
                        _ => r.either("rst_stream_on_closed_stream"),
                    }
                }
            }
            h2::FT_SETTINGS => {
                valid_rule = "settings";
                if sid != 0 {
                    r.conn(E_PROTOCOL, "settings_on_nonzero_stream");
                }
                if f.flags & h2::FL_ACK != 0 {
                    if len != 0 {
                        r.conn(E_SIZE, "settings_ack_with_payload");
                    } else {
                        r.either("unsolicited_settings_ack");
                    }
                } else if len % 6 != 0 {
                    r.conn(E_SIZE, "settings_length_not_multiple_of_6");
                } else {
                    if len / 6 > 64 {
                        r.either("settings_above_documented_entry_cap");
                    }
                    for (id, v) in h2::parse_settings(&f.payload) {
                        match id {
                            h2::SET_ENABLE_PUSH => {
                                if v > 1 {
                                    r.conn(E_PROTOCOL, "settings_enable_push_invalid");
                                } else if v == 1 && !m.sozu_server {
                                    // a server must not send ENABLE_PUSH=1 (§6.5.2)
                                    r.conn(E_PROTOCOL, "settings_enable_push_from_server");
                                }
                            }
                            h2::SET_INITIAL_WINDOW_SIZE => {
                                if v > 0x7fff_ffff {
                                    r.conn(E_FLOW, "settings_initial_window_above_max");
                                } else {
                                    // may overflow an existing stream window (§6.9.2): not tracked here
                                    let delta = v as i64 - 65_535;
                                    if m.stream_window.iter().any(|(s, w)| matches!(m.st(*s), SS::Open | SS::RecvClosed) && *w + delta > 0x7fff_ffff) {
                                        if m.windows_exact {
                                            r.conn(E_FLOW, "settings_initial_window_overflows_stream_window");
                                        } else {
                                            r.either("window_not_known_exactly");
                                        }
                                    } else if v != 65_535 {
                                        r.either("initial_window_change_not_modelled");
                                    }
                                }
                            }
                            h2::SET_MAX_FRAME_SIZE => {
                                if !(16_384..=16_777_215).contains(&v) {
                                    r.conn(E_PROTOCOL, "settings_max_frame_size_invalid");
                                }
                            }
                            h2::SET_HEADER_TABLE_SIZE | h2::SET_MAX_CONCURRENT_STREAMS | h2::SET_MAX_HEADER_LIST_SIZE => {}
                            h2::SET_ENABLE_CONNECT_PROTOCOL | h2::SET_NO_RFC7540_PRIORITIES => {
                                if v > 1 {
                                    r.either("extension_setting_value");
                                }
                            }
                            _ => {} // unknown identifiers MUST be ignored (§6.5.2)
                        }
                    }
                }
            }
            h2::FT_PUSH_PROMISE => {
                valid_rule = "-";
                if m.sozu_server {
                    // §8.4: a client cannot push
                    r.conn(E_PROTOCOL, "push_promise_from_client");
                    if len < 4 {
                        r.conn(E_SIZE, "push_promise_too_short");
                    }
                } else if m.push_disabled_acked {
                    r.conn(E_PROTOCOL, "push_promise_with_push_disabled");
                    if len < 4 {
                        r.conn(E_SIZE, "push_promise_too_short");
                    }
                } else {
                    r.either("push_not_known_disabled");
                }
            }
            h2::FT_PING => {
                valid_rule = "ping";
                if sid != 0 {
                    r.conn(E_PROTOCOL, "ping_on_nonzero_stream");
                }
                if len != 8 {
                    r.conn(E_SIZE, "ping_bad_length");
                }
            }
            h2::FT_GOAWAY => {
                valid_rule = "-";
                if sid != 0 {
                    r.conn(E_PROTOCOL, "goaway_on_nonzero_stream");
                }
                if len < 8 {
                    r.conn(E_SIZE, "goaway_too_short");
                }
                if sid == 0 && len >= 8 {
                    r.either("peer_goaway");
                }
            }
            h2::FT_WINDOW_UPDATE => {
                valid_rule = "window_update";
                if len != 4 {
                    r.conn(E_SIZE, "window_update_bad_length");
                    if sid != 0 {
                        match st {
                            SS::Idle => r.conn(E_PROTOCOL, "window_update_on_idle_stream"),
                            SS::Open | SS::RecvClosed | SS::SendClosed => {}
                            _ => r.either("window_update_on_closed_stream"),
                        }
                    }
                } else {
                    let inc = (be32(&f.payload) & 0x7fff_ffff) as i64;
                    if sid == 0 {
                        if inc == 0 {
                            r.conn(E_PROTOCOL, "window_update_zero_increment_on_connection");
                        } else if m.conn_window + inc > 0x7fff_ffff {
                            if m.windows_exact {
                                r.conn(E_FLOW, "window_update_overflows_connection_window");
                            } else {
                                r.either("window_not_known_exactly");
                            }
                        }
                    } else {
                        match st {
                            SS::Idle => r.conn(E_PROTOCOL, "window_update_on_idle_stream"),
                            SS::Open | SS::RecvClosed => {
                                if inc == 0 {
                                    r.stream(E_PROTOCOL, "window_update_zero_increment_on_stream");
                                } else {
                                    let w = m.stream_window.get(&sid).copied().unwrap_or(65_535);
                                    if w + inc > 0x7fff_ffff {
                                        if m.windows_exact {
                                            r.stream(E_FLOW, "window_update_overflows_stream_window");
                                        } else {
                                            r.either("window_not_known_exactly");
                                        }
                                    }
                                }
                            }
                            _ => r.either("window_update_on_closed_stream"),
                        }
                    }
                }
            }
            h2::FT_CONTINUATION => {
                valid_rule = "continuation_of_open_block";
                match m.header_block {
                    Some((hs, _)) if hs == sid => {
                        // content of a split block is only modelled by the dedicated workloads
                        if f.block == Block::Opaque {
                            r.either("header_block_content_not_modelled");
                        } else if f.block == Block::Garbage && f.flags & h2::FL_END_HEADERS != 0 {
                            r.conn(E_COMPRESSION, "hpack_decoding_error");
                        }
                    }
                    _ => r.conn(E_PROTOCOL, "continuation_without_header_block"),
                }
            }
            0x10 => {
                valid_rule = "-";
                r.either("priority_update_extension");
            }
            _ => {
                // §4.1/§5.5: unknown types MUST be ignored and discarded
                valid_rule = "unknown_frame_type_ignored";
            }
        }
        r.finish(valid_rule)
    }

    /// effect of a frame the classifier called valid on the model
    pub(super) fn apply_valid(m: &mut Model, f: &Fr) {
        let sid = f.sid;
        match f.typ {
            h2::FT_HEADERS => {
                let st = m.st(sid);
                if st == SS::Idle {
                    m.highest = m.highest.max(sid);
                    m.set(sid, if f.flags & h2::FL_END_STREAM != 0 { SS::RecvClosed } else { SS::Open });
                    m.stream_window.insert(sid, 65_535);
                } else if f.flags & h2::FL_END_STREAM != 0 {
                    let next = match st {
                        SS::Open => SS::RecvClosed,
                        SS::SendClosed => SS::ClosedEnd,
                        o => o,
                    };
                    m.set(sid, next);
                }
                if f.flags & h2::FL_END_HEADERS == 0 {
                    m.header_block = Some((sid, 0));
                }
            }
            h2::FT_CONTINUATION => {
                if f.flags & h2::FL_END_HEADERS != 0 {
                    m.header_block = None;
                } else if let Some((hs, n)) = m.header_block {
                    m.header_block = Some((hs, n + 1));
                }
            }
            h2::FT_DATA => {
                if f.flags & h2::FL_END_STREAM != 0 {
                    let next = match m.st(sid) {
                        SS::Open => SS::RecvClosed,
                        SS::SendClosed => SS::ClosedEnd,
                        o => o,
                    };
                    m.set(sid, next);
                }
            }
            h2::FT_RST_STREAM => m.set(sid, SS::ClosedPeerRst),
            h2::FT_WINDOW_UPDATE => {
                let inc = (be32(&f.payload) & 0x7fff_ffff) as i64;
                if sid == 0 {
                    m.conn_window += inc;
                } else if let Some(w) = m.stream_window.get_mut(&sid) {
                    *w += inc;
                }
            }
            _ => {}
        }
    }

    // ------------------------------------------------------------------------------------------
    // a scripted HTTP/2 endpoint with an observation record (client over TLS, or h2c backend)
    // ------------------------------------------------------------------------------------------

    #[derive(Default, Debug, Clone)]
    pub(super) struct Resp {
        status: Option<u16>,
        body: Vec<u8>,
        ended: bool,
    }

    #[derive(Default, Debug)]
    pub(super) struct Obs {
        /// first GOAWAY: (last stream id, code)
        goaway: Option<(u32, u32)>,
        goaways: u32,
        t_goaway: Option<Instant>,
        /// first RST_STREAM per stream
        rst: BTreeMap<u32, u32>,
        closed: Option<String>,
        t_closed: Option<Instant>,
        ping_acks: BTreeSet<u64>,
        settings_acks: u32,
        settings_frames: u32,
        resp: BTreeMap<u32, Resp>,
        /// requests received (server role): stream -> (headers, end_stream seen)
        reqs: Vec<(u32, HeaderList, bool)>,
        data_end: BTreeSet<u32>,
        frames_in: u64,
        /// response bodies are kept up to this many octets per stream (0 = 64 KiB)
        body_cap: usize,
    }

    pub(super) struct Peer<S: Transport> {
        c: H2Conn<S>,
        o: Obs,
        /// what was injected and what came back, for witnesses
        log: Vec<String>,
        fence: u64,
        t0: Instant,
    }

    #[derive(Clone, Copy, Debug, PartialEq, Eq)]
    enum Fence {
        Acked,
        /// GOAWAY seen or connection gone
        Dead,
        /// neither within the wait
        Silent,
    }

    impl<S: Transport> Peer<S> {
        fn new(c: H2Conn<S>) -> Peer<S> {
            Peer { c, o: Obs::default(), log: Vec::new(), fence: 0x4331_3500_0000_0000, t0: Instant::now() }
        }

        fn note(&mut self, s: String) {
            if self.log.len() < 400 {
                let at = self.t0.elapsed().as_micros();
                self.log.push(format!("{at}us {s}"));
            }
        }

        fn absorb(&mut self, ev: Event) {
            self.o.frames_in += 1;
            match ev {
                Event::GoAway { last, code, .. } => {
                    self.o.goaways += 1;
                    if self.o.goaway.is_none() {
                        self.o.goaway = Some((last, code));
                        self.o.t_goaway = Some(Instant::now());
                    }
                    self.note(format!("< GOAWAY(last={last}, {})", code_name(code)));
                }
                Event::RstStream { stream, code } => {
                    self.o.rst.entry(stream).or_insert(code);
                    self.note(format!("< RST_STREAM(stream={stream}, {})", code_name(code)));
                }
                Event::Ping { ack: true, data } => {
                    self.o.ping_acks.insert(u64::from_be_bytes(data));
                }
                Event::Settings { ack, .. } => {
                    if ack {
                        self.o.settings_acks += 1;
                    } else {
                        self.o.settings_frames += 1;
                    }
                }
                Event::Headers { stream, headers, end_stream } => {
                    if self.c.role == Role::Client {
                        let r = self.o.resp.entry(stream).or_default();
                        if let Some(s) = h2::header_str(&headers, ":status").and_then(|s| s.parse::<u16>().ok()) {
                            if !(100..200).contains(&s) {
                                r.status = Some(s);
                            }
                        }
                        if end_stream {
                            r.ended = true;
                        }
                        let st = r.status;
                        self.note(format!("< HEADERS(stream={stream}, status={st:?}, end_stream={end_stream})"));
                    } else {
                        self.note(format!("< HEADERS(stream={stream}, {:?}, end_stream={end_stream})", h2::header_str(&headers, ":path")));
                        self.o.reqs.push((stream, headers, end_stream));
                        if end_stream {
                            self.o.data_end.insert(stream);
                        }
                    }
                }
                Event::Data { stream, data, end_stream, .. } => {
                    let r = self.o.resp.entry(stream).or_default();
                    if r.body.len() < if self.o.body_cap == 0 { 1 << 16 } else { self.o.body_cap } {
                        r.body.extend_from_slice(&data);
                    }
                    if end_stream {
                        r.ended = true;
                        self.o.data_end.insert(stream);
                    }
                }
                Event::Closed => {
                    if self.o.closed.is_none() {
                        let k = self.c.close_kind.clone().unwrap_or_else(|| "closed".into());
                        self.o.closed = Some(k.clone());
                        self.o.t_closed = Some(Instant::now());
                        self.note(format!("< connection closed by sozu ({k})"));
                    }
                }
                Event::Malformed { frame, why } => {
                    self.note(format!("< malformed frame from sozu {}: {why}", frame.describe()));
                }
                _ => {}
            }
        }

        /// process incoming events until `done` or the wait elapses; true when `done` held
        fn pump(&mut self, wait: Duration, done: &mut dyn FnMut(&Obs) -> bool) -> bool {
            let deadline = Instant::now() + wait;
            loop {
                if done(&self.o) {
                    return true;
                }
                if self.o.closed.is_some() {
                    return done(&self.o);
                }
                let left = deadline.saturating_duration_since(Instant::now());
                if left.is_zero() {
                    return done(&self.o);
                }
                if self.c.role == Role::Client && self.c.conn_recv_window < 32_768 && self.o.goaway.is_none() && (self.c.auto_ack || self.c.auto_pong) {
                    let inc = (65_535 - self.c.conn_recv_window) as u32;
                    let _ = self.c.send_window_update(0, inc);
                }
                match self.c.poll(left.min(Duration::from_millis(50))) {
                    Ok(Some(ev)) => self.absorb(ev),
                    Ok(None) => {}
                    Err(e) => {
                        // an automatic answer (SETTINGS ack, PING ack, WINDOW_UPDATE) could not be
                        // written: sozu is gone, but frames it sent before may still be buffered
                        if self.c.auto_ack || self.c.auto_pong || self.c.replenish != Replenish::Manual {
                            self.c.auto_ack = false;
                            self.c.auto_pong = false;
                            self.c.replenish = Replenish::Manual;
                            self.note(format!("  (write side gone: {e}; draining what sozu sent)"));
                        } else if self.o.closed.is_none() {
                            self.o.closed = Some(format!("{e}"));
                            self.o.t_closed = Some(Instant::now());
                            self.note(format!("< connection unusable: {e}"));
                        }
                    }
                }
            }
        }

        fn alive(&self) -> bool {
            self.o.closed.is_none() && self.o.goaway.is_none()
        }

        /// put bytes on the wire; false when the connection is gone
        fn send_bytes(&mut self, what: String, bytes: &[u8]) -> bool {
            self.note(format!("> {what}"));
            match self.c.send_raw(bytes) {
                Ok(()) => true,
                Err(e) => {
                    self.note(format!("  write failed: {e}"));
                    false
                }
            }
        }

        fn send_frs(&mut self, frs: &[Fr]) -> bool {
            let mut bytes = Vec::new();
            for f in frs {
                bytes.extend(f.wire());
            }
            let what = frs.iter().map(|f| f.describe()).collect::<Vec<_>>().join(" + ");
            self.send_bytes(what, &bytes)
        }

        fn ping_frame(&mut self) -> (u64, Fr) {
            self.fence += 1;
            (self.fence, Fr::new(h2::FT_PING, 0, 0, self.fence.to_be_bytes().to_vec()))
        }

        /// PING and wait for its acknowledgement (frames are processed in order: everything sent
        /// before has been handled once the ack is back)
        fn ping_fence(&mut self, wait: Duration) -> Fence {
            let (id, f) = self.ping_frame();
            if !self.send_frs(&[f]) {
                let _ = self.pump(Duration::from_millis(300), &mut |o| o.closed.is_some());
                return Fence::Dead;
            }
            self.await_fence(id, wait)
        }

        fn await_fence(&mut self, id: u64, wait: Duration) -> Fence {
            let got = self.pump(wait, &mut |o| o.ping_acks.contains(&id) || o.goaway.is_some() || o.closed.is_some());
            if self.o.goaway.is_some() || self.o.closed.is_some() {
                Fence::Dead
            } else if got {
                Fence::Acked
            } else {
                Fence::Silent
            }
        }

        /// wait until sozu closed the socket; latency since `from` in ms when it did
        fn await_close(&mut self, from: Instant, bound: Duration) -> Option<u64> {
            let left = bound.saturating_sub(from.elapsed()).max(Duration::from_millis(50));
            self.pump(left, &mut |o| o.closed.is_some());
            self.o.t_closed.map(|t| t.saturating_duration_since(from).as_millis() as u64)
        }

        fn trace(&self) -> Value {
            json!({"injected_and_observed": self.log, "frame_trace_tail": self.c.trace_tail(40)})
        }
    }

    pub(super) type Client = Peer<tls::TlsClient>;

    /// open a TLS/ALPN h2 client connection; `wait_settings` = complete the SETTINGS exchange first
    fn open_client(addr: SocketAddr, host: &str, wait_settings: bool, prog: IoProgram) -> Result<Client, String> {
        open_client_traced(addr, host, wait_settings, prog).map_err(|e| e.0)
    }

    /// like `open_client`; a failure of the SETTINGS exchange comes with the trace of the connection
    fn open_client_traced(addr: SocketAddr, host: &str, wait_settings: bool, prog: IoProgram) -> Result<Client, (String, Value)> {
        // socket buffer sizes of the program apply to the connection, its pacing only after the preface
        let tcp = peers::connect(addr, None, &IoProgram { rcvbuf: prog.rcvbuf, sndbuf: prog.sndbuf, ..IoProgram::default() }, Duration::from_secs(5))
            .map_err(|e| (format!("connect: {e}"), Value::Null))?;
        let (t, info) = tls::TlsClient::handshake(tcp, host, tls::client_config(&["h2"]), Duration::from_secs(8)).map_err(|e| (format!("tls: {e}"), Value::Null))?;
        if info.alpn.as_deref() != Some(b"h2") {
            return Err((format!("alpn: {:?}", info.alpn), Value::Null));
        }
        let mut c = H2Conn::new(t, Role::Client);
        c.auto_ack = true;
        c.auto_pong = true;
        // the connection window is given back in large steps (see `pump`): one WINDOW_UPDATE per DATA
        // frame would itself look like the stream-0 WINDOW_UPDATE flood to listener B
        c.replenish = Replenish::Manual;
        c.enc.mode = HpackMode::LiteralOnly;
        c.write_timeout = Duration::from_secs(5);
        // the preface goes out in one piece: segmented prefaces are a workload of their own
        c.handshake_client(&[(h2::SET_ENABLE_PUSH, 0)]).map_err(|e| (format!("preface: {e}"), Value::Null))?;
        c.io_prog = prog;
        let mut p = Peer::new(c);
        p.note("> preface + SETTINGS(ENABLE_PUSH=0)".into());
        if wait_settings {
            let ok = p.pump(Duration::from_secs(8), &mut |o| o.settings_frames >= 1 && o.settings_acks >= 1);
            if !ok {
                let _ = p.pump(Duration::from_millis(200), &mut |o| o.closed.is_some());
                return Err((format!("settings exchange: closed={:?} goaway={:?}", p.o.closed, p.o.goaway.map(|g| code_name(g.1))), p.trace()));
            }
        }
        Ok(p)
    }

    fn req_block(p: &mut Client, method: &str, host: &str, path: &str, tag: &str, extra: &[(&str, &str)]) -> Vec<u8> {
        let mut hs = h2::request_headers(method, "https", host, path, &[("x-c15", tag)]);
        for (n, v) in extra {
            hs.push((n.as_bytes().to_vec(), v.as_bytes().to_vec()));
        }
        p.c.enc.encode(&hs)
    }

    /// a complete, well-formed request HEADERS frame
    fn req_frame(p: &mut Client, sid: u32, method: &str, host: &str, path: &str, tag: &str, end_stream: bool) -> Fr {
        let block = req_block(p, method, host, path, tag, &[]);
        let mut f = Fr::new(h2::FT_HEADERS, h2::FL_END_HEADERS | if end_stream { h2::FL_END_STREAM } else { 0 }, sid, block);
        f.block = Block::Request;
        f
    }

    /// GET on a new stream and wait for the complete answer: Ok(status, body) / Err(what happened)
    fn simple_get(p: &mut Client, sid: u32, host: &str, path: &str, tag: &str, wait: Duration) -> Result<(u16, Vec<u8>), String> {
        let f = req_frame(p, sid, "GET", host, path, tag, true);
        if !p.send_frs(&[f]) {
            return Err("write failed".into());
        }
        let ok = p.pump(wait, &mut |o| o.resp.get(&sid).is_some_and(|r| r.ended) || o.rst.contains_key(&sid) || o.goaway.is_some());
        if let Some(r) = p.o.resp.get(&sid) {
            if r.ended {
                return Ok((r.status.unwrap_or(0), r.body.clone()));
            }
        }
        if let Some(c) = p.o.rst.get(&sid) {
            return Err(format!("RST_STREAM({})", code_name(*c)));
        }
        if let Some((_, c)) = p.o.goaway {
            return Err(format!("GOAWAY({})", code_name(c)));
        }
        if let Some(k) = &p.o.closed {
            return Err(format!("closed({k})"));
        }
        let _ = ok;
        Err("no answer".into())
    }

    // ------------------------------------------------------------------------------------------
    // backends
    // ------------------------------------------------------------------------------------------

    #[derive(Default)]
    pub(super) struct Back {
        /// every request that reached a backend: (tag, path, field count, RFC 9113 §6.5.2 list size)
        seen: Vec<(String, String, usize, usize)>,
        inflight: HashMap<String, i64>,
        max_inflight: HashMap<String, i64>,
        released: HashSet<String>,
        /// hostile backend behaviours that finished: token -> summary
        hb_done: HashMap<String, Value>,
        sink: Sink,
        /// ground truth about the scripted backends' side of sozu's connection attempts:
        /// connection handlers that started (compare with the listeners' accept counts) ...
        handlers_started: u64,
        /// ... and connections a backend gave up (handshake wait, age) before it had read anything
        closed_unread: u64,
        /// "/earlyhold/<tok>": a second handle on the backend's side of the connection, for the
        /// scenario thread (it ends the connection right after its own write to sozu)
        early_socks: HashMap<String, TcpStream>,
    }

    pub(super) type Shared = Arc<(Mutex<Back>, Condvar)>;

    fn lock(sh: &Shared) -> std::sync::MutexGuard<'_, Back> {
        sh.0.lock().unwrap_or_else(|e| e.into_inner())
    }

    fn back_enter(sh: &Shared, tag: &str, path: &str, fields: usize, size: usize) {
        let mut b = lock(sh);
        b.seen.push((tag.to_owned(), path.to_owned(), fields, size));
        let n = {
            let e = b.inflight.entry(tag.to_owned()).or_insert(0);
            *e += 1;
            *e
        };
        let m = b.max_inflight.entry(tag.to_owned()).or_insert(0);
        if n > *m {
            *m = n;
        }
        sh.1.notify_all();
    }

    fn back_leave(sh: &Shared, tag: &str) {
        let mut b = lock(sh);
        *b.inflight.entry(tag.to_owned()).or_insert(0) -= 1;
        sh.1.notify_all();
    }

    fn is_released(sh: &Shared, tok: &str) -> bool {
        let b = lock(sh);
        b.released.contains(tok) || b.released.contains("*")
    }

    fn release(sh: &Shared, tok: &str) {
        lock(sh).released.insert(tok.to_owned());
        sh.1.notify_all();
    }

    /// path "/<verb>/<token...>" -> (verb, token)
    fn split_path(path: &str) -> (String, String) {
        let mut it = path.trim_start_matches('/').splitn(2, '/');
        let verb = it.next().unwrap_or("").to_owned();
        let tok = it.next().unwrap_or("").to_owned();
        (verb, tok)
    }

    /// body of "/big/<n>/<tok>": the token repeated, so that octets of another stream are recognised
    fn big_body(tok: &str, n: usize) -> Vec<u8> {
        let pat = format!("{tok}|").into_bytes();
        (0..n).map(|i| pat[i % pat.len()]).collect()
    }

    fn h1_response(tok: &str, body_len: usize) -> Vec<u8> {
        let body = format!("{tok}:{body_len}");
        format!("HTTP/1.1 200 OK\r\nContent-Length: {}\r\nx-tok: {tok}\r\n\r\n{body}", body.len()).into_bytes()
    }

    fn h1_backend(addr: SocketAddr, sh: Shared) -> std::io::Result<BackendServer> {
        BackendServer::start(addr, IoProgram::fast(), move |mut s: TcpStream, _| {
            let _ = s.set_read_timeout(Some(Duration::from_millis(10)));
            let mut p = h1::Parser::new(h1::Kind::Request, false);
            p.max_head = 1 << 21;
            let mut buf = vec![0u8; 65_536];
            // the request being received / waiting for its release: (tag, verb, token, body bytes, complete, since)
            let mut cur: Option<(String, String, String, usize, bool, Instant)> = None;
            let born = Instant::now();
            lock(&sh).handlers_started += 1;
            let mut read_any = false;
            'conn: loop {
                if let Some((tag, verb, tok, n, true, since)) = &cur {
                    if verb == "big" {
                        let (size, t) = tok.split_once('/').unwrap_or(("0", tok.as_str()));
                        let size: usize = size.parse().unwrap_or(0);
                        let _ = s.set_write_timeout(Some(Duration::from_secs(8)));
                        let _ = s.write_all(format!("HTTP/1.1 200 OK\r\nContent-Length: {size}\r\n\r\n").as_bytes()).and_then(|_| s.write_all(&big_body(t, size)));
                        back_leave(&sh, tag);
                        cur = None;
                    } else if verb != "hold" || is_released(&sh, tok) || since.elapsed() > HOLD_MAX {
                        let _ = s.write_all(&h1_response(tok, *n));
                        back_leave(&sh, tag);
                        cur = None;
                    }
                }
                if born.elapsed() > Duration::from_secs(120) {
                    if !read_any {
                        lock(&sh).closed_unread += 1;
                    }
                    break;
                }
                let n = match s.read(&mut buf) {
                    Ok(0) => break,
                    Ok(n) => {
                        read_any = true;
                        n
                    }
                    Err(e) if matches!(e.kind(), std::io::ErrorKind::WouldBlock | std::io::ErrorKind::TimedOut | std::io::ErrorKind::Interrupted) => continue,
                    Err(_) => break,
                };
                let Ok(events) = p.feed(&buf[..n]) else { break };
                for e in events {
                    match e {
                        h1::Event::Head(h) => {
                            let tag = h.header_str("x-c15").unwrap_or_default();
                            let (verb, tok) = split_path(&h.second);
                            let size: usize = h.headers.iter().map(|(n, v)| n.len() + v.len() + 32).sum();
                            back_enter(&sh, &tag, &h.second, h.headers.len(), size);
                            if cur.is_some() {
                                break 'conn; // pipelining is never used by sozu
                            }
                            if verb == "early" || verb == "earlyhold" {
                                // answer before the request body is there, then close
                                let body = format!("{tok}:early");
                                let _ = s.write_all(format!("HTTP/1.1 200 OK\r\nContent-Length: {}\r\nConnection: close\r\n\r\n{body}", body.len()).as_bytes());
                                back_leave(&sh, &tag);
                                if verb == "earlyhold" {
                                    // ... but only when the scenario says so (it may end the
                                    // connection itself through the second handle)
                                    if let Ok(c) = s.try_clone() {
                                        lock(&sh).early_socks.insert(tok.clone(), c);
                                        sh.1.notify_all();
                                    }
                                    let t = Instant::now();
                                    while !is_released(&sh, &tok) && t.elapsed() < Duration::from_secs(8) {
                                        std::thread::sleep(Duration::from_millis(1));
                                    }
                                }
                                break 'conn;
                            }
                            cur = Some((tag, verb, tok, 0, false, Instant::now()));
                        }
                        h1::Event::Body(b) => {
                            if let Some(c) = cur.as_mut() {
                                c.3 += b.len();
                            }
                        }
                        h1::Event::End(_) => {
                            if let Some(c) = cur.as_mut() {
                                c.4 = true;
                                c.5 = Instant::now();
                            }
                        }
                    }
                }
            }
            if let Some((tag, ..)) = &cur {
                back_leave(&sh, tag);
            }
        })
    }

    /// what the hostile backend is asked to do: path "/hb/<kind>/<token>"
    pub(super) const HB_KINDS: [&str; 24] = [
        "data_on_stream_0",
        "headers_even_stream",
        "headers_idle_stream",
        "push_promise",
        "wu_overflow_conn",
        "wu_overflow_stream",
        "wu_zero_conn",
        "wu_zero_stream",
        "oversize_data",
        "bad_hpack",
        "no_status",
        "rst_then_data",
        "ping_nonzero_stream",
        "settings_bad_length",
        "rst_stream_0",
        "rst_bad_length",
        "ping_bad_length",
        "goaway_short",
        "unknown_frame",
        "goaway_mid_response",
        "settings_flood",
        "ping_flood",
        "continuation_flood",
        "data_beyond_window",
    ];

    fn resp_block(status: &str) -> Vec<u8> {
        let mut e = h2::HpackEncoder::new();
        e.mode = HpackMode::LiteralOnly;
        e.encode(&[(b":status".to_vec(), status.as_bytes().to_vec()), (b"x-peer".to_vec(), b"h2c".to_vec())])
    }

    /// judge sozu's reaction (as an HTTP/2 client) to a hostile frame sequence sent by the backend
    #[allow(clippy::too_many_arguments)]
    fn hostile_backend(p: &mut Peer<TcpStream>, kind: &str, mult_half: u32, sid: u32, req_ended: bool, kn: &Knobs, sh: &Shared, tok: &str) {
        let mut sink = Sink::default();
        let mut m = Model::new(false);
        m.max_frame = p.c.peer_settings.max_frame_size;
        m.highest = p.c.highest_remote_stream.max(sid);
        m.push_disabled_acked = p.c.peer_settings.enable_push == 0 && p.c.peer_settings_frames > 0;
        for (s, st) in &p.c.streams {
            if *s != sid {
                m.set(*s, if st.closed() { SS::Unknown } else { SS::Unknown });
            }
        }
        m.set(sid, if req_ended { SS::SendClosed } else { SS::Open });
        m.stream_window.insert(sid, p.c.streams.get(&sid).map(|s| s.send_window).unwrap_or(65_535));
        m.conn_window = p.c.conn_send_window;
        // the client side of these workloads sends no request body before the behaviour is over
        m.windows_exact = true;

        let ok_headers = || {
            let mut f = Fr::new(h2::FT_HEADERS, h2::FL_END_HEADERS, sid, resp_block("200"));
            f.block = Block::Response;
            f
        };
        let mut frs: Vec<Fr> = Vec::new();
        // flood kinds: (counter threshold, frames)
        let mut flood: Option<(&'static str, u32)> = None;
        match kind {
            "data_on_stream_0" => frs.push(Fr::new(h2::FT_DATA, 0, 0, b"zero".to_vec())),
            "headers_even_stream" => {
                let mut f = Fr::new(h2::FT_HEADERS, h2::FL_END_HEADERS | h2::FL_END_STREAM, 2, resp_block("200"));
                f.block = Block::Response;
                frs.push(f);
            }
            "headers_idle_stream" => {
                let mut f = Fr::new(h2::FT_HEADERS, h2::FL_END_HEADERS | h2::FL_END_STREAM, m.highest + 200, resp_block("200"));
                f.block = Block::Response;
                frs.push(f);
            }
            "push_promise" => {
                let mut payload = 2u32.to_be_bytes().to_vec();
                let mut e = h2::HpackEncoder::new();
                e.mode = HpackMode::LiteralOnly;
                payload.extend(e.encode(&h2::request_headers("GET", "http", H2_HOST, "/pushed", &[])));
                frs.push(Fr::new(h2::FT_PUSH_PROMISE, h2::FL_END_HEADERS, sid, payload));
            }
            "wu_overflow_conn" => frs.push(Fr::new(h2::FT_WINDOW_UPDATE, 0, 0, 0x7fff_ffffu32.to_be_bytes().to_vec())),
            "wu_overflow_stream" => frs.push(Fr::new(h2::FT_WINDOW_UPDATE, 0, sid, 0x7fff_ffffu32.to_be_bytes().to_vec())),
            "wu_zero_conn" => frs.push(Fr::new(h2::FT_WINDOW_UPDATE, 0, 0, 0u32.to_be_bytes().to_vec())),
            "wu_zero_stream" => frs.push(Fr::new(h2::FT_WINDOW_UPDATE, 0, sid, 0u32.to_be_bytes().to_vec())),
            "oversize_data" => {
                frs.push(ok_headers());
                frs.push(Fr::new(h2::FT_DATA, 0, sid, vec![b'x'; m.max_frame as usize + 1]));
            }
            "bad_hpack" => {
                let mut f = Fr::new(h2::FT_HEADERS, h2::FL_END_HEADERS, sid, vec![0x80, 0x80, 0x80]);
                f.block = Block::Garbage;
                frs.push(f);
            }
            "no_status" => {
                let mut e = h2::HpackEncoder::new();
                e.mode = HpackMode::LiteralOnly;
                let block = e.encode(&[(b"x-no-status".to_vec(), b"1".to_vec())]);
                let mut f = Fr::new(h2::FT_HEADERS, h2::FL_END_HEADERS, sid, block);
                f.block = Block::MalformedResponse;
                frs.push(f);
            }
            "rst_then_data" => {
                frs.push(Fr::new(h2::FT_RST_STREAM, 0, sid, h2::ERR_CANCEL.to_be_bytes().to_vec()));
                frs.push(Fr::new(h2::FT_DATA, 0, sid, b"after-rst".to_vec()));
            }
            "ping_nonzero_stream" => frs.push(Fr::new(h2::FT_PING, 0, sid, vec![7; 8])),
            "settings_bad_length" => frs.push(Fr::new(h2::FT_SETTINGS, 0, 0, vec![0, 4, 0, 0, 1])),
            "rst_stream_0" => frs.push(Fr::new(h2::FT_RST_STREAM, 0, 0, h2::ERR_CANCEL.to_be_bytes().to_vec())),
            "rst_bad_length" => frs.push(Fr::new(h2::FT_RST_STREAM, 0, sid, vec![0, 0, 0, 8, 0])),
            "ping_bad_length" => frs.push(Fr::new(h2::FT_PING, 0, 0, vec![7; 7])),
            "goaway_short" => frs.push(Fr::new(h2::FT_GOAWAY, 0, 0, vec![0; 7])),
            "unknown_frame" => frs.push(Fr::new(0xee, 0xff, sid, b"whatever".to_vec())),
            "goaway_mid_response" => {
                frs.push(ok_headers());
                frs.push(Fr::new(h2::FT_DATA, 0, sid, b"partial".to_vec()));
                let mut g = sid.to_be_bytes().to_vec();
                g.extend(h2::ERR_INTERNAL_ERROR.to_be_bytes());
                frs.push(Fr::new(h2::FT_GOAWAY, 0, 0, g));
            }
            "settings_flood" => {
                let n = kn.settings * mult_half / 2;
                for _ in 0..n {
                    frs.push(Fr::new(h2::FT_SETTINGS, 0, 0, Vec::new()));
                }
                flood = Some(("settings", n + 1)); // + the handshake SETTINGS
            }
            "ping_flood" => {
                let n = kn.ping * mult_half / 2;
                for i in 0..n {
                    frs.push(Fr::new(h2::FT_PING, 0, 0, (i as u64).to_be_bytes().to_vec()));
                }
                flood = Some(("ping", n));
            }
            "continuation_flood" => {
                let n = kn.cont * mult_half / 2;
                let block = resp_block("200");
                let mut f = Fr::new(h2::FT_HEADERS, 0, sid, Vec::new());
                f.block = Block::Response;
                frs.push(f);
                for i in 0..n {
                    let last = i + 1 == n;
                    let mut c = Fr::new(h2::FT_CONTINUATION, if last { h2::FL_END_HEADERS } else { 0 }, sid, if last { block.clone() } else { Vec::new() });
                    c.block = Block::Response;
                    frs.push(c);
                }
                flood = Some(("continuation", n));
            }
            "data_beyond_window" => {
                frs.push(ok_headers());
                // sozu's advertised stream window towards us, plus one frame
                let w = p.c.peer_settings.initial_window_size as usize;
                let mut left = w + 16_384;
                while left > 0 {
                    let n = left.min(16_384);
                    frs.push(Fr::new(h2::FT_DATA, 0, sid, vec![b'w'; n]));
                    left -= n;
                }
            }
            _ => {}
        }

        // classification frame by frame (the first frame that is not valid decides)
        let mut decisive: Option<(Verdict, u32)> = None;
        if flood.is_none() {
            for f in &frs {
                let v = classify(&m, f);
                match v.label {
                    Label::Valid => apply_valid(&mut m, f),
                    _ => {
                        decisive = Some((v, f.sid));
                        break;
                    }
                }
            }
        }
        let kindk = kind.to_owned();
        sink.obs(&format!("back.injected/{kindk}"), 1);
        let started = Instant::now();
        let sent = p.send_frs(&frs);
        let (fid, ping) = p.ping_frame();
        let _ = sent && p.send_frs(&[ping]);
        let burst_fence = p.await_fence(fid, react_bound());
        // give a queued RST_STREAM the time of one more round trip
        if p.alive() {
            let _ = p.ping_fence(react_bound());
        }
        let witness = |p: &Peer<TcpStream>, expected: String, observed: String| {
            json!({"part": "b", "side": "h2c backend (sozu is the HTTP/2 client)", "backend_behaviour": kindk, "multiplier_x2": mult_half,
                   "expected": expected, "observed": observed, "trace": p.trace()})
        };
        let observed = |p: &Peer<TcpStream>| format!("goaway={:?} rst={:?} closed={:?}", p.o.goaway.map(|g| code_name(g.1)), p.o.rst.iter().map(|(s, c)| (*s, code_name(*c))).collect::<Vec<_>>(), p.o.closed);
        if let Some((what, n)) = flood {
            let thr = match what {
                "settings" => kn.settings,
                "ping" => kn.ping,
                _ => kn.cont,
            };
            let key = format!("back.flood/{what}/x{}", mult_half as f32 / 2.0);
            sink.obs(&key, 1);
            let tripped = p.o.goaway.is_some() || p.o.closed.is_some();
            if n * 2 <= thr {
                if tripped {
                    sink.violation(
                        &format!("h2hostile/back/flood/tripped_below_half_threshold/{what}"),
                        "sozu (as HTTP/2 client of a backend) ended the connection although the backend sent no more than half the configured flood threshold of well-formed frames",
                        witness(p, format!("{n} frames of kind {what} <= threshold {thr}/2: connection keeps working"), observed(p)),
                    );
                } else {
                    sink.obs("back.flood_below_threshold_tolerated", 1);
                }
            } else if n >= 2 * thr {
                if !tripped && started.elapsed() < Duration::from_millis(900) && burst_fence != Fence::Acked {
                    sink.inconclusive("backend flood: no GOAWAY and no acknowledgement of the PING behind the burst");
                } else if !tripped && started.elapsed() < Duration::from_millis(900) {
                    // the PING behind the burst was acknowledged: the whole burst was processed
                    sink.violation(
                        &format!("h2hostile/back/flood/not_stopped_at_twice_threshold/{what}"),
                        "a backend sent twice the configured flood threshold in one burst and sozu neither sent GOAWAY nor closed the backend connection",
                        witness(p, format!("{n} frames of kind {what} >= 2 x threshold {thr}: GOAWAY(ENHANCE_YOUR_CALM)/close"), observed(p)),
                    );
                } else if tripped {
                    sink.obs("back.flood_stopped", 1);
                    if let Some((_, code)) = p.o.goaway {
                        if code != E_CALM && code != E_PROTOCOL {
                            sink.violation(
                                &format!("h2hostile/back/flood/wrong_goaway_code/{what}"),
                                "the flood defence answered with a GOAWAY code that is neither ENHANCE_YOUR_CALM nor an RFC code of the abused rule",
                                witness(p, "GOAWAY(ENHANCE_YOUR_CALM)".into(), observed(p)),
                            );
                        }
                    }
                } else {
                    sink.inconclusive("backend flood burst took longer than the flood window");
                }
            } else {
                sink.obs("exempt:back.flood_at_threshold_not_judged", 1);
            }
        } else if let Some((v, vsid)) = decisive {
            judge_reaction(p, &v, vsid, "back", &mut sink, &witness);
        } else if !frs.is_empty() && kind == "unknown_frame" {
            // valid: must be ignored; the response that follows must get through (checked by the client side)
            sink.obs("back.judged/valid", 1);
            if p.o.goaway.is_some() || p.o.closed.is_some() {
                sink.violation(
                    "h2hostile/back/reaction/valid_frame_answered_with_error/unknown_frame_type_ignored",
                    "a frame of unknown type from the backend (RFC 9113 §5.5: MUST be ignored) made sozu end the backend connection",
                    witness(p, "ignored".into(), observed(p)),
                );
            }
        } else {
            sink.obs("exempt:back.either", 1);
        }
        // a normal answer for behaviours that leave the stream usable, so the client side sees an end
        if p.alive() && matches!(kind, "unknown_frame" | "settings_flood" | "ping_flood") && !p.o.rst.contains_key(&sid) {
            let _ = p.send_frs(&[ok_headers(), Fr::new(h2::FT_DATA, h2::FL_END_STREAM, sid, tok.as_bytes().to_vec())]);
        }
        if p.alive() && matches!(kind, "data_beyond_window" | "continuation_flood") && !p.o.rst.contains_key(&sid) {
            let _ = p.send_frs(&[Fr::new(h2::FT_DATA, h2::FL_END_STREAM, sid, tok.as_bytes().to_vec())]);
        }
        if kind == "goaway_mid_response" {
            // close without END_STREAM
            Transport::shutdown(&mut p.c.io);
        }
        let summary = json!({"kind": kind, "goaway": p.o.goaway.map(|g| code_name(g.1)), "closed": p.o.closed, "rst": p.o.rst.get(&sid).map(|c| code_name(*c))});
        let mut b = lock(sh);
        b.sink.absorb(sink);
        b.hb_done.insert(tok.to_owned(), summary);
        sh.1.notify_all();
    }

    /// compare what came back with the label; generic over client / backend role
    fn judge_reaction<S: Transport>(
        p: &mut Peer<S>,
        v: &Verdict,
        sid: u32,
        side: &str,
        sink: &mut Sink,
        witness: &dyn Fn(&Peer<S>, String, String) -> Value,
    ) {
        let observed = |p: &Peer<S>| {
            format!(
                "goaway={:?} rst_on_stream={:?} closed={:?}",
                p.o.goaway.map(|g| code_name(g.1)),
                p.o.rst.get(&sid).map(|c| code_name(*c)),
                p.o.closed
            )
        };
        let rule = v.rule;
        sink.obs(&format!("{side}.judged/{}", v.class()), 1);
        sink.obs(&format!("{side}.rule/{rule}"), 1);
        match &v.label {
            Label::Conn(codes) => {
                let expected = format!("connection error: GOAWAY with one of {:?}, then close", codes_names(codes));
                match p.o.goaway {
                    Some((_, code)) => {
                        sink.obs(&format!("{side}.reaction/goaway"), 1);
                        if !codes.contains(&code) {
                            sink.violation(
                                &format!("h2hostile/{side}/reaction/wrong_goaway_code/{rule}"),
                                "sozu answered a connection error with a GOAWAY whose error code is not the one RFC 9113 prescribes for the violated rule",
                                witness(p, expected.clone(), observed(p)),
                            );
                        }
                        let from = p.o.t_goaway.unwrap_or_else(Instant::now);
                        match p.await_close(from, close_bound()) {
                            Some(ms) => {
                                sink.obs(&format!("{side}.closed_after_goaway"), 1);
                                sink.max(&format!("{side}.close_after_goaway_ms"), ms);
                            }
                            None => sink.suspect(
                                &format!("h2hostile/{side}/not_closed_after_goaway"),
                                "after GOAWAY for a connection error sozu kept the socket open beyond the bound",
                                witness(p, format!("socket closed within {:?} of the GOAWAY", close_bound()), observed(p)),
                            ),
                        }
                    }
                    None if p.o.closed.is_some() => {
                        sink.obs(&format!("{side}.reaction/closed_without_goaway"), 1);
                        sink.violation(
                            &format!("h2hostile/{side}/reaction/connection_error_without_goaway/{rule}"),
                            "sozu closed the connection on a connection error without sending the GOAWAY the statement prescribes",
                            witness(p, expected, observed(p)),
                        );
                    }
                    None => {
                        // still open: was the frame swallowed?
                        match p.ping_fence(react_bound()) {
                            Fence::Acked => {
                                sink.obs(&format!("{side}.reaction/ignored"), 1);
                                sink.violation(
                                    &format!("h2hostile/{side}/reaction/connection_error_not_raised/{rule}"),
                                    "a frame that RFC 9113 makes a connection error was accepted or ignored: no GOAWAY, the connection keeps answering PING",
                                    witness(p, expected, observed(p)),
                                );
                            }
                            Fence::Dead => {
                                // the GOAWAY / close arrived late: judge the code only
                                if let Some((_, code)) = p.o.goaway {
                                    if !codes.contains(&code) {
                                        sink.violation(
                                            &format!("h2hostile/{side}/reaction/wrong_goaway_code/{rule}"),
                                            "sozu answered a connection error with a GOAWAY whose error code is not the one RFC 9113 prescribes for the violated rule",
                                            witness(p, expected, observed(p)),
                                        );
                                    }
                                } else {
                                    sink.inconclusive("late close without GOAWAY after a connection-error frame");
                                }
                            }
                            Fence::Silent => sink.inconclusive("no reaction and no PING ack after a connection-error frame"),
                        }
                    }
                }
            }
            Label::Stream(codes) => {
                let expected = format!(
                    "stream error: RST_STREAM on stream {sid} with one of {:?} and the connection keeps working (a GOAWAY with one of these codes is accepted: RFC 9113 §5.4.3)",
                    codes_names(codes)
                );
                if let Some((_, code)) = p.o.goaway {
                    if codes.contains(&code) {
                        sink.obs(&format!("exempt:{side}.stream_error_escalated_to_goaway"), 1);
                        let from = p.o.t_goaway.unwrap_or_else(Instant::now);
                        if p.await_close(from, close_bound()).is_none() {
                            sink.suspect(
                                &format!("h2hostile/{side}/not_closed_after_goaway"),
                                "after GOAWAY sozu kept the socket open beyond the bound",
                                witness(p, format!("socket closed within {:?} of the GOAWAY", close_bound()), observed(p)),
                            );
                        }
                    } else {
                        sink.violation(
                            &format!("h2hostile/{side}/reaction/wrong_goaway_code/{rule}"),
                            "sozu answered a stream error with a GOAWAY whose error code is not among those RFC 9113 allows for the violated rule",
                            witness(p, expected, observed(p)),
                        );
                    }
                } else if let Some(code) = p.o.rst.get(&sid).copied() {
                    sink.obs(&format!("{side}.reaction/rst_stream"), 1);
                    if !codes.contains(&code) {
                        sink.violation(
                            &format!("h2hostile/{side}/reaction/wrong_rst_stream_code/{rule}"),
                            "sozu answered a stream error with a RST_STREAM whose error code is not among those RFC 9113 allows for the violated rule",
                            witness(p, expected, observed(p)),
                        );
                    }
                } else if p.o.closed.is_some() {
                    sink.obs(&format!("{side}.reaction/closed_without_goaway"), 1);
                    sink.violation(
                        &format!("h2hostile/{side}/reaction/stream_error_closed_without_signal/{rule}"),
                        "sozu closed the connection on a stream error without RST_STREAM or GOAWAY",
                        witness(p, expected, observed(p)),
                    );
                } else {
                    // Neither signal so far. A PING sent now is processed after the frame (frames
                    // are processed in order, and what sozu queues for a frame goes out before the
                    // acknowledgement of a later PING): its acknowledgement without RST_STREAM,
                    // GOAWAY or close before it decides, whatever the clock says.
                    match p.ping_fence(react_bound()) {
                        Fence::Acked if !p.o.rst.contains_key(&sid) => {
                            sink.obs(&format!("{side}.reaction/ignored"), 1);
                            sink.violation(
                                &format!("h2hostile/{side}/reaction/stream_error_not_signalled/{rule}"),
                                "a frame that RFC 9113 makes a stream error got neither RST_STREAM nor GOAWAY although a PING sent after it was acknowledged",
                                witness(p, expected, observed(p)),
                            );
                        }
                        Fence::Acked => {
                            // the RST_STREAM came with this round trip
                            sink.obs(&format!("{side}.reaction/rst_stream"), 1);
                            let code = p.o.rst.get(&sid).copied().unwrap_or(0);
                            if !codes.contains(&code) {
                                sink.violation(
                                    &format!("h2hostile/{side}/reaction/wrong_rst_stream_code/{rule}"),
                                    "sozu answered a stream error with a RST_STREAM whose error code is not among those RFC 9113 allows for the violated rule",
                                    witness(p, expected, observed(p)),
                                );
                            }
                        }
                        Fence::Dead => sink.inconclusive("late GOAWAY or close after a stream-error frame"),
                        Fence::Silent => sink.inconclusive("no reaction and no PING ack after a stream-error frame"),
                    }
                }
            }
            Label::Valid => {
                if p.o.goaway.is_some() || p.o.closed.is_some() || (sid != 0 && p.o.rst.contains_key(&sid)) {
                    sink.violation(
                        &format!("h2hostile/{side}/reaction/valid_frame_answered_with_error/{rule}"),
                        "a frame RFC 9113 requires the receiver to accept or ignore was answered with an error",
                        witness(p, "accepted or ignored, connection keeps working".into(), observed(p)),
                    );
                } else {
                    sink.obs(&format!("{side}.reaction/accepted"), 1);
                }
            }
            Label::Either => {}
        }
    }

    /// The answer of a "/cross/..." stream. Its header block inserts an entry into the HPACK dynamic
    /// table (literal with incremental indexing): later answers on the connection refer to it.
    fn crossing_answer(sid: u32, shape: &str, tok: &str) -> Vec<Fr> {
        let mut block = resp_block("200");
        block.push(0x40);
        block.extend(h2::hpack_int(7, 7, 0));
        block.extend_from_slice(b"x-cross");
        block.extend(h2::hpack_int(tok.len(), 7, 0));
        block.extend_from_slice(tok.as_bytes());
        let body = format!("{tok}:crossed").into_bytes();
        let mut frs = Vec::new();
        match shape {
            "split" => {
                let cut = block.len() / 2;
                frs.push(Fr::new(h2::FT_HEADERS, 0, sid, block[..cut].to_vec()));
                frs.push(Fr::new(h2::FT_CONTINUATION, h2::FL_END_HEADERS, sid, block[cut..].to_vec()));
                frs.push(Fr::new(h2::FT_DATA, h2::FL_END_STREAM, sid, body));
            }
            "trailers" => {
                let mut e = h2::HpackEncoder::new();
                e.mode = HpackMode::LiteralOnly;
                let trailers = e.encode(&[(b"x-trailer".to_vec(), b"1".to_vec())]);
                frs.push(Fr::new(h2::FT_HEADERS, h2::FL_END_HEADERS, sid, block));
                frs.push(Fr::new(h2::FT_DATA, 0, sid, body));
                frs.push(Fr::new(h2::FT_HEADERS, h2::FL_END_HEADERS | h2::FL_END_STREAM, sid, trailers));
            }
            "noisy" => {
                frs.push(Fr::new(h2::FT_HEADERS, h2::FL_END_HEADERS, sid, block));
                frs.push(Fr::new(h2::FT_WINDOW_UPDATE, 0, sid, 10u32.to_be_bytes().to_vec()));
                frs.push(Fr::new(h2::FT_DATA, 0, sid, body));
                frs.push(Fr::new(h2::FT_RST_STREAM, 0, sid, h2::ERR_CANCEL.to_be_bytes().to_vec()));
            }
            _ => {
                frs.push(Fr::new(h2::FT_HEADERS, h2::FL_END_HEADERS, sid, block));
                frs.push(Fr::new(h2::FT_DATA, h2::FL_END_STREAM, sid, body));
            }
        }
        frs
    }

    fn h2c_backend(addr: SocketAddr, sh: Shared, kn: Knobs) -> std::io::Result<BackendServer> {
        BackendServer::start(addr, IoProgram::fast(), move |s: TcpStream, _| {
            let mut c = H2Conn::new(s, Role::Server);
            c.auto_ack = true;
            // windows are given back in large steps (see the loop): one WINDOW_UPDATE per DATA
            // frame would trip the small WINDOW_UPDATE threshold of listener B on backend connections
            c.replenish = Replenish::Manual;
            c.read_timeout = Duration::from_secs(5);
            c.write_timeout = Duration::from_secs(5);
            lock(&sh).handlers_started += 1;
            if c.handshake_server(&[(h2::SET_MAX_CONCURRENT_STREAMS, 128)]).is_err() {
                // sozu's preface did not arrive (or sozu closed first): this side gives up
                lock(&sh).closed_unread += 1;
                return;
            }
            let mut p = Peer::new(c);
            // stream -> (tag, verb, token, body bytes, request complete, since)
            let mut reqs: BTreeMap<u32, (String, String, String, usize, bool, Instant)> = BTreeMap::new();
            let born = Instant::now();
            let mut done_reqs = 0usize;
            let mut hostile_done = false;
            // answers written across sozu's own RST_STREAM; entries they put into the HPACK table
            let mut crossed = 0u32;
            let mut dyn_entries = 0u32;
            loop {
                if p.o.closed.is_some() || born.elapsed() > Duration::from_secs(120) {
                    break;
                }
                let _ = p.pump(Duration::from_millis(10), &mut |_| false);
                if p.alive() {
                    let mut ups = Vec::new();
                    if p.c.conn_recv_window < 32_768 {
                        ups.push(Frame::window_update(0, (65_535 - p.c.conn_recv_window) as u32));
                    }
                    for (sid, st) in &p.c.streams {
                        if st.opened_by_remote && !st.remote_end && st.remote_rst.is_none() && st.local_rst.is_none() && st.recv_window < 16_384 {
                            ups.push(Frame::window_update(*sid, (65_535 - st.recv_window) as u32));
                        }
                    }
                    if !ups.is_empty() {
                        let _ = p.c.send_frames(&ups);
                    }
                }
                // new requests
                let fresh: Vec<(u32, HeaderList, bool)> = p.o.reqs.drain(..).collect();
                for (sid, headers, ended) in fresh {
                    if reqs.contains_key(&sid) {
                        continue; // trailers
                    }
                    let path = h2::header_str(&headers, ":path").unwrap_or_default();
                    let tag = h2::header_str(&headers, "x-c15").unwrap_or_default();
                    let size: usize = headers.iter().map(|(n, v)| n.len() + v.len() + 32).sum();
                    back_enter(&sh, &tag, &path, headers.len(), size);
                    let (verb, tok) = split_path(&path);
                    if verb == "hb" {
                        // "/hb/<kind>/<mult>/<token>"
                        let mut it = tok.splitn(3, '/');
                        let kind = it.next().unwrap_or("").to_owned();
                        let mult: u32 = it.next().and_then(|s| s.parse().ok()).unwrap_or(2);
                        let token = it.next().unwrap_or("").to_owned();
                        hostile_backend(&mut p, &kind, mult, sid, ended, &kn, &sh, &token);
                        hostile_done = true;
                        back_leave(&sh, &tag);
                        continue;
                    }
                    if verb == "cross" {
                        // "/cross/<mode>-<shape>/<token>": answered when released (like "hold") or,
                        // at the latest, the moment sozu's RST_STREAM for the stream is seen
                        let (how, token) = tok.split_once('/').unwrap_or(("after-plain", tok.as_str()));
                        reqs.insert(sid, (tag, format!("cross:{how}"), token.to_owned(), 0, ended, Instant::now()));
                        continue;
                    }
                    reqs.insert(sid, (tag, verb, tok, 0, ended, Instant::now()));
                }
                // request bodies that ended
                let ended: Vec<u32> = p.o.data_end.iter().copied().collect();
                for sid in ended {
                    p.o.data_end.remove(&sid);
                    if let Some(r) = reqs.get_mut(&sid) {
                        if !r.4 {
                            r.4 = true;
                            r.5 = Instant::now();
                        }
                        r.3 = p.o.resp.get(&sid).map(|x| x.body.len()).unwrap_or(0);
                    }
                }
                // streams sozu reset
                let gone: Vec<u32> = reqs.keys().copied().filter(|s| p.o.rst.contains_key(s)).collect();
                for sid in gone {
                    if let Some(r) = reqs.remove(&sid) {
                        if let Some(how) = r.1.strip_prefix("cross:") {
                            // the answer that was queued goes out although the RST_STREAM has just
                            // been read: for sozu it cannot be told from one written just before
                            let frs = crossing_answer(sid, how.rsplit('-').next().unwrap_or("plain"), &r.2);
                            let _ = p.send_frs(&frs);
                            dyn_entries += 1;
                            crossed += 1;
                            lock(&sh).sink.obs("back.answers_written_across_sozu_rst_stream", 1);
                        }
                        back_leave(&sh, &r.0);
                    }
                }
                // answers
                let ready: Vec<u32> = reqs
                    .iter()
                    .filter(|(_, r)| r.4 && ((r.1 != "hold" && !r.1.starts_with("cross:")) || is_released(&sh, &r.2) || r.5.elapsed() > HOLD_MAX))
                    .map(|(s, _)| *s)
                    .collect();
                for sid in ready {
                    if let Some(r) = reqs.remove(&sid) {
                        if let Some(how) = r.1.strip_prefix("cross:") {
                            // released by the client at the moment it resets the stream: a real race
                            let frs = crossing_answer(sid, how.rsplit('-').next().unwrap_or("plain"), &r.2);
                            let _ = p.send_frs(&frs);
                            dyn_entries += 1;
                            crossed += 1;
                            lock(&sh).sink.obs("back.answers_written_while_sozu_resets_the_stream", 1);
                            back_leave(&sh, &r.0);
                            continue;
                        }
                        let body = format!("{}:{}", r.2, r.3);
                        let mut block = resp_block("200");
                        if dyn_entries > 0 {
                            // the entry a crossing answer put into the HPACK dynamic table: sozu has it
                            // only if it decoded that header block
                            block.push(0x80 | 62);
                        }
                        let mut h = Fr::new(h2::FT_HEADERS, h2::FL_END_HEADERS, sid, block);
                        h.block = Block::Response;
                        let _ = p.send_frs(&[h, Fr::new(h2::FT_DATA, h2::FL_END_STREAM, sid, body.into_bytes())]);
                        back_leave(&sh, &r.0);
                        done_reqs += 1;
                    }
                }
            }
            let _ = done_reqs;
            for (_, r) in reqs {
                back_leave(&sh, &r.0);
            }
            // this connection never left the protocol (hostile behaviours end in `hostile_backend`,
            // which marks the connection): a connection error from sozu is unprovoked
            if !hostile_done {
                if let Some((_, code)) = p.o.goaway {
                    let mut b = lock(&sh);
                    b.sink.obs(&format!("back.goaway_on_well_behaved_connection/{}", code_name(code)), 1);
                    if code != h2::ERR_NO_ERROR && code != E_CALM {
                        let crossing: Vec<u32> = p.o.rst.keys().copied().collect();
                        b.sink.violation(
                            if crossed > 0 { "h2hostile/back/answer_crossing_own_rst_stream_kills_connection" } else { "h2hostile/back/well_behaved_backend_connection_killed" },
                            "sozu (as HTTP/2 client) answered a backend that never left the protocol with a connection error; frames that cross sozu's own RST_STREAM must be tolerated (RFC 9113 §5.1)",
                            json!({"part": "b", "side": "h2c backend (sozu is the HTTP/2 client)", "expected": "no connection error",
                                "observed": format!("GOAWAY({}); streams sozu had reset on this connection: {crossing:?}", code_name(code)), "trace": p.trace()}),
                        );
                    }
                }
            }
        })
    }

    // ------------------------------------------------------------------------------------------
    // the cell: worker + backends + probe connection, and the universal oracles
    // ------------------------------------------------------------------------------------------

    fn thread_tid(name: &str) -> Option<i32> {
        let want: String = name.chars().take(15).collect();
        for e in std::fs::read_dir("/proc/self/task").ok()?.flatten() {
            let comm = std::fs::read_to_string(e.path().join("comm")).unwrap_or_default();
            if comm.trim_end() == want {
                return e.file_name().to_string_lossy().parse().ok();
            }
        }
        None
    }

    /// CPU time (user + system, ms) consumed so far by a thread of this process
    fn thread_cpu_ms(tid: i32) -> Option<u64> {
        let s = std::fs::read_to_string(format!("/proc/self/task/{tid}/stat")).ok()?;
        let rest = &s[s.rfind(')')? + 1..];
        let f: Vec<&str> = rest.split_whitespace().collect();
        let ut: u64 = f.get(11)?.parse().ok()?;
        let st: u64 = f.get(12)?.parse().ok()?;
        Some((ut + st) * 10)
    }

    #[derive(Clone, Copy, Debug, PartialEq, Eq)]
    struct Foot {
        nb: usize,
        slab: usize,
        pool: usize,
    }

    impl Foot {
        fn above(&self, base: &Foot) -> bool {
            self.nb > base.nb || self.slab > base.slab || self.pool > base.pool
        }
    }

    pub(super) struct Cell {
        idx: u64,
        w: Worker,
        a: SocketAddr,
        b: SocketAddr,
        sh: Shared,
        backs: Vec<BackendServer>,
        probe: Option<Client>,
        probe_sid: u32,
        probe_used: Instant,
        tid: Option<i32>,
        tags: u64,
        dead: bool,
        /// trace of the last hostile connection (for witnesses of the universal oracles)
        last_trace: Value,
        /// how the last hostile connection ended (names the class of a release failure)
        last_end: &'static str,
        /// sozu's and the backends' counters at the last premise check
        health: Health,
        /// the premise broke: the next scenario waits until the clusters answer again
        blackout: bool,
        /// the clusters did not come back: no further scenario on this cell
        abandoned: bool,
    }

    /// see `Cell::health_now`
    #[derive(Clone, Debug, Default)]
    pub(super) struct Health {
        conn_errors: BTreeMap<String, i64>,
        answers_5xx: BTreeMap<String, i64>,
        accepted: u64,
        started: u64,
        closed_unread: u64,
    }

    /// what happened to the premise "the scripted backends are reachable and sozu uses them" during
    /// one scenario
    #[derive(Clone, Debug, Default)]
    pub(super) struct Premise {
        /// reasons; empty: the premise held
        broken: Vec<String>,
        /// (cluster, connection errors sozu counted)
        conn_errors: Vec<(String, i64)>,
        /// connections the scripted backends themselves gave up before reading anything
        closed_unread: u64,
        now: Health,
    }

    #[derive(Clone, Debug)]
    pub(super) struct Spec {
        seed: u64,
        cell: u64,
        j: u64,
        family: &'static str,
        isolated: bool,
    }

    impl Spec {
        fn rng(&self) -> Rng {
            Rng::for_case(self.seed, 0xC15B, self.cell * 4096 + self.j)
        }
        fn json(&self) -> Value {
            json!({"part": "b", "case": self.cell, "seed": self.seed, "scenario": self.j, "family": self.family, "isolated_rerun": self.isolated})
        }
    }

    fn with(base: &Value, extra: Value) -> Value {
        let mut b = base.clone();
        if let (Some(m), Some(e)) = (b.as_object_mut(), extra.as_object()) {
            for (k, v) in e {
                m.insert(k.clone(), v.clone());
            }
        }
        b
    }

    impl Cell {
        fn start(idx: u64) -> Result<Cell, String> {
            let ip = lab::fresh_ip();
            let a = lab::sa(ip, 8443);
            let b = lab::sa(ip, 8444);
            let back1 = lab::sa(ip, 9000);
            let back2 = lab::sa(ip, 9001);
            let back3 = lab::sa(ip, 9002);
            let sh: Shared = Arc::new((Mutex::new(Back::default()), Condvar::new()));
            let b1 = h1_backend(back1, sh.clone()).map_err(|e| format!("h1 backend: {e}"))?;
            let b2 = h2c_backend(back2, sh.clone(), SMALL).map_err(|e| format!("h2c backend: {e}"))?;
            let b3 = h2c_backend(back3, sh.clone(), SMALL).map_err(|e| format!("h2c backend: {e}"))?;
            let opts = WorkerOpts { front_timeout: 60, back_timeout: 60, request_timeout: 60, connect_timeout: 3, ..WorkerOpts::default() };
            let mut w = Worker::start(opts);
            let cert = std::fs::read_to_string("/repo/lib/assets/certificate.pem").unwrap_or_default();
            let key = std::fs::read_to_string("/repo/lib/assets/key.pem").unwrap_or_default();
            let common = |l: &mut sozu_command_lib::config::ListenerBuilder| {
                l.front_timeout = Some(60);
                l.back_timeout = Some(60);
                l.request_timeout = Some(60);
                l.connect_timeout = Some(3);
                l.strict_sni_binding = Some(false);
                l.h2_graceful_shutdown_deadline_seconds = Some(2);
                l.h2_stream_shrink_ratio = Some(2);
            };
            let k = SMALL;
            let ok = w.add_https_listener(a, |l| common(l))
                && w.add_https_listener(b, |l| {
                    common(l);
                    l.h2_max_rst_stream_per_window = Some(k.rst);
                    l.h2_max_ping_per_window = Some(k.ping);
                    l.h2_max_settings_per_window = Some(k.settings);
                    l.h2_max_empty_data_per_window = Some(k.empty);
                    l.h2_max_window_update_stream0_per_window = Some(k.wu0);
                    l.h2_max_continuation_frames = Some(k.cont);
                    l.h2_max_glitch_count = Some(k.glitch);
                    l.h2_max_rst_stream_abusive_lifetime = Some(k.abusive);
                    l.h2_max_rst_stream_emitted_lifetime = Some(k.emitted);
                    l.h2_max_concurrent_streams = Some(k.mcs);
                })
                && w.add_cluster(Cluster { cluster_id: "h1".into(), ..Default::default() })
                && w.add_cluster(Cluster { cluster_id: "h2".into(), http2: Some(true), ..Default::default() })
                && w.add_cluster(Cluster { cluster_id: "h2ok".into(), http2: Some(true), ..Default::default() })
                && w.add_https_frontend(Worker::http_frontend("h2ok", a, H2OK_HOST, "/"))
                && w.add_https_frontend(Worker::http_frontend("h2ok", b, H2OK_HOST, "/"))
                && w.add_backend("h2ok", "b3", back3)
                && w.add_https_frontend(Worker::http_frontend("h1", a, H1_HOST, "/"))
                && w.add_https_frontend(Worker::http_frontend("h2", a, H2_HOST, "/"))
                && w.add_https_frontend(Worker::http_frontend("h1", b, H1_HOST, "/"))
                && w.add_https_frontend(Worker::http_frontend("h2", b, H2_HOST, "/"))
                && w.add_backend("h1", "b1", back1)
                && w.add_backend("h2", "b2", back2)
                && w.add_certificate(a, &cert, vec![], &key, vec![H1_HOST.into(), H2_HOST.into(), H2OK_HOST.into()])
                && w.add_certificate(b, &cert, vec![], &key, vec![H1_HOST.into(), H2_HOST.into(), H2OK_HOST.into()]);
            if !ok {
                w.stop();
                return Err("sozu refused the cell configuration".into());
            }
            let tid = thread_tid(&w.name);
            Ok(Cell { idx, w, a, b, sh, backs: vec![b1, b2, b3], probe: None, probe_sid: 1, probe_used: Instant::now(), tid, tags: 0, dead: false, last_trace: Value::Null, last_end: "harness_closed_first", health: Health::default(), blackout: false, abandoned: false })
        }

        fn stop(mut self) -> Vec<crate::common::PanicRec> {
            self.probe = None;
            lock(&self.sh).released.insert("*".into());
            let p = self.w.stop();
            for b in self.backs.iter_mut() {
                b.stop();
            }
            p
        }

        fn tag(&mut self) -> String {
            self.tags += 1;
            format!("c{}t{}", self.idx, self.tags)
        }

        fn cpu(&self) -> u64 {
            self.tid.and_then(thread_cpu_ms).unwrap_or(0)
        }

        /// Status round trip; a miss of the bound is a suspect, not a verdict
        fn status(&mut self, sink: &mut Sink, when: &str, base: &Value) {
            if self.dead {
                return;
            }
            let cpu0 = self.cpu();
            let t = Instant::now();
            let id = match self.w.send(RequestType::Status(Status {})) {
                Ok(id) => id,
                Err(e) => {
                    sink.inconclusive(&format!("command channel write: {e}"));
                    return;
                }
            };
            let first = self.w.wait_final(&id, status_bound());
            let answered = match first {
                Ok(r) => r.status == ResponseStatus::Ok as i32,
                Err(_) => false,
            };
            if answered {
                let ms = t.elapsed().as_millis() as u64;
                sink.obs(&format!("status_probes_answered/{when}"), 1);
                sink.max("status_latency_ms", ms);
                return;
            }
            if !self.w.is_running() {
                self.dead = true;
                return; // the panic check reports it
            }
            let late = self.w.wait_final(&id, status_give_up()).is_ok();
            let wall = t.elapsed().as_millis() as u64;
            let cpu = self.cpu().saturating_sub(cpu0);
            sink.max("status_latency_ms", wall);
            let w = with(base, json!({"when": when, "expected": format!("Status answered within {:?}", status_bound()),
                "observed": format!("answered_late={late} after {wall} ms; worker thread consumed {cpu} ms CPU meanwhile")}));
            if !late {
                self.dead = true;
                sink.suspect("h2hostile/event_loop_wedged", "the worker did not answer a Status command while/after handling a hostile HTTP/2 peer", w);
            } else if cpu * 2 >= wall {
                sink.suspect("h2hostile/event_loop_wedged", "the worker was busy on its event loop for longer than the bound before answering a Status command", w);
            } else {
                sink.obs("status_probes_slow_machine_starved", 1);
            }
        }

        /// the well-behaved connection kept open in parallel, plus (optionally) a fresh one
        fn probe_check(&mut self, sink: &mut Sink, when: &str, fresh: bool, base: &Value) {
            if self.dead {
                return;
            }
            if self.probe_used.elapsed() > Duration::from_secs(30) {
                // idle for long (the worker closes idle connections after front_timeout): start afresh
                self.probe = None;
            }
            self.probe_used = Instant::now();
            for attempt in 0..2 {
                if self.probe.is_none() {
                    match open_client(self.a, H1_HOST, true, IoProgram::fast()) {
                        Ok(c) => {
                            self.probe = Some(c);
                            self.probe_sid = 1;
                        }
                        Err(e) => {
                            sink.suspect(
                                "h2hostile/fresh_connection_not_served",
                                "a new well-behaved HTTP/2 connection could not be established while/after a hostile peer was handled",
                                with(base, json!({"when": when, "expected": "TLS + SETTINGS exchange", "observed": e})),
                            );
                            return;
                        }
                    }
                }
                let sid = self.probe_sid;
                self.probe_sid += 2;
                let tok = format!("probe{}-{}", self.idx, sid);
                let p = self.probe.as_mut().expect("probe");
                let t = Instant::now();
                let r = simple_get(p, sid, H1_HOST, &format!("/ok/{tok}"), "probe", status_give_up());
                let ms = t.elapsed().as_millis() as u64;
                match r {
                    Ok((200, body)) if body.starts_with(tok.as_bytes()) => {
                        sink.obs(&format!("probe_requests_served/{when}"), 1);
                        sink.max("probe_latency_ms", ms);
                        break;
                    }
                    other => {
                        let trace = p.trace();
                        self.probe = None;
                        if attempt == 0 && self.probe_sid > 3 {
                            // an established, idle, well-behaved connection was harmed
                            sink.suspect(
                                "h2hostile/probe_connection_not_served",
                                "the concurrent well-behaved HTTP/2 connection was no longer served while/after a hostile peer was handled",
                                with(base, json!({"when": when, "expected": "200 with the echoed token", "observed": format!("{other:?} after {ms} ms"), "trace": trace})),
                            );
                        } else {
                            sink.suspect(
                                "h2hostile/fresh_connection_not_served",
                                "a new well-behaved HTTP/2 connection was not served while/after a hostile peer was handled",
                                with(base, json!({"when": when, "expected": "200 with the echoed token", "observed": format!("{other:?} after {ms} ms"), "trace": trace})),
                            );
                            return;
                        }
                    }
                }
            }
            if fresh {
                match open_client(self.a, H1_HOST, true, IoProgram::fast()) {
                    Ok(mut c) => {
                        let tok = format!("fresh{}-{}", self.idx, self.probe_sid);
                        match simple_get(&mut c, 1, H1_HOST, &format!("/ok/{tok}"), "probe", status_give_up()) {
                            Ok((200, body)) if body.starts_with(tok.as_bytes()) => sink.obs("fresh_connections_served", 1),
                            other => sink.suspect(
                                "h2hostile/fresh_connection_not_served",
                                "a new well-behaved HTTP/2 connection was not served after a hostile peer was handled",
                                with(base, json!({"when": when, "expected": "200 with the echoed token", "observed": format!("{other:?}"), "trace": c.trace()})),
                            ),
                        }
                        let _ = c.send_frs(&[Fr::new(h2::FT_GOAWAY, 0, 0, vec![0; 8])]);
                    }
                    Err(e) => sink.suspect(
                        "h2hostile/fresh_connection_not_served",
                        "a new well-behaved HTTP/2 connection could not be established after a hostile peer was handled",
                        with(base, json!({"when": when, "expected": "TLS + SETTINGS exchange", "observed": e})),
                    ),
                }
            }
        }

        /// Premise of every verdict that needs a reachable backend: what sozu itself counted
        /// (connection errors towards its backends, default 5xx answers on the clusters whose
        /// backends never leave the protocol) next to the scripted backends' own account.
        /// None: the metrics query was not answered.
        fn health_now(&mut self) -> Option<Health> {
            use sozu_command_lib::proto::command::{QueryMetricsOptions, ResponseContent, filtered_metrics::Inner, response_content::ContentType};
            let r = self
                .w
                .call(
                    RequestType::QueryMetrics(QueryMetricsOptions { list: false, cluster_ids: vec![], backend_ids: vec![], metric_names: vec![], no_clusters: false, workers: false }),
                    status_give_up(),
                )
                .ok()?;
            let Some(ResponseContent { content_type: Some(ContentType::WorkerMetrics(m)) }) = r.content else { return None };
            let mut h = Health::default();
            let count = |v: &sozu_command_lib::proto::command::FilteredMetrics| match v.inner.as_ref() {
                Some(Inner::Count(c)) => *c,
                Some(Inner::Gauge(g)) => *g as i64,
                _ => 0,
            };
            for (c, cm) in &m.clusters {
                for (k, v) in &cm.cluster {
                    if k == "backend.connections.error" {
                        h.conn_errors.insert(c.clone(), count(v));
                    } else if (c == "h1" || c == "h2ok") && matches!(k.as_str(), "http.status.502" | "http.status.503" | "http.status.504") {
                        h.answers_5xx.insert(format!("{}_on_{c}", k.trim_start_matches("http.status.")), count(v));
                    }
                }
            }
            h.accepted = self.backs.iter().map(|b| b.accepted.load(Ordering::SeqCst) as u64).sum();
            let g = lock(&self.sh);
            h.started = g.handlers_started;
            h.closed_unread = g.closed_unread;
            Some(h)
        }

        /// what changed since the last look; remembers the new state
        fn premise(&mut self) -> Premise {
            let Some(now) = self.health_now() else {
                return Premise { broken: vec!["metrics_query_not_answered".into()], ..Premise::default() };
            };
            let mut p = Premise::default();
            for (c, n) in &now.conn_errors {
                let d = n - self.health.conn_errors.get(c).copied().unwrap_or(0);
                if d > 0 {
                    p.conn_errors.push((c.clone(), d));
                    p.broken.push(format!("sozu_counted_backend_connection_error/{c}"));
                }
            }
            for (k, n) in &now.answers_5xx {
                let d = n - self.health.answers_5xx.get(k).copied().unwrap_or(0);
                if d > 0 {
                    p.broken.push(format!("sozu_answered_{k}"));
                }
            }
            p.closed_unread = now.closed_unread - self.health.closed_unread.min(now.closed_unread);
            p.now = now.clone();
            self.health = now;
            p
        }

        /// after a broken premise: wait until both well-behaved clusters answer 200 again (sozu's
        /// retry policy keeps a backend it counted as failed out of rotation for 1 s and more)
        fn recover(&mut self) -> bool {
            let t = Instant::now();
            let bound = paced(Duration::from_secs(10));
            let mut n = 0u32;
            loop {
                n += 1;
                let mut ok = 0;
                if let Ok(mut c) = open_client(self.a, H1_HOST, true, IoProgram::fast()) {
                    for (sid, host) in [(1u32, H1_HOST), (3u32, H2OK_HOST)] {
                        let tok = format!("ctl{}-{n}-{sid}", self.idx);
                        if matches!(simple_get(&mut c, sid, host, &format!("/ok/{tok}"), "ctl", react_bound()), Ok((200, ref b)) if b.starts_with(tok.as_bytes())) {
                            ok += 1;
                        } else {
                            break;
                        }
                    }
                    let _ = c.send_frs(&[Fr::new(h2::FT_GOAWAY, 0, 0, vec![0; 8])]);
                }
                if ok == 2 {
                    break;
                }
                if t.elapsed() > bound || !self.w.is_running() {
                    return false;
                }
                std::thread::sleep(Duration::from_millis(100));
            }
            // the probe connection may have been drained by sozu after a default answer: it is
            // exercised (and opened again if need be) now, so that it belongs to the next baseline
            let mut scratch = Sink::default();
            self.probe_check(&mut scratch, "control", false, &Value::Null);
            // what the control requests themselves were answered with is not news
            let _ = self.premise();
            self.blackout = false;
            true
        }

        fn foot(&self) -> Foot {
            let s = self.w.probe.snapshot();
            Foot { nb: s.nb_connections, slab: s.slab_len, pool: s.pool_used }
        }

        fn wake(&mut self) {
            let _ = self.w.call(RequestType::Status(Status {}), Duration::from_secs(3));
        }

        /// footprint at quiescence: stable over consecutive loop iterations
        fn settle(&mut self) -> Foot {
            let mut last = self.foot();
            let mut same = 0;
            let t = Instant::now();
            while same < 3 && t.elapsed() < Duration::from_millis(1500) {
                self.wake();
                std::thread::sleep(Duration::from_millis(8));
                let f = self.foot();
                if f == last {
                    same += 1;
                } else {
                    same = 0;
                    last = f;
                }
            }
            last
        }

        /// wait until the footprint is back at (or below) the baseline
        fn await_release(&mut self, base: &Foot, bound: Duration) -> Result<u64, Foot> {
            let t = Instant::now();
            loop {
                self.wake();
                let f = self.foot();
                if !f.above(base) {
                    return Ok(t.elapsed().as_millis() as u64);
                }
                if t.elapsed() > bound {
                    return Err(f);
                }
                std::thread::sleep(Duration::from_millis(15));
            }
        }

        /// panics of the worker thread so far
        fn check_panics(&mut self, sink: &mut Sink, base: &Value) {
            let ps = self.w.panics();
            for p in ps {
                self.dead = true;
                if p.in_sozu() {
                    sink.violation(
                        &format!("h2hostile/{}", p.signature()),
                        &format!("the worker thread panicked while handling a hostile HTTP/2 peer: {} at {}", p.message, p.location),
                        with(base, json!({"expected": "no panic", "observed": format!("panic: {} at {}", p.message, p.location)})),
                    );
                } else {
                    sink.inconclusive(&format!("worker thread panicked outside sozu: {} at {}", p.message, p.location));
                }
            }
            if !self.dead && !self.w.is_running() {
                self.dead = true;
                sink.violation(
                    "h2hostile/worker_thread_ended",
                    "the worker thread ended although nobody asked it to stop",
                    with(base, json!({"expected": "worker keeps running", "observed": "thread finished"})),
                );
            }
        }

        fn wait_backend_inflight(&self, tag: &str, at_least: i64, wait: Duration) -> i64 {
            let deadline = Instant::now() + wait;
            let mut g = lock(&self.sh);
            loop {
                let n = g.inflight.get(tag).copied().unwrap_or(0);
                if n >= at_least {
                    return n;
                }
                let left = deadline.saturating_duration_since(Instant::now());
                if left.is_zero() {
                    return n;
                }
                g = self.sh.1.wait_timeout(g, left.min(Duration::from_millis(50))).map(|r| r.0).unwrap_or_else(|e| e.into_inner().0);
            }
        }

        fn seen_path(&self, path: &str) -> bool {
            lock(&self.sh).seen.iter().any(|s| s.1 == path)
        }
    }

    // ------------------------------------------------------------------------------------------
    // workload: state-aware frame grid (type x flags x stream-id class x length class x payload)
    // ------------------------------------------------------------------------------------------

    const G_TYPES: [u8; 12] = [0, 1, 2, 3, 4, 5, 6, 7, 8, 9, 0x0b, 0xee];
    const G_SIDS: [&str; 9] = ["zero", "idle_next", "open", "half_closed", "closed_end", "closed_own_rst", "even", "idle_far", "max"];
    const G_LENS: [&str; 4] = ["natural", "zero", "wrong_size", "above_max"];
    const G_FLAGS: [&str; 3] = ["plain", "all_defined", "junk"];
    const GRID: u64 = (G_TYPES.len() * G_SIDS.len() * G_LENS.len() * G_FLAGS.len()) as u64;

    #[derive(Clone, Copy, Debug)]
    struct GridPoint {
        typ: u8,
        sidc: &'static str,
        lenc: &'static str,
        flagv: &'static str,
    }

    fn grid_point(i: u64) -> GridPoint {
        let mut x = i % GRID;
        let flagv = G_FLAGS[(x % G_FLAGS.len() as u64) as usize];
        x /= G_FLAGS.len() as u64;
        let lenc = G_LENS[(x % G_LENS.len() as u64) as usize];
        x /= G_LENS.len() as u64;
        let sidc = G_SIDS[(x % G_SIDS.len() as u64) as usize];
        x /= G_SIDS.len() as u64;
        GridPoint { typ: G_TYPES[x as usize], sidc, lenc, flagv }
    }

    struct Walk<'a> {
        p: Client,
        m: Model,
        tag: String,
        host: &'static str,
        toks: Vec<String>,
        at_once: bool,
        staged: Vec<Fr>,
        sh: &'a Shared,
        n: u64,
        /// connection-level credit granted by injected WINDOW_UPDATE frames (not seen by the ledger)
        injected_conn_credit: i64,
    }

    impl Walk<'_> {
        fn tok(&mut self) -> String {
            self.n += 1;
            let t = format!("{}-{}", self.tag, self.n);
            self.toks.push(t.clone());
            t
        }
        fn next_sid(&self) -> u32 {
            if self.m.highest == 0 { 1 } else { self.m.highest + 2 }
        }
        /// send (or stage) frames the classifier must call valid; false when the connection is gone
        fn send_valid(&mut self, frs: Vec<Fr>, sink: &mut Sink) -> bool {
            for f in &frs {
                let v = classify(&self.m, f);
                if v.label != Label::Valid {
                    sink.inconclusive(&format!("setup frame not classified valid: {}", v.rule));
                    return false;
                }
                apply_valid(&mut self.m, f);
                sink.obs(&format!("front.frames_sent/{}", h2::frame_type_name(f.typ)), 1);
            }
            if self.at_once {
                self.staged.extend(frs);
                true
            } else {
                self.p.send_frs(&frs)
            }
        }
        fn fence(&mut self) -> bool {
            if self.at_once {
                return true;
            }
            self.p.ping_fence(react_bound()) == Fence::Acked
        }
        /// bring a stream into the wanted state; None when that is not possible here
        fn ensure(&mut self, class: &str, rng: &mut Rng, sink: &mut Sink) -> Option<u32> {
            let want = match class {
                "open" => SS::Open,
                "half_closed" => SS::RecvClosed,
                "closed_end" => SS::ClosedEnd,
                "closed_own_rst" => SS::ClosedPeerRst,
                _ => return None,
            };
            if let Some((sid, _)) = self.m.streams.iter().find(|(_, s)| **s == want) {
                return Some(*sid);
            }
            if self.m.max_streams != u32::MAX && self.m.pinned.len() as u32 + 2 > self.m.max_streams {
                return None;
            }
            let sid = self.next_sid();
            if sid > 0x7fff_ffff {
                return None; // the identifier space of this connection is used up
            }
            let tok = self.tok();
            let host = self.host;
            let tag = self.tag.clone();
            match want {
                SS::Open => {
                    let f = req_frame(&mut self.p, sid, "POST", host, &format!("/hold/{tok}"), &tag, false);
                    if !self.send_valid(vec![f], sink) || !self.fence() {
                        return None;
                    }
                    self.m.pinned.insert(sid);
                }
                SS::RecvClosed => {
                    let f = req_frame(&mut self.p, sid, "GET", host, &format!("/hold/{tok}"), &tag, true);
                    if !self.send_valid(vec![f], sink) || !self.fence() {
                        return None;
                    }
                    self.m.pinned.insert(sid);
                }
                SS::ClosedEnd => {
                    if self.at_once {
                        return None;
                    }
                    let f = req_frame(&mut self.p, sid, "GET", host, &format!("/ok/{tok}"), &tag, true);
                    if !self.send_valid(vec![f], sink) {
                        return None;
                    }
                    let ok = self.p.pump(react_bound(), &mut |o| o.resp.get(&sid).is_some_and(|r| r.ended) || o.goaway.is_some());
                    if !ok || !self.p.alive() || !self.fence() {
                        self.m.set(sid, SS::Unknown);
                        return None;
                    }
                    self.m.set(sid, SS::ClosedEnd);
                }
                _ => {
                    let f = req_frame(&mut self.p, sid, "POST", host, &format!("/hold/{tok}"), &tag, false);
                    if !self.send_valid(vec![f], sink) {
                        return None;
                    }
                    if rng.bool() && !self.fence() {
                        return None;
                    }
                    let r = Fr::new(h2::FT_RST_STREAM, 0, sid, h2::ERR_CANCEL.to_be_bytes().to_vec());
                    if !self.send_valid(vec![r], sink) || !self.fence() {
                        return None;
                    }
                }
            }
            Some(sid)
        }
    }

    fn filler(n: usize, b: u8) -> Vec<u8> {
        vec![b; n]
    }

    /// the frame of a grid point, addressed at stream `sid`
    fn grid_frame(w: &mut Walk, g: &GridPoint, sid: u32, rng: &mut Rng) -> Fr {
        let max = w.m.max_frame as usize;
        let st = if sid == 0 { SS::Idle } else { w.m.st(sid) };
        let junk = |defined: u8| -> u8 { !defined };
        let mut f = match g.typ {
            h2::FT_DATA => {
                let (flags, payload) = match (g.lenc, g.flagv) {
                    ("natural", "plain") => (0, b"c15-data".to_vec()),
                    ("natural", "all_defined") => {
                        let mut p = vec![2u8];
                        p.extend_from_slice(b"c15-data");
                        p.extend_from_slice(&[0, 0]);
                        (h2::FL_END_STREAM | h2::FL_PADDED, p)
                    }
                    ("natural", _) => (junk(h2::FL_END_STREAM | h2::FL_PADDED), b"c15-data".to_vec()),
                    ("zero", "all_defined") => (h2::FL_END_STREAM | h2::FL_PADDED, Vec::new()),
                    ("zero", "plain") => (0, Vec::new()),
                    ("zero", _) => (junk(h2::FL_END_STREAM | h2::FL_PADDED), Vec::new()),
                    ("wrong_size", "plain") => (h2::FL_PADDED, vec![5, 1, 2, 3]),
                    ("wrong_size", "all_defined") => (h2::FL_PADDED | h2::FL_END_STREAM, vec![3, 1, 2, 3]),
                    ("wrong_size", _) => (h2::FL_PADDED | junk(h2::FL_END_STREAM | h2::FL_PADDED), vec![255]),
                    (_, "plain") => (0, filler(max + 1, b'd')),
                    (_, "all_defined") => (h2::FL_END_STREAM, filler(max + 1, b'd')),
                    _ => (junk(h2::FL_END_STREAM | h2::FL_PADDED), filler(max + 9, b'd')),
                };
                Fr::new(h2::FT_DATA, flags, sid, payload)
            }
            h2::FT_HEADERS => {
                let tok = w.tok();
                let host = w.host;
                let tag = w.tag.clone();
                let trailers = st == SS::Open && g.flagv == "all_defined";
                let (block, kind) = if trailers {
                    (w.p.c.enc.encode(&[(b"x-trailer".to_vec(), b"c15".to_vec())]), Block::Trailers)
                } else if g.lenc == "above_max" {
                    let fill = "f".repeat(max + 1);
                    (req_block(&mut w.p, "POST", host, &format!("/hold/{tok}"), &tag, &[("x-fill", &fill)]), Block::Request)
                } else {
                    let method = if g.flagv == "all_defined" { "GET" } else { "POST" };
                    (req_block(&mut w.p, method, host, &format!("/hold/{tok}"), &tag, &[]), Block::Request)
                };
                let defined = h2::FL_END_STREAM | h2::FL_END_HEADERS | h2::FL_PADDED | h2::FL_PRIORITY;
                let (flags, payload, kind) = match (g.lenc, g.flagv) {
                    ("zero", "plain") => (h2::FL_END_HEADERS, Vec::new(), Block::Opaque),
                    ("zero", "all_defined") => (defined, Vec::new(), Block::Opaque),
                    ("zero", _) => (h2::FL_END_HEADERS | junk(defined), Vec::new(), Block::Opaque),
                    ("wrong_size", "plain") => (h2::FL_END_HEADERS | h2::FL_PRIORITY, vec![0, 0, 0, 0], Block::Opaque),
                    ("wrong_size", "all_defined") => {
                        // pad length larger than what is left
                        let mut p = vec![200u8, 0, 0, 0, 0, 16];
                        p.extend_from_slice(&block);
                        (defined, p, kind)
                    }
                    ("wrong_size", _) => (h2::FL_END_HEADERS | h2::FL_PADDED | junk(defined), Vec::new(), Block::Opaque),
                    (_, "all_defined") => {
                        let mut p = vec![1u8, 0, 0, 0, 0, 16];
                        p.extend_from_slice(&block);
                        p.push(0);
                        (defined, p, kind)
                    }
                    (_, "plain") => (h2::FL_END_HEADERS, block, kind),
                    _ => (h2::FL_END_HEADERS | junk(defined), block, kind),
                };
                let mut f = Fr::new(h2::FT_HEADERS, flags, sid, payload);
                f.block = kind;
                f
            }
            h2::FT_PRIORITY => {
                let payload = match g.lenc {
                    "natural" => vec![0, 0, 0, 0, 16],
                    "zero" => Vec::new(),
                    "wrong_size" => {
                        if rng.bool() {
                            vec![0, 0, 0, 0]
                        } else {
                            vec![0, 0, 0, 0, 16, 0]
                        }
                    }
                    _ => filler(max + 1, 0),
                };
                Fr::new(h2::FT_PRIORITY, if g.flagv == "plain" { 0 } else { 0xff }, sid, payload)
            }
            h2::FT_RST_STREAM => {
                let payload = match g.lenc {
                    "natural" => h2::ERR_CANCEL.to_be_bytes().to_vec(),
                    "zero" => Vec::new(),
                    "wrong_size" => {
                        if rng.bool() {
                            vec![0, 0, 8]
                        } else {
                            vec![0, 0, 0, 8, 0]
                        }
                    }
                    _ => filler(max + 1, 0),
                };
                Fr::new(h2::FT_RST_STREAM, if g.flagv == "plain" { 0 } else { 0xff }, sid, payload)
            }
            h2::FT_SETTINGS => {
                let flags = match g.flagv {
                    "plain" => 0,
                    "all_defined" => h2::FL_ACK,
                    _ => 0xfe,
                };
                let set = |pairs: &[(u16, u32)]| -> Vec<u8> { Frame::settings(pairs).payload };
                let payload = match g.lenc {
                    "natural" => match rng.below(9) {
                        0 => set(&[(h2::SET_INITIAL_WINDOW_SIZE, 65_535)]),
                        1 => set(&[(0xf0f0, 1), (0x0a0a, 0xffff_ffff)]),
                        2 => set(&[(h2::SET_ENABLE_PUSH, 2)]),
                        3 => set(&[(h2::SET_INITIAL_WINDOW_SIZE, 0x8000_0000)]),
                        4 => set(&[(h2::SET_MAX_FRAME_SIZE, 100)]),
                        5 => set(&[(h2::SET_MAX_FRAME_SIZE, 1 << 24)]),
                        6 => set(&[(h2::SET_MAX_FRAME_SIZE, (1 << 24) - 1), (h2::SET_HEADER_TABLE_SIZE, 0), (h2::SET_MAX_CONCURRENT_STREAMS, 0)]),
                        7 => set(&[(h2::SET_ENABLE_PUSH, 1)]),
                        _ => set(&[(h2::SET_MAX_HEADER_LIST_SIZE, 0), (h2::SET_HEADER_TABLE_SIZE, 0xffff_ffff)]),
                    },
                    "zero" => Vec::new(),
                    "wrong_size" => vec![0, 4, 0, 0, 1],
                    _ => filler(max + 1, 0),
                };
                Fr::new(h2::FT_SETTINGS, flags, sid, if g.flagv == "all_defined" && g.lenc == "natural" { Vec::new() } else { payload })
            }
            h2::FT_PUSH_PROMISE => {
                let host = w.host;
                let tag = w.tag.clone();
                let payload = match g.lenc {
                    "natural" => {
                        let mut p = 2u32.to_be_bytes().to_vec();
                        p.extend(req_block(&mut w.p, "GET", host, "/ok/pushed", &tag, &[]));
                        p
                    }
                    "zero" => Vec::new(),
                    "wrong_size" => vec![0, 0, 2],
                    _ => filler(max + 1, 0),
                };
                Fr::new(h2::FT_PUSH_PROMISE, if g.flagv == "junk" { 0xff & !h2::FL_PADDED } else { h2::FL_END_HEADERS }, sid, payload)
            }
            h2::FT_PING => {
                let payload = match g.lenc {
                    "natural" => b"c15-ping".to_vec(),
                    "zero" => Vec::new(),
                    "wrong_size" => {
                        if rng.bool() {
                            filler(7, 1)
                        } else {
                            filler(9, 1)
                        }
                    }
                    _ => filler(max + 1, 1),
                };
                let flags = match g.flagv {
                    "plain" => 0,
                    "all_defined" => h2::FL_ACK,
                    _ => 0xfe,
                };
                Fr::new(h2::FT_PING, flags, sid, payload)
            }
            h2::FT_GOAWAY => {
                let payload = match g.lenc {
                    "natural" => {
                        let mut p = vec![0u8; 8];
                        p.extend_from_slice(b"c15");
                        p
                    }
                    "zero" => Vec::new(),
                    "wrong_size" => filler(7, 0),
                    _ => filler(max + 1, 0),
                };
                Fr::new(h2::FT_GOAWAY, if g.flagv == "plain" { 0 } else { 0xff }, sid, payload)
            }
            h2::FT_WINDOW_UPDATE => {
                let payload = match g.lenc {
                    "natural" => rng.pick(&[1u32, 0, 0x7fff_ffff, 1000, 0x8000_0000]).to_be_bytes().to_vec(),
                    "zero" => Vec::new(),
                    "wrong_size" => {
                        if rng.bool() {
                            vec![0, 0, 1]
                        } else {
                            vec![0, 0, 0, 1, 0]
                        }
                    }
                    _ => filler(max + 1, 0),
                };
                Fr::new(h2::FT_WINDOW_UPDATE, if g.flagv == "plain" { 0 } else { 0xff }, sid, payload)
            }
            h2::FT_CONTINUATION => {
                let payload = match g.lenc {
                    "natural" => vec![0x82, 0x87],
                    "zero" => Vec::new(),
                    "wrong_size" => vec![0x82],
                    _ => filler(max + 1, 0x82),
                };
                let flags = match g.flagv {
                    "plain" => h2::FL_END_HEADERS,
                    "all_defined" => 0,
                    _ => 0xff,
                };
                Fr::new(h2::FT_CONTINUATION, flags, sid, payload)
            }
            other => {
                let payload = match g.lenc {
                    "natural" => b"unknown".to_vec(),
                    "zero" => Vec::new(),
                    "wrong_size" => vec![9],
                    _ => filler(max + 1, 7),
                };
                Fr::new(other, if g.flagv == "plain" { 0 } else { 0xff }, sid, payload)
            }
        };
        f.reserved = rng.chance(1, 6);
        f
    }

    fn fam_walk(cell: &mut Cell, spec: &Spec, rng: &mut Rng, sink: &mut Sink, base: &Value) -> u64 {
        let small = rng.bool();
        let addr = if small { cell.b } else { cell.a };
        let at_once = rng.chance(1, 4);
        let host = if rng.chance(1, 4) { H2OK_HOST } else { H1_HOST };
        let prog = if rng.chance(1, 5) {
            IoProgram { write_seg: rng.urange(1, 13), write_pause_us: 200, ..IoProgram::default() }
        } else {
            IoProgram::fast()
        };
        let seg = prog.write_seg;
        let mut p = match open_client(addr, host, !at_once, IoProgram::fast()) {
            Ok(p) => p,
            Err(e) => {
                sink.inconclusive(&format!("walk: no connection: {}", e.split(':').next().unwrap_or("")));
                return 0;
            }
        };
        if seg > 0 && !at_once {
            // segmented writes start once the start-up exchange is over (the start-up with
            // segmented frames is the `segmented` workload)
            let _ = p.ping_fence(react_bound());
        }
        if !at_once {
            p.c.io_prog = prog;
        }
        sink.obs("connections", 1);
        sink.obs(if at_once { "front.phase/settings_exchange" } else { "front.phase/established" }, 1);
        if seg > 0 && !at_once {
            sink.obs("front.connections_with_segmented_writes", 1);
        }
        let tag = cell.tag();
        let sh = cell.sh.clone();
        let mut m = Model::new(true);
        if !at_once {
            m.max_frame = p.c.peer_settings.max_frame_size;
            m.max_streams = p.c.peer_settings.max_concurrent_streams;
        } else {
            m.windows_exact = false;
        }
        let mut w = Walk { p, m, tag: tag.clone(), host, toks: Vec::new(), at_once, staged: Vec::new(), sh: &sh, n: 0, injected_conn_credit: 0 };
        let n_points = if at_once { 1 } else { rng.urange(1, 3) };
        // dense numbering of the walks of a run, so that consecutive walks sweep the grid
        let rank = (0..spec.j).filter(|t| ROTATION[((spec.cell * 5 + t) % ROTATION.len() as u64) as usize] == "walk").count() as u64;
        let ordinal = (spec.cell * 12 + rank) * 3;
        let mut fp = 0u64;
        let mut any_unjudged = false;
        let wbase = with(base, json!({"listener": if small { "B (small thresholds, 8 streams)" } else { "A (defaults)" }, "host": host,
            "phase": if at_once { "during the SETTINGS exchange (everything in the first flight)" } else { "after the SETTINGS exchange" }, "write_segment": seg}));
        for k in 0..n_points {
            let gi = (spec.seed.wrapping_mul(0x9E37_79B9) % GRID + (ordinal + k as u64) * 601) % GRID;
            let g = grid_point(gi);
            // extra context: other streams around
            if rng.chance(1, 3) {
                let class: &str = ["open", "half_closed", "closed_own_rst"][rng.usize_below(3)];
                let _ = w.ensure(class, rng, sink);
            }
            // optional: inside a header block
            let in_block = !w.at_once && rng.chance(1, 12) && w.m.header_block.is_none() && w.next_sid() < 0x7fff_0000;
            let sid = match g.sidc {
                "zero" => 0,
                "idle_next" => w.next_sid(),
                "even" => *rng.pick(&[2u32, 4, 1000, 0x7fff_fffe]),
                "idle_far" => w.next_sid() + 2 * rng.range(50, 5000) as u32,
                "max" => 0x7fff_ffff,
                c => match w.ensure(c, rng, sink) {
                    Some(s) => s,
                    None => {
                        if !w.p.alive() {
                            break;
                        }
                        sink.obs("front.grid_point_state_not_reachable", 1);
                        continue;
                    }
                },
            };
            if !w.p.alive() {
                break;
            }
            if sid > 0x7fff_ffff {
                sink.obs("front.grid_point_state_not_reachable", 1);
                continue;
            }
            if in_block {
                let hs = w.next_sid();
                let tok = w.tok();
                let blk = req_block(&mut w.p, "POST", host, &format!("/hold/{tok}"), &tag, &[]);
                let mut h = Fr::new(h2::FT_HEADERS, 0, hs, blk[..blk.len() / 2].to_vec());
                h.block = Block::Request;
                if !w.send_valid(vec![h], sink) {
                    break;
                }
                sink.obs("front.state/inside_header_block", 1);
            }
            let f = grid_frame(&mut w, &g, sid, rng);
            w.m.conn_window = w.p.c.conn_recv_window + w.injected_conn_credit;
            let v = classify(&w.m, &f);
            let st = if sid == 0 { "-" } else { w.m.st(sid).name() };
            fp = fp.wrapping_mul(1_000_003) ^ crate::common::rng::fnv1a(format!("{gi}/{st}/{}/{}", v.rule, w.m.header_block.is_some()).as_bytes());
            sink.obs(&format!("front.injected/{}", if f.typ <= 9 { h2::frame_type_name(f.typ) } else { "UNKNOWN" }), 1);
            sink.obs(&format!("front.injected_stream_class/{}", g.sidc), 1);
            sink.obs(&format!("front.injected_length_class/{}", g.lenc), 1);
            sink.obs(&format!("front.injected_flags/{}", g.flagv), 1);
            sink.obs(&format!("front.injected_stream_state/{st}"), 1);
            sink.obs(&format!("front.label/{}", v.class()), 1);
            if v.label == Label::Either {
                sink.obs(&format!("exempt:front.either/{}", v.rule), 1);
            }
            w.p.note(format!("-- grid point {gi}: {:?} stream state {st}: label {} ({})", g, v.class(), v.rule));
            // injection
            let conn_label = matches!(v.label, Label::Conn(_));
            let mut frs = std::mem::take(&mut w.staged);
            frs.push(f.clone());
            let mut fid = None;
            if !conn_label {
                let (id, ping) = w.p.ping_frame();
                fid = Some(id);
                frs.push(ping);
            }
            let t_inject = Instant::now();
            let big = frs.iter().map(|f| f.payload.len()).sum::<usize>() > 2048;
            let saved = w.p.c.io_prog.clone();
            if big {
                // one-octet segments with pauses over 16 KiB only cost time
                w.p.c.io_prog = IoProgram::fast();
            }
            let sent = w.p.send_frs(&frs);
            w.p.c.io_prog = saved;
            w.at_once = false; // everything after the first flight is sequential
            if rng.chance(1, 3) {
                cell.status(sink, "during", &wbase);
            }
            if conn_label {
                let _ = w.p.pump(react_bound(), &mut |o| o.goaway.is_some() || o.closed.is_some());
            } else if let Some(id) = fid {
                // also after a failed write: what sozu sent before closing is still to be read
                let _ = w.p.await_fence(id, if sent { react_bound() } else { Duration::from_millis(500) });
            }
            let witness = |p: &Client, expected: String, observed: String| {
                with(&wbase, json!({"grid_point": gi, "frame": f.describe(), "frame_hex": hex_capped(&f.wire()), "stream_state": st,
                    "classifier": {"label": v.class(), "rule": v.rule}, "expected": expected, "observed": observed, "trace": p.trace()}))
            };
            match &v.label {
                Label::Conn(_) => {
                    judge_reaction(&mut w.p, &v, sid, "front", sink, &witness);
                    sink.max("front.reaction_ms", t_inject.elapsed().as_millis() as u64);
                    break;
                }
                Label::Stream(_) => {
                    if w.p.alive() && !w.p.o.rst.contains_key(&sid) {
                        // a queued RST_STREAM may come after the PING ack: one more round trip
                        let _ = w.p.ping_fence(react_bound());
                    }
                    let escalated = w.p.o.goaway.is_some();
                    judge_reaction(&mut w.p, &v, sid, "front", sink, &witness);
                    if escalated || !w.p.alive() {
                        break;
                    }
                    w.m.set(sid, SS::ClosedSozuRst);
                    w.m.header_block = None;
                    // the connection keeps working: a valid request on a new stream
                    let nsid = w.next_sid().max(sid + 2) | 1;
                    if nsid < 0x7fff_0000 && sid != 0x7fff_ffff {
                        let tok = w.tok();
                        w.m.highest = w.m.highest.max(nsid);
                        w.m.set(nsid, SS::ClosedEnd);
                        // (the H1 cluster: the check is about this connection, not about the backend
                        // connection the reset stream was using)
                        match simple_get(&mut w.p, nsid, H1_HOST, &format!("/ok/{tok}"), &tag, react_bound()) {
                            Ok((200, b)) if b.starts_with(tok.as_bytes()) => sink.obs("front.followup_after_stream_error_served", 1),
                            other => sink.violation(
                                &format!("h2hostile/front/reaction/connection_broken_after_stream_error/{}", v.rule),
                                "after a stream error the connection no longer served a valid request on a new stream",
                                witness(&w.p, "200 for a follow-up request on a new stream".into(), format!("{other:?}")),
                            ),
                        }
                    }
                }
                Label::Valid => {
                    judge_reaction(&mut w.p, &v, sid, "front", sink, &witness);
                    if !w.p.alive() {
                        break;
                    }
                    apply_valid(&mut w.m, &f);
                    if f.typ == h2::FT_WINDOW_UPDATE && sid == 0 && f.payload.len() == 4 {
                        w.injected_conn_credit += (be32(&f.payload) & 0x7fff_ffff) as i64;
                    }
                    if f.typ == h2::FT_HEADERS && matches!(w.m.st(sid), SS::Open | SS::RecvClosed) {
                        w.m.pinned.insert(sid);
                    }
                }
                Label::Either => {
                    any_unjudged = true;
                    sink.obs("front.judged/either", 1);
                    if !w.p.alive() {
                        sink.obs("front.reaction_to_unjudged/connection_ended", 1);
                        break;
                    }
                    sink.obs(if sid != 0 && w.p.o.rst.contains_key(&sid) { "front.reaction_to_unjudged/rst_stream" } else { "front.reaction_to_unjudged/none_seen" }, 1);
                    if f.typ == h2::FT_GOAWAY {
                        w.m.sent_goaway = true;
                    }
                    if sid != 0 {
                        w.m.set(sid, SS::Unknown);
                        if f.typ == h2::FT_HEADERS && sid % 2 == 1 {
                            w.m.highest = w.m.highest.max(sid);
                        }
                    }
                    if f.typ == h2::FT_HEADERS || f.typ == h2::FT_CONTINUATION || f.typ == h2::FT_PUSH_PROMISE {
                        // the header block state is no longer known
                        break;
                    }
                    if f.typ == h2::FT_SETTINGS {
                        w.m.windows_exact = false;
                    }
                }
            }
        }
        // end of the sequence: held streams untouched by unjudged frames must still be alive
        if w.p.alive() && w.m.header_block.is_none() && !w.m.sent_goaway {
            let _ = w.p.ping_fence(react_bound());
            let reset: Vec<(u32, String)> = w.m.pinned.iter().filter_map(|s| w.p.o.rst.get(s).map(|c| (*s, code_name(*c)))).collect();
            if !reset.is_empty() && w.p.alive() && !any_unjudged {
                sink.violation(
                    "h2hostile/front/reaction/held_stream_reset_without_cause",
                    "sozu reset a stream on which only valid frames had been sent and whose backend was still holding the answer",
                    with(&wbase, json!({"expected": "no RST_STREAM on these streams", "observed": format!("{reset:?}"), "trace": w.p.trace()})),
                );
            }
        }
        for t in &w.toks {
            release(w.sh, t);
        }
        cell.last_trace = w.p.trace();
        cell.last_end = end_kind(&w.p.o);
        if rng.bool() {
            Transport::shutdown(&mut w.p.c.io);
        }
        drop(w);
        fp
    }

    fn end_kind(o: &Obs) -> &'static str {
        if o.goaway.is_some() {
            "after_goaway"
        } else if o.closed.is_some() {
            "after_close_without_goaway"
        } else {
            "harness_closed_first"
        }
    }

    fn hex_capped(b: &[u8]) -> String {
        if b.len() <= 200 { hex::encode(b) } else { format!("{}..(+{} bytes)", hex::encode(&b[..200]), b.len() - 200) }
    }

    // ------------------------------------------------------------------------------------------
    // workload: floods at 0.5x / 1x / 2x of the configured thresholds
    // ------------------------------------------------------------------------------------------

    const FLOOD_KINDS: [&str; 9] = ["ping", "settings", "rapid_reset", "empty_data", "window_update_stream0", "glitch", "made_you_reset", "continuation", "priority"];

    fn fam_flood(cell: &mut Cell, spec: &Spec, rng: &mut Rng, sink: &mut Sink, base: &Value) -> u64 {
        let ordinal = spec.cell * 4096 + spec.j;
        let kind = FLOOD_KINDS[(ordinal % FLOOD_KINDS.len() as u64) as usize];
        let mult_half = [1u32, 2, 4][((ordinal / FLOOD_KINDS.len() as u64 + spec.seed) % 3) as usize];
        let small = !rng.chance(1, 5) || kind == "made_you_reset";
        let (addr, kn) = if small { (cell.b, SMALL) } else { (cell.a, DEFAULTS) };
        let host = H1_HOST;
        let mut p = match open_client(addr, host, true, IoProgram::fast()) {
            Ok(p) => p,
            Err(e) => {
                sink.inconclusive(&format!("flood: no connection: {}", e.split(':').next().unwrap_or("")));
                return 0;
            }
        };
        sink.obs("connections", 1);
        // the start-up exchange (sozu's own initial WINDOW_UPDATE) is over before the burst starts
        let fenced = p.ping_fence(react_bound()) == Fence::Acked;
        if !fenced {
            sink.inconclusive("flood: start-up fence not acknowledged");
            return 0;
        }
        let tag = cell.tag();
        let mut toks: Vec<String> = Vec::new();
        let mut next = 1u32;
        let thr: u32 = match kind {
            "ping" => kn.ping,
            "settings" => kn.settings,
            "rapid_reset" => kn.rst.min(kn.abusive as u32),
            "empty_data" => kn.empty,
            "window_update_stream0" => kn.wu0,
            "glitch" => kn.glitch,
            "made_you_reset" => kn.emitted as u32,
            "continuation" => kn.cont,
            _ => 400,
        };
        let n = thr * mult_half / 2;
        let mut burst: Vec<Fr> = Vec::new();
        // frames of this kind counted by sozu before the burst
        let mut before = 0u32;
        let mut cont_sid = None;
        match kind {
            "ping" => {
                before = 1; // the start-up fence
                for i in 0..n.saturating_sub(1) {
                    burst.push(Fr::new(h2::FT_PING, 0, 0, (0xF100_0000u64 + i as u64).to_be_bytes().to_vec()));
                }
            }
            "settings" => {
                before = 1; // the SETTINGS of the connection preface
                for _ in 0..n.saturating_sub(1) {
                    burst.push(Fr::new(h2::FT_SETTINGS, 0, 0, Vec::new()));
                }
            }
            "rapid_reset" => {
                for _ in 0..n {
                    let tok = format!("{tag}-rr{next}");
                    burst.push(req_frame(&mut p, next, "GET", host, &format!("/hold/{tok}"), &tag, true));
                    burst.push(Fr::new(h2::FT_RST_STREAM, 0, next, h2::ERR_CANCEL.to_be_bytes().to_vec()));
                    toks.push(tok);
                    next += 2;
                }
            }
            "empty_data" => {
                let tok = format!("{tag}-ed");
                let f = req_frame(&mut p, next, "POST", host, &format!("/hold/{tok}"), &tag, false);
                toks.push(tok);
                if !p.send_frs(&[f]) || p.ping_fence(react_bound()) != Fence::Acked {
                    sink.inconclusive("flood: setup stream not opened");
                    return 0;
                }
                for _ in 0..n {
                    burst.push(Fr::new(h2::FT_DATA, 0, next, Vec::new()));
                }
                next += 2;
            }
            "window_update_stream0" => {
                for _ in 0..n {
                    burst.push(Fr::new(h2::FT_WINDOW_UPDATE, 0, 0, 1u32.to_be_bytes().to_vec()));
                }
            }
            "glitch" => {
                // WINDOW_UPDATE on a stream that is closed (a legal race, counted as a glitch)
                let tok = format!("{tag}-gl");
                match simple_get(&mut p, next, host, &format!("/ok/{tok}"), &tag, react_bound()) {
                    Ok((200, _)) => {}
                    other => {
                        sink.inconclusive(&format!("flood: setup request failed: {other:?}"));
                        return 0;
                    }
                }
                for _ in 0..n {
                    burst.push(Fr::new(h2::FT_WINDOW_UPDATE, 0, next, 1u32.to_be_bytes().to_vec()));
                }
                next += 2;
            }
            "made_you_reset" => {
                for _ in 0..n {
                    let tok = format!("{tag}-my{next}");
                    burst.push(req_frame(&mut p, next, "POST", host, &format!("/hold/{tok}"), &tag, false));
                    burst.push(Fr::new(h2::FT_WINDOW_UPDATE, 0, next, 0u32.to_be_bytes().to_vec()));
                    toks.push(tok);
                    next += 2;
                }
            }
            "continuation" => {
                // one request split over HEADERS + n CONTINUATION frames
                let tok = format!("{tag}-co");
                let block = req_block(&mut p, "GET", host, &format!("/ok/{tok}"), &tag, &[]);
                toks.push(tok);
                let mut off = 1.min(block.len());
                let mut h = Fr::new(h2::FT_HEADERS, h2::FL_END_STREAM, next, block[..off].to_vec());
                h.block = Block::Request;
                burst.push(h);
                for i in 0..n {
                    let last = i + 1 == n;
                    let piece = if last {
                        block[off..].to_vec()
                    } else if off + 1 < block.len() {
                        off += 1;
                        block[off - 1..off].to_vec()
                    } else {
                        Vec::new()
                    };
                    burst.push(Fr::new(h2::FT_CONTINUATION, if last { h2::FL_END_HEADERS } else { 0 }, next, piece));
                }
                cont_sid = Some(next);
                next += 2;
            }
            _ => {
                for i in 0..n {
                    burst.push(Fr::new(h2::FT_PRIORITY, 0, next + 2 * (i % 60), vec![0, 0, 0, 0, (i % 256) as u8]));
                }
            }
        }
        let total = if before > 0 { n.max(1) } else { n };
        let key = format!("front.flood/{kind}/x{}", mult_half as f32 / 2.0);
        sink.obs(&key, 1);
        sink.obs("front.flood_frames", burst.len() as u64);
        let wbase = with(base, json!({"listener": if small { "B (small thresholds)" } else { "A (defaults)" }, "flood": kind,
            "multiplier": mult_half as f32 / 2.0, "configured_threshold": thr, "frames_of_this_kind_on_the_connection": total}));
        let t0 = Instant::now();
        let mut bytes = Vec::new();
        for f in &burst {
            bytes.extend(f.wire());
        }
        let sent = p.send_bytes(format!("burst: {} frames of kind {kind} ({} bytes), first: {}", burst.len(), bytes.len(), burst.first().map(|f| f.describe()).unwrap_or_default()), &bytes);
        cell.status(sink, "during", &wbase);
        if rng.chance(1, 2) {
            cell.probe_check(sink, "during", false, &wbase);
        }
        // did the defence trip? a request on a new stream tells
        let fsid = next.max(1);
        let ftok = format!("{tag}-after");
        let follow = if sent { simple_get(&mut p, fsid, host, &format!("/ok/{ftok}"), &tag, react_bound()) } else { Err("write failed".into()) };
        let took = t0.elapsed();
        let tripped = p.o.goaway.is_some() || p.o.closed.is_some();
        let observed = format!(
            "goaway={:?} closed={:?} follow_up={:?} resets_from_sozu={} after {} ms",
            p.o.goaway.map(|g| code_name(g.1)),
            p.o.closed,
            follow.as_ref().map(|r| r.0),
            p.o.rst.len(),
            took.as_millis()
        );
        let wit = |p: &Client, expected: String| with(&wbase, json!({"expected": expected, "observed": observed, "trace": p.trace()}));
        if kind == "priority" {
            // no documented threshold: universal oracles only
            sink.obs("exempt:front.flood_without_documented_threshold", 1);
        } else if total * 2 <= thr {
            if tripped {
                sink.violation(
                    &format!("h2hostile/front/flood/tripped_below_half_threshold/{kind}"),
                    "sozu ended the connection although the peer sent no more than half the configured threshold of well-formed frames of this kind",
                    wit(&p, format!("{total} <= {thr}/2 frames: no GOAWAY, the connection keeps working")),
                );
            } else {
                match &follow {
                    Ok((200, b)) if b.starts_with(ftok.as_bytes()) => sink.obs("front.flood_below_threshold_tolerated", 1),
                    _ => sink.violation(
                        &format!("h2hostile/front/flood/connection_broken_below_half_threshold/{kind}"),
                        "below half the configured threshold the connection stopped serving valid requests",
                        wit(&p, "200 for a follow-up request".into()),
                    ),
                }
                if let Some(cs) = cont_sid {
                    match p.o.resp.get(&cs) {
                        Some(r) if r.status == Some(200) => sink.obs("front.split_header_block_served", 1),
                        _ => {
                            let _ = p.pump(Duration::from_millis(500), &mut |o| o.resp.get(&cs).is_some_and(|r| r.ended));
                            if p.o.resp.get(&cs).and_then(|r| r.status) == Some(200) {
                                sink.obs("front.split_header_block_served", 1);
                            } else {
                                sink.violation(
                                    "h2hostile/front/flood/request_below_continuation_threshold_not_served",
                                    "a well-formed request split over fewer CONTINUATION frames than half the configured cap was not served",
                                    wit(&p, "200 for the split request".into()),
                                );
                            }
                        }
                    }
                }
            }
        } else if n >= 2 * thr {
            if tripped {
                sink.obs("front.flood_stopped", 1);
                sink.max("front.flood_reaction_ms", took.as_millis() as u64);
                if let Some((_, code)) = p.o.goaway {
                    sink.obs(&format!("front.flood_goaway/{}", code_name(code)), 1);
                    let mut allowed = vec![E_CALM];
                    if kind == "made_you_reset" {
                        allowed.push(E_PROTOCOL);
                    }
                    if !allowed.contains(&code) {
                        sink.violation(
                            &format!("h2hostile/front/flood/wrong_goaway_code/{kind}"),
                            "the flood defence answered with a GOAWAY code that is neither ENHANCE_YOUR_CALM nor an RFC code of the abused rule",
                            wit(&p, format!("GOAWAY with one of {:?}", codes_names(&allowed))),
                        );
                    }
                    let from = p.o.t_goaway.unwrap_or_else(Instant::now);
                    match p.await_close(from, close_bound()) {
                        Some(ms) => sink.max("front.close_after_goaway_ms", ms),
                        None => sink.suspect(
                            "h2hostile/front/not_closed_after_goaway",
                            "after the flood GOAWAY sozu kept the socket open beyond the bound",
                            wit(&p, format!("socket closed within {:?} of the GOAWAY", close_bound())),
                        ),
                    }
                } else {
                    sink.obs("exempt:front.flood_closed_without_goaway", 1);
                }
            } else if took < Duration::from_millis(900) && follow.is_ok() {
                // the request sent behind the burst was answered: the whole burst was processed
                // (frames are processed in order) inside one flood window, and nothing tripped
                sink.violation(
                    &format!("h2hostile/front/flood/not_stopped_at_twice_threshold/{kind}"),
                    "the peer sent twice the configured threshold in one burst, sozu answered the request sent behind the burst and neither sent GOAWAY nor closed the connection",
                    wit(&p, format!("{n} >= 2 x {thr} frames in one burst: GOAWAY(ENHANCE_YOUR_CALM) and close")),
                );
            } else if took < Duration::from_millis(900) {
                sink.inconclusive("flood: no GOAWAY and no answer to the request behind the burst");
            } else {
                sink.inconclusive("flood burst took longer than the flood window");
            }
        } else {
            sink.obs("exempt:front.flood_at_threshold_not_judged", 1);
            sink.obs(if tripped { "front.flood_at_threshold/tripped" } else { "front.flood_at_threshold/tolerated" }, 1);
        }
        for t in &toks {
            release(&cell.sh, t);
        }
        cell.last_trace = p.trace();
        cell.last_end = end_kind(&p.o);
        crate::common::rng::fnv1a(format!("flood/{kind}/{mult_half}/{small}").as_bytes())
    }

    // ------------------------------------------------------------------------------------------
    // workload: over-commit (concurrent streams, header list size / field count, HPACK bomb)
    // ------------------------------------------------------------------------------------------

    fn fam_mcs(cell: &mut Cell, _spec: &Spec, rng: &mut Rng, sink: &mut Sink, base: &Value) -> u64 {
        let small = !rng.chance(1, 6);
        let addr = if small { cell.b } else { cell.a };
        let host = if rng.chance(1, 3) { H2OK_HOST } else { H1_HOST };
        let mut p = match open_client(addr, host, true, IoProgram::fast()) {
            Ok(p) => p,
            Err(e) => {
                sink.inconclusive(&format!("mcs: no connection: {}", e.split(':').next().unwrap_or("")));
                return 0;
            }
        };
        sink.obs("connections", 1);
        let adv = p.c.peer_settings.max_concurrent_streams;
        if adv == u32::MAX {
            sink.obs("exempt:front.no_max_concurrent_streams_advertised", 1);
            return 0;
        }
        let tag = cell.tag();
        let extra = rng.urange(1, (adv as usize / 2 + 2).min(24)) as u32;
        let total = adv + extra;
        let mut frs = Vec::new();
        let mut toks = Vec::new();
        // Streams above the limit may carry a frame right behind their HEADERS (the DATA of an
        // upload, a WINDOW_UPDATE, a RST_STREAM): written back to back it is already in flight when
        // sozu refuses the stream, and frames in flight on a stream the receiver reset are to be
        // tolerated (RFC 9113 §5.1), never a connection error.
        let back_to_back = rng.bool();
        let mut behind: Vec<Fr> = Vec::new();
        let mut behind_streams: Vec<u32> = Vec::new();
        for i in 0..total {
            let sid = 1 + 2 * i;
            let tok = format!("{tag}-m{sid}");
            let excess = i >= adv;
            let post = if excess { i == adv || rng.chance(2, 3) } else { rng.chance(1, 3) };
            frs.push(req_frame(&mut p, sid, if post { "POST" } else { "GET" }, host, &format!("/hold/{tok}"), &tag, !post));
            if excess && post {
                let f = match rng.below(4) {
                    0 => Fr::new(h2::FT_DATA, 0, sid, b"upload in flight".to_vec()),
                    1 => Fr::new(h2::FT_DATA, h2::FL_END_STREAM, sid, b"upload in flight, last".to_vec()),
                    2 => Fr::new(h2::FT_WINDOW_UPDATE, 0, sid, 1000u32.to_be_bytes().to_vec()),
                    _ => Fr::new(h2::FT_RST_STREAM, 0, sid, h2::ERR_CANCEL.to_be_bytes().to_vec()),
                };
                behind_streams.push(sid);
                if back_to_back {
                    frs.push(f);
                } else {
                    behind.push(f);
                }
            }
            toks.push(tok);
        }
        let wbase = with(base, json!({"listener": if small { "B" } else { "A" }, "host": host, "advertised_max_concurrent_streams": adv, "streams_opened": total,
            "streams_above_the_limit_with_a_frame_behind_their_headers": behind_streams,
            "frames_behind": if back_to_back { "back to back with the HEADERS" } else { "after sozu's RST_STREAM(REFUSED_STREAM) was seen" }}));
        // in one or two flights
        let cut = if rng.bool() { frs.len() } else { rng.urange(1, frs.len()) };
        let ok = p.send_frs(&frs[..cut]) && (cut == frs.len() || p.send_frs(&frs[cut..]));
        cell.status(sink, "during", &wbase);
        let mut fenced = ok && p.ping_fence(react_bound()) == Fence::Acked;
        if fenced && !behind.is_empty() {
            fenced = p.send_frs(&behind) && p.ping_fence(react_bound()) == Fence::Acked;
        }
        sink.obs("front.frames_sent_behind_refused_streams", behind_streams.len() as u64);
        let seen = cell.wait_backend_inflight(&tag, adv as i64, Duration::from_millis(2500));
        let _ = p.ping_fence(react_bound());
        // a little time for over-committed requests to show up at the backend
        std::thread::sleep(Duration::from_millis(30));
        let max_seen = lock(&cell.sh).max_inflight.get(&tag).copied().unwrap_or(0);
        sink.obs("front.overcommit_checks/concurrent_streams", 1);
        sink.max("front.concurrent_requests_at_backend", max_seen.max(0) as u64);
        if seen >= adv as i64 {
            sink.obs("front.concurrency_limit_reached_at_backend", 1);
        }
        if max_seen > adv as i64 {
            sink.violation(
                "h2hostile/front/overcommit/concurrent_streams_above_advertised",
                "more requests of one HTTP/2 connection were in flight at the backend than the SETTINGS_MAX_CONCURRENT_STREAMS sozu advertised",
                with(&wbase, json!({"expected": format!("at most {adv} concurrent requests"), "observed": format!("{max_seen} concurrent requests at the backend"), "trace": p.trace()})),
            );
        }
        // the streams above the limit: stream error PROTOCOL_ERROR or REFUSED_STREAM (RFC 9113 §5.1.2)
        if p.o.goaway.is_none() && p.o.closed.is_none() {
            let refused: Vec<(u32, u32)> = p.o.rst.iter().map(|(s, c)| (*s, *c)).collect();
            let bad: Vec<(u32, String)> = refused.iter().filter(|(_, c)| *c != E_REFUSED && *c != E_PROTOCOL).map(|(s, c)| (*s, code_name(*c))).collect();
            sink.obs("front.streams_refused_above_limit", refused.len() as u64);
            if !bad.is_empty() {
                sink.violation(
                    "h2hostile/front/reaction/wrong_rst_stream_code/max_concurrent_streams_exceeded",
                    "streams above the advertised concurrency limit were reset with a code other than REFUSED_STREAM / PROTOCOL_ERROR",
                    with(&wbase, json!({"expected": "RST_STREAM(REFUSED_STREAM or PROTOCOL_ERROR)", "observed": format!("{bad:?}"), "trace": p.trace()})),
                );
            }
            if (refused.len() as u32) < extra && max_seen <= adv as i64 {
                // neither forwarded nor refused: queued? wait for the answers after the release below
                sink.obs("front.streams_above_limit_neither_refused_nor_forwarded_yet", (extra - refused.len() as u32) as u64);
            }
        } else if let Some((_, code)) = p.o.goaway {
            let refused_seen: Vec<u32> = behind_streams.iter().copied().filter(|s| matches!(p.o.rst.get(s), Some(c) if *c == E_REFUSED || *c == E_PROTOCOL)).collect();
            if code == h2::ERR_NO_ERROR {
                // a graceful drain (sozu does that after default answers), not a reaction to the excess
                sink.obs("front.concurrency_run_ended_by_graceful_goaway", 1);
            } else if code != E_CALM && !refused_seen.is_empty() {
                // sozu answered the excess with a stream error, then ended the connection over what
                // was in flight behind it
                sink.violation(
                    "h2hostile/front/reaction/connection_error_for_frame_behind_refused_stream",
                    "after refusing a stream above the advertised concurrency limit with RST_STREAM, sozu answered a frame that was in flight behind that stream's HEADERS with a connection error, taking the other streams down",
                    with(&wbase, json!({"expected": "the frame is discarded or answered on its stream; no GOAWAY; the accepted streams complete",
                        "observed": format!("RST_STREAM seen on {refused_seen:?}, then GOAWAY({})", code_name(code)), "trace": p.trace()})),
                );
            } else if code == E_CALM || code == E_PROTOCOL || code == E_REFUSED {
                sink.obs("exempt:front.concurrency_excess_escalated_to_goaway", 1);
            } else {
                sink.violation(
                    "h2hostile/front/reaction/wrong_goaway_code/max_concurrent_streams_exceeded",
                    "exceeding the advertised concurrency limit was answered with an unexpected GOAWAY code",
                    with(&wbase, json!({"expected": "RST_STREAM(REFUSED_STREAM|PROTOCOL_ERROR) or GOAWAY(ENHANCE_YOUR_CALM|PROTOCOL_ERROR)", "observed": code_name(code), "trace": p.trace()})),
                );
            }
        }
        for t in &toks {
            release(&cell.sh, t);
        }
        // accepted GET streams get their answers
        if p.alive() {
            let _ = p.pump(Duration::from_millis(1500), &mut |o| o.resp.values().filter(|r| r.ended).count() + o.rst.len() >= adv as usize / 2);
            let answered = p.o.resp.values().filter(|r| r.ended && r.status == Some(200)).count() as u64;
            sink.obs("front.accepted_streams_answered", answered);
            if fenced && !behind_streams.is_empty() && p.alive() && answered > 0 {
                sink.obs("front.frames_behind_refused_streams_tolerated", 1);
            }
        }
        cell.last_trace = p.trace();
        cell.last_end = end_kind(&p.o);
        crate::common::rng::fnv1a(format!("mcs/{small}/{host}/{extra}").as_bytes())
    }

    const HDR_KINDS: [&str; 6] = ["big_value", "many_fields", "hpack_bomb", "below_limits", "many_cookies", "big_value_continuation_heavy"];

    fn fam_hdr(cell: &mut Cell, spec: &Spec, rng: &mut Rng, sink: &mut Sink, base: &Value) -> u64 {
        let ordinal = spec.cell * 4096 + spec.j;
        let kind = HDR_KINDS[(ordinal % HDR_KINDS.len() as u64) as usize];
        let small = rng.bool();
        let addr = if small { cell.b } else { cell.a };
        let host = if rng.chance(1, 3) { H2OK_HOST } else { H1_HOST };
        let mut p = match open_client(addr, host, true, IoProgram::fast()) {
            Ok(p) => p,
            Err(e) => {
                sink.inconclusive(&format!("hdr: no connection: {}", e.split(':').next().unwrap_or("")));
                return 0;
            }
        };
        sink.obs("connections", 1);
        let tag = cell.tag();
        let adv = p.c.peer_settings.max_header_list_size;
        // documented limits (doc/configure.md): 65536 octets, 128 fields
        let limit_size = if adv == u32::MAX { 65_536 } else { adv as usize };
        let limit_fields = 128usize;
        let path = format!("/ok/{tag}-hdr-{kind}");
        let mut hs: HeaderList = h2::request_headers("GET", "https", host, &path, &[("x-c15", &tag)]);
        let mut block_override: Option<Vec<u8>> = None;
        match kind {
            "big_value" | "big_value_continuation_heavy" => {
                hs.push((b"x-big".to_vec(), vec![b'v'; limit_size + 100]));
            }
            "many_fields" => {
                for i in 0..(limit_fields + 72) {
                    hs.push((format!("x-f{i}").into_bytes(), b"1".to_vec()));
                }
            }
            "many_cookies" => {
                let crumbs: Vec<String> = (0..(limit_fields + 40)).map(|i| format!("c{i}=v")).collect();
                hs.push((b"cookie".to_vec(), crumbs.join("; ").into_bytes()));
            }
            "hpack_bomb" => {
                // one large entry in the dynamic table, then many one-octet references to it
                let mut b = p.c.enc.encode(&hs);
                let value = vec![b'b'; 3000];
                b.push(0x40);
                b.extend(h2::hpack_int(6, 7, 0));
                b.extend_from_slice(b"x-bomb");
                b.extend(h2::hpack_int(value.len(), 7, 0));
                b.extend_from_slice(&value);
                for _ in 0..60 {
                    b.push(0x80 | 62);
                }
                for _ in 0..61 {
                    hs.push((b"x-bomb".to_vec(), value.clone()));
                }
                block_override = Some(b);
            }
            _ => {
                for i in 0..40 {
                    hs.push((format!("x-f{i}").into_bytes(), vec![b'v'; 100]));
                }
            }
        }
        let size: usize = hs.iter().map(|(n, v)| n.len() + v.len() + 32).sum();
        let fields = hs.len() + if kind == "many_cookies" { limit_fields + 39 } else { 0 };
        let over = size > limit_size || fields > limit_fields;
        let block = block_override.unwrap_or_else(|| p.c.enc.encode(&hs));
        let split = if kind == "big_value_continuation_heavy" { 4096 } else { 16_384 };
        let chunks: Vec<&[u8]> = block.chunks(split).collect();
        let mut frs = Vec::new();
        for (i, c) in chunks.iter().enumerate() {
            let last = i + 1 == chunks.len();
            if i == 0 {
                frs.push(Fr::new(h2::FT_HEADERS, h2::FL_END_STREAM | if last { h2::FL_END_HEADERS } else { 0 }, 1, c.to_vec()));
            } else {
                frs.push(Fr::new(h2::FT_CONTINUATION, if last { h2::FL_END_HEADERS } else { 0 }, 1, c.to_vec()));
            }
        }
        let wbase = with(base, json!({"listener": if small { "B" } else { "A" }, "host": host, "workload": kind, "header_list_size_rfc9113_6_5_2": size,
            "fields": fields, "wire_block_bytes": block.len(), "frames": frs.len(), "advertised_max_header_list_size": if adv == u32::MAX { Value::Null } else { json!(adv) },
            "documented_limits": {"octets": 65_536, "fields": 128}}));
        sink.obs(&format!("front.header_workload/{kind}"), 1);
        let t0 = Instant::now();
        let sent = p.send_frs(&frs);
        cell.status(sink, "during", &wbase);
        let _ = sent && p.pump(react_bound(), &mut |o| o.resp.get(&1).is_some_and(|r| r.ended) || o.rst.contains_key(&1) || o.goaway.is_some());
        sink.max("front.header_workload_reaction_ms", t0.elapsed().as_millis() as u64);
        let outcome = if let Some((_, c)) = p.o.goaway {
            format!("GOAWAY({})", code_name(c))
        } else if let Some(c) = p.o.rst.get(&1) {
            format!("RST_STREAM({})", code_name(*c))
        } else if let Some(r) = p.o.resp.get(&1) {
            format!("HTTP {:?}", r.status)
        } else {
            format!("nothing (closed={:?})", p.o.closed)
        };
        sink.obs(&format!("front.header_workload_outcome/{kind}/{}", outcome.split('(').next().unwrap_or("").trim()), 1);
        // let a forwarded request reach the backend before looking
        if p.alive() {
            let _ = p.ping_fence(react_bound());
        }
        std::thread::sleep(Duration::from_millis(40));
        let forwarded = cell.seen_path(&path);
        if over {
            sink.obs("front.overcommit_checks/header_list", 1);
            if forwarded {
                sink.violation(
                    &format!("h2hostile/front/overcommit/header_list_above_limit_forwarded/{kind}"),
                    "a request whose header list exceeds the advertised SETTINGS_MAX_HEADER_LIST_SIZE / the documented field limit was forwarded to a backend",
                    with(&wbase, json!({"expected": "never forwarded", "observed": format!("request seen at the backend; client saw {outcome}"), "trace": p.trace()})),
                );
            } else {
                sink.obs("front.oversized_header_list_not_forwarded", 1);
            }
        } else if forwarded {
            sink.obs("front.header_list_below_limits_forwarded", 1);
        } else {
            sink.obs("exempt:front.header_list_below_limits_not_forwarded", 1);
        }
        cell.last_trace = p.trace();
        cell.last_end = end_kind(&p.o);
        crate::common::rng::fnv1a(format!("hdr/{kind}/{small}/{host}").as_bytes())
    }


    // ------------------------------------------------------------------------------------------
    // workload: trailer sections above the documented header budgets (128 fields per block, the
    // advertised SETTINGS_MAX_HEADER_LIST_SIZE), built from names sozu elides from trailers as well
    // as from ordinary names — the budget must not depend on the name
    // ------------------------------------------------------------------------------------------

    const TRAILER_KINDS: [&str; 8] = [
        "elided_many_fields",
        "plain_many_fields",
        "elided_indexed_bomb",
        "plain_indexed_bomb",
        "elided_indexed_bomb_many_refs",
        "elided_below_limits",
        "plain_below_limits",
        "elided_between_8k_and_advertised",
    ];
    const ELIDED_NAMES: [&str; 4] = ["x-real-ip", "x-forwarded-for", "forwarded", "x-request-id"];

    fn fam_trailer(cell: &mut Cell, spec: &Spec, rng: &mut Rng, sink: &mut Sink, base: &Value) -> u64 {
        let ordinal = spec.cell * 4096 + spec.j;
        let kind = TRAILER_KINDS[((ordinal / ROTATION.len() as u64 + ordinal) % TRAILER_KINDS.len() as u64) as usize];
        let small = rng.bool();
        let addr = if small { cell.b } else { cell.a };
        let host = if rng.chance(1, 3) { H2OK_HOST } else { H1_HOST };
        let mut p = match open_client(addr, host, true, IoProgram::fast()) {
            Ok(p) => p,
            Err(e) => {
                sink.inconclusive(&format!("trailer: no connection: {}", e.split(':').next().unwrap_or("")));
                return 0;
            }
        };
        sink.obs("connections", 1);
        let _ = p.ping_fence(react_bound());
        let tag = cell.tag();
        let tok = format!("{tag}-tr");
        let adv = p.c.peer_settings.max_header_list_size;
        let limit_size = if adv == u32::MAX { 65_536 } else { adv as usize };
        let limit_fields = 128usize;
        let elided = kind.starts_with("elided");
        let name_of = |rng: &mut Rng, i: usize| -> String {
            if elided { (*rng.pick(&ELIDED_NAMES)).to_owned() } else { format!("x-t{i}") }
        };
        // literal without indexing, new name
        let literal = |out: &mut Vec<u8>, first: u8, n: &[u8], v: &[u8]| {
            out.push(first);
            out.extend(h2::hpack_int(n.len(), 7, 0));
            out.extend_from_slice(n);
            out.extend(h2::hpack_int(v.len(), 7, 0));
            out.extend_from_slice(v);
        };
        let mut block = Vec::new();
        let mut fields = 0usize;
        let mut size = 0usize;
        match kind {
            "elided_many_fields" | "plain_many_fields" | "elided_below_limits" | "plain_below_limits" => {
                let n = if kind.ends_with("below_limits") { rng.urange(1, 40) } else { rng.urange(limit_fields + 1, limit_fields + 200) };
                for i in 0..n {
                    let name = name_of(rng, i);
                    let value = format!("10.0.{}.{}", i / 250, i % 250);
                    literal(&mut block, 0x00, name.as_bytes(), value.as_bytes());
                    fields += 1;
                    size += name.len() + value.len() + 32;
                }
            }
            _ => {
                // one entry put into the dynamic table, then one-octet references to it
                let name = if elided { (*rng.pick(&ELIDED_NAMES)).to_owned() } else { "x-bomb".to_owned() };
                let value = vec![b'b'; 3000];
                literal(&mut block, 0x40, name.as_bytes(), &value);
                let refs = match kind {
                    "elided_indexed_bomb_many_refs" => rng.urange(500, 4000),
                    "elided_between_8k_and_advertised" => rng.urange(3, 15),
                    _ => rng.urange(40, 300),
                };
                for _ in 0..refs {
                    block.push(0x80 | 62);
                }
                fields = refs + 1;
                size = fields * (name.len() + value.len() + 32);
            }
        }
        let over = fields > limit_fields || size > limit_size;
        let judged = over || kind.ends_with("below_limits");
        let body = b"request body before the trailers".to_vec();
        let mut frs = vec![
            req_frame(&mut p, 1, "POST", host, &format!("/echo/{tok}"), &tag, false),
            Fr::new(h2::FT_DATA, 0, 1, body.clone()),
        ];
        let chunks: Vec<&[u8]> = block.chunks(16_384).collect();
        for (i, c) in chunks.iter().enumerate() {
            let last = i + 1 == chunks.len();
            let flags = if last { h2::FL_END_HEADERS } else { 0 };
            if i == 0 {
                frs.push(Fr::new(h2::FT_HEADERS, h2::FL_END_STREAM | flags, 1, c.to_vec()));
            } else {
                frs.push(Fr::new(h2::FT_CONTINUATION, flags, 1, c.to_vec()));
            }
        }
        let wbase = with(base, json!({"listener": if small { "B" } else { "A" }, "host": host, "workload": kind, "trailer_fields": fields,
            "trailer_list_size_rfc9113_6_5_2": size, "wire_block_bytes": block.len(), "names": if elided { "x-real-ip / x-forwarded-for / forwarded / x-request-id (elided from trailers by sozu)" } else { "ordinary" },
            "advertised_max_header_list_size": if adv == u32::MAX { Value::Null } else { json!(adv) }, "documented_limits": {"fields_per_trailers_block": 128}}));
        sink.obs(&format!("front.trailer_workload/{kind}"), 1);
        let cpu0 = cell.cpu();
        let t0 = Instant::now();
        let sent = p.send_frs(&frs);
        cell.status(sink, "during", &wbase);
        let _ = sent && p.pump(react_bound(), &mut |o| o.resp.get(&1).is_some_and(|r| r.ended) || o.rst.contains_key(&1) || o.goaway.is_some());
        sink.max("front.trailer_workload_reaction_ms", t0.elapsed().as_millis() as u64);
        sink.max("front.trailer_workload_worker_cpu_ms", cell.cpu().saturating_sub(cpu0));
        let accepted = p.o.resp.get(&1).is_some_and(|r| r.ended && r.status == Some(200) && r.body == format!("{tok}:{}", body.len()).as_bytes());
        let outcome = if let Some((_, c)) = p.o.goaway {
            format!("GOAWAY({})", code_name(c))
        } else if let Some(c) = p.o.rst.get(&1) {
            format!("RST_STREAM({})", code_name(*c))
        } else if let Some(r) = p.o.resp.get(&1) {
            format!("HTTP {:?}", r.status)
        } else {
            format!("nothing (closed={:?})", p.o.closed)
        };
        sink.obs(&format!("front.trailer_workload_outcome/{kind}/{}", outcome.split('(').next().unwrap_or("").trim()), 1);
        if over {
            sink.obs("front.overcommit_checks/trailer_block", 1);
            if accepted {
                sink.violation(
                    &format!("h2hostile/front/overcommit/trailer_block_above_limit_accepted/{kind}"),
                    "a trailer section that exceeds the documented field count per block or the advertised SETTINGS_MAX_HEADER_LIST_SIZE was decoded and accepted: the request completed and was answered by the backend",
                    with(&wbase, json!({"expected": "the block is rejected (RST_STREAM / GOAWAY, ENHANCE_YOUR_CALM), whatever the field names", "observed": format!("{outcome}, request answered by the backend"), "trace": p.trace()})),
                );
            } else {
                sink.obs(if elided { "front.oversized_trailer_block_rejected/elided_names" } else { "front.oversized_trailer_block_rejected/ordinary_names" }, 1);
            }
        } else if judged {
            sink.obs(if accepted { "front.trailer_block_below_limits_accepted" } else { "exempt:front.trailer_block_below_limits_not_accepted" }, 1);
        } else {
            // above sozu's own 8 KiB carve-out for trailers, below everything it documents or advertises
            sink.obs(if accepted { "exempt:front.trailer_block_between_8k_and_advertised/accepted" } else { "exempt:front.trailer_block_between_8k_and_advertised/rejected" }, 1);
        }
        cell.last_trace = p.trace();
        cell.last_end = end_kind(&p.o);
        crate::common::rng::fnv1a(format!("trailer/{kind}/{small}/{host}").as_bytes())
    }


    // ------------------------------------------------------------------------------------------
    // workload: answers of the h2c backend that cross sozu's own RST_STREAM (the client cancels a
    // stream whose answer is queued at the backend) — RFC 9113 §5.1: the endpoint that reset a
    // stream must put up with what the peer sent before it saw the reset, keep HPACK and the
    // connection window in step, and keep serving the other streams of the connection
    // ------------------------------------------------------------------------------------------

    fn fam_crossing(cell: &mut Cell, _spec: &Spec, rng: &mut Rng, sink: &mut Sink, base: &Value) -> u64 {
        let small = rng.bool();
        let addr = if small { cell.b } else { cell.a };
        let host = H2OK_HOST;
        let mut p = match open_client(addr, host, true, IoProgram::fast()) {
            Ok(p) => p,
            Err(e) => {
                sink.inconclusive(&format!("crossing: no connection: {}", e.split(':').next().unwrap_or("")));
                return 0;
            }
        };
        sink.obs("connections", 1);
        let tag = cell.tag();
        let nb = rng.urange(1, 2) as u32;
        let nv = rng.urange(1, 3) as u32;
        let mut sid = 1u32;
        let mut frs = Vec::new();
        let mut bystanders: Vec<(u32, String)> = Vec::new();
        // (stream, token, race with the reset?, request finished?)
        let mut victims: Vec<(u32, String, bool, &'static str)> = Vec::new();
        for i in 0..(nb + nv) {
            // bystanders and victims interleaved
            let victim = (i % 2 == 1 && (victims.len() as u32) < nv) || (bystanders.len() as u32) >= nb;
            if victim {
                let tok = format!("{tag}-x{sid}");
                let race = rng.chance(1, 3);
                let shape = *rng.pick(&["plain", "split", "trailers", "noisy"]);
                let post = rng.chance(1, 4);
                let path = format!("/cross/{}-{shape}/{tok}", if race { "race" } else { "after" });
                frs.push(req_frame(&mut p, sid, if post { "POST" } else { "GET" }, host, &path, &tag, !post));
                if post {
                    frs.push(Fr::new(h2::FT_DATA, h2::FL_END_STREAM, sid, b"body".to_vec()));
                }
                victims.push((sid, tok, race, shape));
            } else {
                let tok = format!("{tag}-y{sid}");
                frs.push(req_frame(&mut p, sid, "GET", host, &format!("/hold/{tok}"), &tag, true));
                bystanders.push((sid, tok));
            }
            sid += 2;
        }
        let wbase = with(base, json!({"listener": if small { "B" } else { "A" }, "host": host,
            "streams_the_client_cancels": victims.iter().map(|v| json!({"stream": v.0, "answer_written": if v.2 { "when released, at the moment of the reset" } else { "when the backend reads sozu's RST_STREAM" }, "answer": v.3})).collect::<Vec<_>>(),
            "other_streams_on_the_same_backend_connection": bystanders.iter().map(|b| b.0).collect::<Vec<_>>()}));
        if !p.send_frs(&frs) || p.ping_fence(react_bound()) != Fence::Acked {
            sink.inconclusive("crossing: setup failed");
            return 0;
        }
        let _ = cell.wait_backend_inflight(&tag, (nb + nv) as i64, Duration::from_millis(2000));
        // the client cancels: sozu resets the streams towards the backend, whose answers cross
        for (vsid, tok, race, _) in &victims {
            let rst = Fr::new(h2::FT_RST_STREAM, 0, *vsid, h2::ERR_CANCEL.to_be_bytes().to_vec());
            if *race && rng.bool() {
                release(&cell.sh, tok);
                let _ = p.send_frs(&[rst]);
            } else {
                let _ = p.send_frs(&[rst]);
                if *race {
                    release(&cell.sh, tok);
                }
            }
        }
        sink.obs("back.streams_cancelled_with_a_queued_answer", victims.len() as u64);
        let _ = p.ping_fence(react_bound());
        cell.status(sink, "during", &wbase);
        // the backend polls every 10 ms: let the crossing answers go out and reach sozu
        std::thread::sleep(Duration::from_millis(40));
        let _ = p.ping_fence(react_bound());
        for (_, tok) in &bystanders {
            release(&cell.sh, tok);
        }
        let want: Vec<u32> = bystanders.iter().map(|b| b.0).collect();
        let _ = p.pump(react_bound(), &mut |o| o.goaway.is_some() || want.iter().all(|s| o.resp.get(s).is_some_and(|r| r.ended) || o.rst.contains_key(s)));
        let mut bad = Vec::new();
        for (bsid, tok) in &bystanders {
            match p.o.resp.get(bsid) {
                Some(r) if r.ended && r.status == Some(200) && r.body == format!("{tok}:0").as_bytes() => sink.obs("back.bystander_streams_answered_after_a_crossing", 1),
                other => bad.push(format!("stream {bsid}: {:?} rst={:?}", other.map(|r| (r.status, r.ended)), p.o.rst.get(bsid).map(|c| code_name(*c)))),
            }
        }
        if !bad.is_empty() {
            sink.violation(
                "h2hostile/back/answer_crossing_own_rst_stream_kills_other_streams",
                "after sozu reset streams towards an h2c backend, the backend's answers that crossed the RST_STREAM made sozu fail the other streams of that backend connection",
                with(&wbase, json!({"expected": "the crossing frames are ignored (HPACK and flow control kept in step); the other streams are answered 200",
                    "observed": format!("goaway_to_client={:?}; {bad:?}", p.o.goaway.map(|g| code_name(g.1))), "trace": p.trace()})),
            );
        } else {
            sink.obs("back.crossing_scenarios_survived", 1);
        }
        cell.last_trace = p.trace();
        cell.last_end = end_kind(&p.o);
        crate::common::rng::fnv1a(format!("crossing/{small}/{nb}/{nv}/{}", victims.iter().map(|v| v.3).collect::<Vec<_>>().join(",")).as_bytes())
    }

    // ------------------------------------------------------------------------------------------
    // workload: slot recycling (open many, reset many, open again) at the minimum shrink ratio
    // ------------------------------------------------------------------------------------------

    fn fam_recycle(cell: &mut Cell, _spec: &Spec, rng: &mut Rng, sink: &mut Sink, base: &Value) -> u64 {
        let host = if rng.bool() { H2OK_HOST } else { H1_HOST };
        let mut p = match open_client(cell.b, host, true, IoProgram::fast()) {
            Ok(p) => p,
            Err(e) => {
                sink.inconclusive(&format!("recycle: no connection: {}", e.split(':').next().unwrap_or("")));
                return 0;
            }
        };
        sink.obs("connections", 1);
        let tag = cell.tag();
        let cap = (p.c.peer_settings.max_concurrent_streams.min(SMALL.mcs)) as usize;
        // live streams: (sid, token, is_post)
        let mut live: Vec<(u32, String, bool)> = Vec::new();
        let mut next = 1u32;
        let mut resets = 0u32;
        let mut finished = 0u64;
        let mut pattern_log = Vec::new();
        let rounds = rng.urange(3, 6);
        let wbase = with(base, json!({"listener": "B (8 streams, shrink ratio 2)", "host": host}));
        let mut failure: Option<(String, String, String)> = None;
        'rounds: for round in 0..rounds {
            // open
            let k = rng.urange(1, cap - live.len().min(cap - 1));
            let mut frs = Vec::new();
            for _ in 0..k {
                if live.len() >= cap {
                    break;
                }
                let post = rng.bool();
                let tok = format!("{tag}-r{next}");
                let path = if post { format!("/echo/{tok}") } else { format!("/hold/{tok}") };
                frs.push(req_frame(&mut p, next, if post { "POST" } else { "GET" }, host, &path, &tag, !post));
                live.push((next, tok, post));
                next += 2;
            }
            if !p.send_frs(&frs) {
                break;
            }
            if rng.bool() && p.ping_fence(react_bound()) != Fence::Acked {
                break;
            }
            // reset a pattern (keeping the total of resets under half the RST thresholds)
            let budget = (SMALL.rst.min(SMALL.abusive as u32) / 2).saturating_sub(resets + 1) as usize;
            let pat = *rng.pick(&["all", "odd", "tail", "head", "random", "none"]);
            let mut victims: Vec<usize> = match pat {
                "all" => (0..live.len()).collect(),
                "odd" => (0..live.len()).filter(|i| i % 2 == 1).collect(),
                "tail" => (live.len() / 2..live.len()).collect(),
                "head" => (0..live.len() / 2).collect(),
                "random" => (0..live.len()).filter(|_| rng.bool()).collect(),
                _ => Vec::new(),
            };
            victims.truncate(budget);
            pattern_log.push(format!("round {round}: opened {k}, reset {pat} ({} streams)", victims.len()));
            let mut rfrs = Vec::new();
            for i in victims.iter().rev() {
                let (sid, tok, _) = live.remove(*i);
                rfrs.push(Fr::new(h2::FT_RST_STREAM, 0, sid, h2::ERR_CANCEL.to_be_bytes().to_vec()));
                release(&cell.sh, &tok);
                resets += 1;
            }
            if !rfrs.is_empty() && !p.send_frs(&rfrs) {
                break;
            }
            sink.obs("front.recycle_resets", rfrs.len() as u64);
            if round == 1 {
                cell.status(sink, "during", &wbase);
            }
            // complete some survivors and check they get their own answer
            let n_done = rng.urange(0, live.len());
            for _ in 0..n_done {
                let i = rng.usize_below(live.len());
                let (sid, tok, post) = live.remove(i);
                let body = format!("body-of-{tok}");
                if post {
                    if !p.send_frs(&[Fr::new(h2::FT_DATA, h2::FL_END_STREAM, sid, body.clone().into_bytes())]) {
                        break 'rounds;
                    }
                } else {
                    release(&cell.sh, &tok);
                }
                let _ = p.pump(react_bound(), &mut |o| o.resp.get(&sid).is_some_and(|r| r.ended) || o.rst.contains_key(&sid) || o.goaway.is_some());
                let want = if post { format!("{tok}:{}", body.len()) } else { format!("{tok}:0") };
                match p.o.resp.get(&sid) {
                    Some(r) if r.ended && r.status == Some(200) && r.body == want.as_bytes() => finished += 1,
                    Some(r) if r.ended && r.status == Some(200) => {
                        failure = Some((
                            "h2hostile/front/recycle/response_of_another_stream".into(),
                            "after resets and slot reuse a stream received an answer that belongs to another request".into(),
                            format!("stream {sid}: expected body {want:?}, got {:?}", String::from_utf8_lossy(&r.body)),
                        ));
                        break 'rounds;
                    }
                    other => {
                        if let Some((_, code)) = p.o.goaway.filter(|g| g.1 == h2::ERR_NO_ERROR) {
                            // a graceful GOAWAY (sozu drains a connection after a default answer)
                            sink.obs(&format!("front.recycle_ended_by_graceful_goaway/{}", code_name(code)), 1);
                        } else if let Some((_, code)) = p.o.goaway {
                            failure = Some((
                                "h2hostile/front/flood/tripped_below_half_threshold/recycle".into(),
                                "sozu ended a connection that stayed below half of every configured RST_STREAM threshold".into(),
                                format!("GOAWAY({}) after {resets} resets (thresholds: window {} / pre-response lifetime {})", code_name(code), SMALL.rst, SMALL.abusive),
                            ));
                        } else if let Some(code) = p.o.rst.get(&sid) {
                            failure = Some((
                                "h2hostile/front/recycle/live_stream_reset".into(),
                                "after resets of other streams and slot reuse sozu reset a stream that was still alive and valid".into(),
                                format!("stream {sid}: RST_STREAM({})", code_name(*code)),
                            ));
                        } else if let Some(r) = other.filter(|r| r.ended) {
                            failure = Some((
                                "h2hostile/front/recycle/live_stream_answered_with_error".into(),
                                "after resets of other streams and slot reuse a stream that was still alive and valid got an error answer instead of its backend's".into(),
                                format!("stream {sid}: HTTP {:?}", r.status),
                            ));
                        } else {
                            sink.inconclusive("recycle: no answer for a surviving stream");
                        }
                        break 'rounds;
                    }
                }
            }
        }
        if let Some((sig, what, observed)) = failure {
            sink.violation(&sig, &what, with(&wbase, json!({"rounds": pattern_log, "expected": "every surviving stream gets the answer to its own request", "observed": observed, "trace": p.trace()})));
        }
        sink.obs("front.recycle_streams_answered_correctly", finished);
        sink.max("front.recycle_streams_opened_on_one_connection", (next / 2) as u64);
        for (_, tok, _) in &live {
            release(&cell.sh, tok);
        }
        cell.last_trace = p.trace();
        cell.last_end = end_kind(&p.o);
        crate::common::rng::fnv1a(format!("recycle/{host}/{rounds}").as_bytes())
    }

    // ------------------------------------------------------------------------------------------
    // workload: before / inside the connection preface
    // ------------------------------------------------------------------------------------------

    const PREFACE_KINDS: [&str; 10] = [
        "garbage",
        "http1_text",
        "preface_then_ping",
        "preface_then_headers",
        "preface_then_settings_ack",
        "preface_then_settings_on_stream_1",
        "preface_then_settings_bad_length",
        "frame_inside_preface",
        "preface_corrupted_last_octet",
        "split_preface_valid",
    ];

    fn fam_preface(cell: &mut Cell, spec: &Spec, rng: &mut Rng, sink: &mut Sink, base: &Value) -> u64 {
        let ordinal = spec.cell * 4096 + spec.j;
        let kind = PREFACE_KINDS[(ordinal % PREFACE_KINDS.len() as u64) as usize];
        let addr = if rng.bool() { cell.b } else { cell.a };
        let tcp = match peers::connect(addr, None, &IoProgram::fast(), Duration::from_secs(5)) {
            Ok(t) => t,
            Err(e) => {
                sink.inconclusive(&format!("preface: connect: {}", e.kind()));
                return 0;
            }
        };
        let t = match tls::TlsClient::handshake(tcp, H1_HOST, tls::client_config(&["h2"]), Duration::from_secs(8)) {
            Ok((t, _)) => t,
            Err(_) => {
                sink.inconclusive("preface: tls handshake");
                return 0;
            }
        };
        sink.obs("connections", 1);
        let mut c = H2Conn::new(t, Role::Client);
        c.auto_ack = true;
        c.enc.mode = HpackMode::LiteralOnly;
        let mut p: Client = Peer::new(c);
        let tag = cell.tag();
        let pre = h2::PREFACE.to_vec();
        let settings = Fr::new(h2::FT_SETTINGS, 0, 0, Vec::new()).wire();
        let mut bytes = Vec::new();
        let mut must_close = true;
        match kind {
            "garbage" => {
                let n = rng.urange(24, 80);
                bytes = rng.bytes(n);
            }
            "http1_text" => bytes = b"GET / HTTP/1.1\r\nHost: h1.test\r\n\r\n".to_vec(),
            "preface_then_ping" => {
                bytes = pre.clone();
                bytes.extend(Fr::new(h2::FT_PING, 0, 0, vec![1; 8]).wire());
            }
            "preface_then_headers" => {
                bytes = pre.clone();
                bytes.extend(req_frame(&mut p, 1, "GET", H1_HOST, "/ok/x", &tag, true).wire());
            }
            "preface_then_settings_ack" => {
                bytes = pre.clone();
                bytes.extend(Fr::new(h2::FT_SETTINGS, h2::FL_ACK, 0, Vec::new()).wire());
            }
            "preface_then_settings_on_stream_1" => {
                bytes = pre.clone();
                bytes.extend(Fr::new(h2::FT_SETTINGS, 0, 1, Vec::new()).wire());
            }
            "preface_then_settings_bad_length" => {
                bytes = pre.clone();
                bytes.extend(Fr::new(h2::FT_SETTINGS, 0, 0, vec![0, 4, 0, 0, 1]).wire());
            }
            "frame_inside_preface" => {
                let cut = rng.urange(1, 23);
                bytes = pre[..cut].to_vec();
                bytes.extend(Fr::new(h2::FT_PING, 0, 0, vec![1; 8]).wire());
                bytes.extend_from_slice(&pre[cut..]);
            }
            "preface_corrupted_last_octet" => {
                bytes = pre.clone();
                bytes[23] ^= 0x20;
                bytes.extend(&settings);
            }
            _ => {
                must_close = false;
            }
        }
        let wbase = with(base, json!({"workload": kind, "bytes_hex": hex_capped(&bytes)}));
        sink.obs(&format!("front.preface_workload/{kind}"), 1);
        if must_close {
            let t0 = Instant::now();
            let _ = p.send_bytes(format!("{kind}: {} bytes", bytes.len()), &bytes);
            cell.status(sink, "during", &wbase);
            match p.await_close(t0, close_bound()) {
                Some(ms) => {
                    sink.obs("front.invalid_preface_connection_closed", 1);
                    sink.max("front.invalid_preface_close_ms", ms);
                    if p.o.goaway.is_some() {
                        sink.obs("front.invalid_preface_goaway_sent", 1);
                    }
                }
                None => sink.suspect(
                    &format!("h2hostile/front/invalid_preface_not_closed/{kind}"),
                    "an invalid connection preface / first frame (RFC 9113 §3.4: connection error) left the connection open beyond the bound",
                    with(&wbase, json!({"expected": format!("connection closed within {:?}", close_bound()), "observed": format!("still open; goaway={:?}", p.o.goaway), "trace": p.trace()})),
                ),
            }
        } else {
            // a valid preface in pieces with pauses, then a valid request
            p.c.io_prog = IoProgram { write_seg: rng.urange(1, 9), write_pause_us: 500, ..IoProgram::default() };

            let mut all = pre.clone();
            all.extend(&settings);
            let ok = p.send_bytes("valid preface + SETTINGS, segmented".into(), &all);
            p.c.io_prog = IoProgram::fast();
            let got = ok && p.pump(react_bound(), &mut |o| o.settings_frames >= 1);
            let tok = format!("{tag}-pre");
            match (got, simple_get(&mut p, 1, H1_HOST, &format!("/ok/{tok}"), &tag, react_bound())) {
                (true, Ok((200, b))) if b.starts_with(tok.as_bytes()) => sink.obs("front.segmented_valid_preface_served", 1),
                (_, other) => sink.violation(
                    "h2hostile/front/valid_segmented_preface_not_served",
                    "a valid connection preface written in small segments was not followed by a served request",
                    with(&wbase, json!({"expected": "200", "observed": format!("{other:?}"), "trace": p.trace()})),
                ),
            }
        }
        cell.last_trace = p.trace();
        cell.last_end = end_kind(&p.o);
        crate::common::rng::fnv1a(format!("preface/{kind}").as_bytes())
    }

    // ------------------------------------------------------------------------------------------
    // workload: hostile h2c backend (sozu is the HTTP/2 client)
    // ------------------------------------------------------------------------------------------

    fn fam_backend(cell: &mut Cell, spec: &Spec, rng: &mut Rng, sink: &mut Sink, base: &Value) -> u64 {
        let ordinal = spec.cell * 4096 + spec.j;
        let kind = HB_KINDS[(ordinal % HB_KINDS.len() as u64) as usize];
        let mult_half = [1u32, 2, 4][((ordinal / HB_KINDS.len() as u64 + spec.seed) % 3) as usize];
        // the backend-side thresholds are those of the listener the client came through: B
        let mut p = match open_client(cell.b, H2_HOST, true, IoProgram::fast()) {
            Ok(p) => p,
            Err(e) => {
                sink.inconclusive(&format!("backend: no connection: {}", e.split(':').next().unwrap_or("")));
                return 0;
            }
        };
        sink.obs("connections", 1);
        let tag = cell.tag();
        let tok = format!("{tag}-hb");
        // an unfinished POST keeps the stream open at sozu for the stream-level behaviours
        let post = matches!(kind, "wu_overflow_stream" | "wu_zero_stream") || rng.chance(1, 4);
        let path = format!("/hb/{kind}/{mult_half}/{tok}");
        let wbase = with(base, json!({"backend_behaviour": kind, "multiplier_x2": mult_half, "request": format!("{} {path}", if post { "POST (unfinished)" } else { "GET" })}));
        // optionally other streams on the same backend connection
        let mut sid = 1u32;
        let mut others = Vec::new();
        if rng.chance(1, 3) {
            let t2 = format!("{tag}-side");
            let f = req_frame(&mut p, sid, "GET", H2_HOST, &format!("/hold/{t2}"), &tag, true);
            let _ = p.send_frs(&[f]);
            others.push(t2);
            sid += 2;
        }
        let f = req_frame(&mut p, sid, if post { "POST" } else { "GET" }, H2_HOST, &path, &tag, !post);
        sink.obs(&format!("back.workload/{kind}"), 1);
        if !p.send_frs(&[f]) {
            sink.inconclusive("backend: request not written");
            return 0;
        }
        // wait for the backend thread to finish its judgement; once the client has its answer (or
        // the connection is over) without the backend having been reached, it never will be
        let deadline = Instant::now() + paced(Duration::from_secs(12));
        let mut done = None;
        let mut answered_at: Option<Instant> = None;
        while Instant::now() < deadline {
            let _ = p.pump(Duration::from_millis(20), &mut |_| false);
            if let Some(v) = lock(&cell.sh).hb_done.remove(&tok) {
                done = Some(v);
                break;
            }
            let over = p.o.resp.get(&sid).is_some_and(|r| r.ended) || p.o.rst.contains_key(&sid) || p.o.goaway.is_some() || p.o.closed.is_some();
            if over && lock(&cell.sh).seen.iter().all(|s| !s.1.ends_with(&tok)) {
                let since = *answered_at.get_or_insert_with(Instant::now);
                if since.elapsed() > paced(Duration::from_millis(500)) {
                    break;
                }
            }
        }
        cell.status(sink, "during", &wbase);
        match done {
            Some(v) => {
                sink.obs("back.behaviours_completed", 1);
                sink.sample(json!({"hostile_backend": v}));
            }
            None => {
                let got = if let Some(r) = p.o.resp.get(&sid) {
                    format!("the client was answered {}", r.status.unwrap_or(0))
                } else if p.o.rst.contains_key(&sid) || p.o.goaway.is_some() || p.o.closed.is_some() {
                    "the client's stream or connection was ended".to_owned()
                } else {
                    "the client got nothing".to_owned()
                };
                sink.inconclusive(&format!("backend: the hostile behaviour was never reached ({got})"));
            }
        }
        // what the client got for the stream
        let _ = p.pump(Duration::from_millis(800), &mut |o| o.resp.get(&sid).is_some_and(|r| r.ended) || o.rst.contains_key(&sid) || o.goaway.is_some());
        let outcome = if let Some((_, c)) = p.o.goaway {
            format!("goaway_{}", code_name(c))
        } else if let Some(c) = p.o.rst.get(&sid) {
            format!("rst_{}", code_name(*c))
        } else if let Some(r) = p.o.resp.get(&sid) {
            if r.ended { format!("http_{}", r.status.unwrap_or(0)) } else { "unfinished".into() }
        } else {
            "nothing_yet".into()
        };
        sink.obs(&format!("back.client_outcome/{outcome}"), 1);
        if kind == "unknown_frame" && outcome != "http_200" && !post {
            sink.violation(
                "h2hostile/back/reaction/valid_frame_answered_with_error/unknown_frame_type_ignored",
                "a frame of unknown type from the backend (RFC 9113 §5.5: MUST be ignored) prevented the response that followed it from reaching the client",
                with(&wbase, json!({"expected": "200", "observed": outcome, "trace": p.trace()})),
            );
        }
        // the client connection itself keeps working (another cluster)
        if p.alive() {
            let nsid = sid + 2;
            let t3 = format!("{tag}-after");
            match simple_get(&mut p, nsid, H1_HOST, &format!("/ok/{t3}"), &tag, react_bound()) {
                Ok((200, b)) if b.starts_with(t3.as_bytes()) => sink.obs("back.client_connection_survived", 1),
                other => sink.obs(&format!("back.client_connection_after/{}", match other { Ok((s, _)) => format!("http_{s}"), Err(e) => e.split('(').next().unwrap_or("").to_owned() }), 1),
            }
        } else {
            sink.obs("back.client_connection_ended", 1);
        }
        for t in &others {
            release(&cell.sh, t);
        }
        cell.last_trace = p.trace();
        cell.last_end = end_kind(&p.o);
        crate::common::rng::fnv1a(format!("backend/{kind}/{mult_half}/{post}").as_bytes())
    }


    // ------------------------------------------------------------------------------------------
    // workload: only valid traffic, but written in small segments (frame headers and payloads
    // arrive in pieces while sozu has control frames of its own to write)
    // ------------------------------------------------------------------------------------------

    fn fam_segmented(cell: &mut Cell, spec: &Spec, rng: &mut Rng, sink: &mut Sink, base: &Value) -> u64 {
        let mut fp = 0u64;
        for _ in 0..4 {
            fp ^= segmented_connection(cell, spec, rng, sink, base);
            if cell.dead {
                break;
            }
        }
        fp
    }

    fn segmented_connection(cell: &mut Cell, _spec: &Spec, rng: &mut Rng, sink: &mut Sink, base: &Value) -> u64 {
        // listener A: the scripted backends answer every DATA frame with WINDOW_UPDATEs, which the
        // small thresholds of listener B (they apply to backend connections too) would count as a flood
        let small = false;
        let addr = cell.a;
        // the H1 cluster: the verdict is about the frontend connection alone
        let host = H1_HOST;
        let seg = rng.urange(2, 13);
        let pause = *rng.pick(&[0u64, 100, 300]);
        let prog = IoProgram { write_seg: seg, write_pause_us: pause, ..IoProgram::default() };
        // the SETTINGS acknowledgement of the start-up exchange is written in segments too
        let mut p = match open_client_traced(addr, host, true, prog) {
            Ok(p) => p,
            Err((e, trace)) => {
                if e.starts_with("settings exchange") {
                    sink.obs("connections", 1);
                    sink.violation(
                        "h2hostile/front/valid_segmented_traffic_rejected",
                        "a connection carrying only valid frames, written in small segments, was ended or had requests reset / answered wrongly",
                        with(base, json!({"listener": "A", "host": host, "write_segment": seg, "write_pause_us": pause, "workload": "start-up: preface + SETTINGS in one piece, then the SETTINGS acknowledgement in small segments",
                            "expected": "SETTINGS exchange completes", "observed": e, "trace": trace})),
                    );
                } else {
                    sink.inconclusive(&format!("segmented: no connection: {}", e.split(':').next().unwrap_or("")));
                }
                return 0;
            }
        };
        sink.obs("connections", 1);
        let tag = cell.tag();
        let wbase = with(base, json!({"listener": if small { "B" } else { "A" }, "host": host, "write_segment": seg, "write_pause_us": pause,
            "workload": "valid frames only: POST bodies in small DATA frames, PING, PRIORITY, WINDOW_UPDATE, frames of unknown type"}));
        let mut sid = 1u32;
        let mut budget = 2500usize;
        let mut posts: Vec<(u32, String, usize)> = Vec::new();
        let steps = rng.urange(2, 5);
        let mut sent_ok = true;
        for step in 0..steps {
            if !sent_ok || !p.alive() || budget < 300 {
                break;
            }
            match rng.below(6) {
                0..=2 => {
                    let n = rng.urange(100, budget.min(1500));
                    budget -= n;
                    let tok = format!("{tag}-s{sid}");
                    let mut frs = vec![req_frame(&mut p, sid, "POST", host, &format!("/echo/{tok}"), &tag, false)];
                    let body: Vec<u8> = (0..n).map(|i| b'a' + (i % 26) as u8).collect();
                    let piece = rng.urange(20, 400);
                    let chunks: Vec<&[u8]> = body.chunks(piece).collect();
                    for (i, c) in chunks.iter().enumerate() {
                        frs.push(Fr::new(h2::FT_DATA, if i + 1 == chunks.len() { h2::FL_END_STREAM } else { 0 }, sid, c.to_vec()));
                    }
                    sink.obs("front.segmented_frames_sent", frs.len() as u64);
                    sent_ok = p.send_frs(&frs);
                    posts.push((sid, tok, n));
                    sid += 2;
                }
                3 => {
                    let (_, f) = p.ping_frame();
                    sent_ok = p.send_frs(&[f, Fr::new(0xee, 0xff, 0, b"unknown".to_vec())]);
                }
                4 => sent_ok = p.send_frs(&[Fr::new(h2::FT_PRIORITY, 0, sid + 10, vec![0, 0, 0, 0, 16]), Fr::new(h2::FT_WINDOW_UPDATE, 0, 0, 10u32.to_be_bytes().to_vec())]),
                _ => sent_ok = p.send_frs(&[Fr::new(0x0b, 0, sid, vec![1, 2, 3, 4, 5])]),
            }
            if step == 1 {
                cell.status(sink, "during", &wbase);
            }
            // read along, so that sozu's answers and WINDOW_UPDATEs flow
            let _ = p.pump(Duration::from_millis(5), &mut |_| false);
        }
        let want: Vec<u32> = posts.iter().map(|x| x.0).collect();
        let _ = p.pump(react_bound(), &mut |o| o.goaway.is_some() || want.iter().all(|s| o.resp.get(s).is_some_and(|r| r.ended) || o.rst.contains_key(s)));
        sink.obs("front.segmented_connections", 1);
        let mut bad = Vec::new();
        for (s, tok, n) in &posts {
            match p.o.resp.get(s) {
                Some(r) if r.ended && r.status == Some(200) && r.body == format!("{tok}:{n}").as_bytes() => sink.obs("front.segmented_requests_served", 1),
                other => bad.push(format!("stream {s}: {:?} rst={:?}", other.map(|r| (r.status, r.ended, String::from_utf8_lossy(&r.body).into_owned())), p.o.rst.get(s).map(|c| code_name(*c)))),
            }
        }
        if p.o.goaway.is_some() || p.o.closed.is_some() || !bad.is_empty() {
            let observed = format!("goaway={:?} closed={:?} requests not served: {bad:?}", p.o.goaway.map(|g| code_name(g.1)), p.o.closed);
            if p.o.goaway.is_some() || p.o.closed.is_some() || bad.iter().any(|b| b.contains("rst=Some") || b.contains("Some((Some(")) {
                sink.violation(
                    "h2hostile/front/valid_segmented_traffic_rejected",
                    "a connection carrying only valid frames, written in small segments, was ended or had requests reset / answered wrongly",
                    with(&wbase, json!({"expected": "every request answered 200 with the echoed length, no GOAWAY", "observed": observed, "trace": p.trace()})),
                );
            } else {
                sink.inconclusive("segmented: answers missing without any error signal");
            }
        }
        cell.last_trace = p.trace();
        cell.last_end = end_kind(&p.o);
        crate::common::rng::fnv1a(format!("segmented/{seg}/{pause}/{host}/{steps}").as_bytes())
    }



    // ------------------------------------------------------------------------------------------
    // workload: the peer disappears while a burst of responses is on its way
    // ------------------------------------------------------------------------------------------

    fn fam_vanish(cell: &mut Cell, _spec: &Spec, rng: &mut Rng, sink: &mut Sink, base: &Value) -> u64 {
        let small = rng.bool();
        let addr = if small { cell.b } else { cell.a };
        let host = if rng.chance(1, 3) { H2OK_HOST } else { H1_HOST };
        let mut p = match open_client(addr, host, true, IoProgram::fast()) {
            Ok(p) => p,
            Err(e) => {
                sink.inconclusive(&format!("vanish: no connection: {}", e.split(':').next().unwrap_or("")));
                return 0;
            }
        };
        sink.obs("connections", 1);
        let tag = cell.tag();
        let n = rng.urange(2, 8) as u32;
        let mut frs = Vec::new();
        let mut toks = Vec::new();
        for i in 0..n {
            let tok = format!("{tag}-v{i}");
            frs.push(req_frame(&mut p, 1 + 2 * i, "GET", host, &format!("/hold/{tok}"), &tag, true));
            toks.push(tok);
        }
        let wait_for = rng.urange(0, n as usize / 2);
        let rst = rng.bool();
        let _wbase = with(base, json!({"listener": if small { "B" } else { "A" }, "host": host, "streams": n, "answers_awaited_before_disappearing": wait_for, "abortive_close": rst}));
        if !p.send_frs(&frs) || p.ping_fence(react_bound()) != Fence::Acked {
            sink.inconclusive("vanish: setup failed");
            return 0;
        }
        let _ = cell.wait_backend_inflight(&tag, n as i64, Duration::from_millis(1500));
        for t in &toks {
            release(&cell.sh, t);
        }
        let _ = p.pump(Duration::from_millis(1500), &mut |o| o.resp.values().filter(|r| r.ended).count() >= wait_for);
        sink.obs("front.vanish_connections", 1);
        p.note(format!("-- the client disappears now ({} of {n} answers complete, {})", p.o.resp.values().filter(|r| r.ended).count(), if rst { "RST" } else { "FIN" }));
        cell.last_trace = p.trace();
        cell.last_end = "peer_vanished_mid_responses";
        if rst {
            Transport::shutdown(&mut p.c.io);
        }
        drop(p);
        crate::common::rng::fnv1a(format!("vanish/{small}/{host}/{n}/{wait_for}/{rst}").as_bytes())
    }


    // ------------------------------------------------------------------------------------------
    // workload: a DATA frame cut in two around the moment sozu ends its stream (early response
    // of the backend) while other streams complete — aimed at indices cached for the pending
    // read. The client writes nothing between the two parts (a frame is atomic on the wire).
    // ------------------------------------------------------------------------------------------

    /// the second handle on the backend's side of the connection that answered "/earlyhold/<tok>"
    fn take_early_sock(sh: &Shared, tok: &str, wait: Duration) -> Option<TcpStream> {
        let deadline = Instant::now() + wait;
        let mut g = lock(sh);
        loop {
            if let Some(c) = g.early_socks.remove(tok) {
                return Some(c);
            }
            let left = deadline.saturating_duration_since(Instant::now());
            if left.is_zero() {
                return None;
            }
            g = sh.1.wait_timeout(g, left).unwrap_or_else(|e| e.into_inner()).0;
        }
    }

    fn fam_early(cell: &mut Cell, spec: &Spec, rng: &mut Rng, sink: &mut Sink, base: &Value) -> u64 {
        let host = H1_HOST;
        // Three scenarios of four are staged: the backend keeps its connection open after the early
        // answer; the rest of the DATA frame is written and the backend's side of the connection is
        // ended by the same thread right behind that write, so that the worker finds both events in
        // one poll batch, the frontend's first (aimed at readiness events of a closed backend socket
        // reaching the backend connection opened next).
        let staged = crate::common::rng::fnv1a(format!("early-staged/{}/{}", spec.cell, spec.j).as_bytes()) % 4 != 0;
        let mut p = match open_client(cell.b, host, true, IoProgram::fast()) {
            Ok(p) => p,
            Err(e) => {
                sink.inconclusive(&format!("early: no connection: {}", e.split(':').next().unwrap_or("")));
                return 0;
            }
        };
        sink.obs("connections", 1);
        let _ = p.ping_fence(react_bound());
        let tag = cell.tag();
        let others = rng.urange(0, 4) as u32;
        let mut frs = Vec::new();
        let mut toks = Vec::new();
        let mut sid = 1u32;
        let mut held = Vec::new();
        for _ in 0..others {
            let tok = format!("{tag}-e{sid}");
            frs.push(req_frame(&mut p, sid, "GET", host, &format!("/hold/{tok}"), &tag, true));
            toks.push(tok);
            held.push(sid);
            sid += 2;
        }
        let csid = sid;
        sid += 2;
        let ctok = format!("{tag}-early");
        frs.push(req_frame(&mut p, csid, "POST", host, &format!("/{}/{ctok}", if staged { "earlyhold" } else { "early" }), &tag, false));
        let total = rng.urange(2, 3000);
        let first = rng.urange(1, total - 1);
        let body: Vec<u8> = (0..total).map(|i| b'A' + (i % 23) as u8).collect();
        let whole = Fr::new(h2::FT_DATA, if rng.bool() { h2::FL_END_STREAM } else { 0 }, csid, body).wire();
        let wbase = with(base, json!({"listener": "B (8 streams, shrink ratio 2)", "host": host, "other_streams": others, "data_frame_payload": total, "octets_before_the_pause": first,
            "workload": "POST whose backend answers at once and closes; the DATA frame of the request is sent in two parts, the second after sozu ended the stream and the other streams completed"}));
        let mut ok = p.send_frs(&frs);
        // nothing may be written inside the frame: no automatic answers until it is complete
        p.c.auto_ack = false;
        p.c.auto_pong = false;
        ok = ok && p.send_bytes(format!("first part of DATA(stream={csid} len={total}): header + {first} octets"), &whole[..9 + first]);
        // sozu ends the stream: the early answer
        let _ = ok && p.pump(react_bound(), &mut |o| o.resp.get(&csid).is_some_and(|r| r.ended) || o.rst.contains_key(&csid) || o.goaway.is_some());
        sink.obs(if p.o.resp.get(&csid).is_some_and(|r| r.ended) { "front.early_response_seen" } else { "front.early_response_not_seen" }, 1);
        // the other streams complete, a new one recycles a slot (and shrinks the slot vector)
        for t in &toks {
            release(&cell.sh, t);
        }
        let want = held.clone();
        let _ = p.pump(react_bound(), &mut |o| o.goaway.is_some() || want.iter().all(|s| o.resp.get(s).is_some_and(|r| r.ended) || o.rst.contains_key(s)));
        cell.status(sink, "during", &wbase);
        // the rest of the frame (a frame is atomic on the wire: this client has written nothing,
        // not even an automatic acknowledgement, since the first part)
        let alive_before = p.alive();
        let sent = if staged {
            let hold = take_early_sock(&cell.sh, &ctok, react_bound());
            let sent = p.send_bytes(format!("second part of DATA(stream={csid}): {} octets; the backend's side of the answered connection is ended right behind this write", total - first), &whole[9 + first..]);
            if let Some(c) = &hold {
                let _ = c.shutdown(std::net::Shutdown::Both);
            }
            release(&cell.sh, &ctok);
            drop(hold);
            sink.obs("front.early_staged_scenarios", 1);
            sink.obs("front.early_staged_rounds", 1);
            sent
        } else {
            p.send_bytes(format!("second part of DATA(stream={csid}): {} octets", total - first), &whole[9 + first..])
        };
        p.c.auto_ack = true;
        p.c.auto_pong = true;
        let mut fence = if sent { p.ping_fence(react_bound()) } else { Fence::Dead };
        // staged: the same exchange three more times on new streams of this connection
        if staged {
            for round in 2..=4u32 {
                if fence != Fence::Acked || p.o.goaway.is_some() {
                    break;
                }
                let rsid = sid;
                sid += 2;
                let rtok = format!("{tag}-early{round}");
                let f = req_frame(&mut p, rsid, "POST", host, &format!("/earlyhold/{rtok}"), &tag, false);
                let n = 2 + (total + round as usize * 131) % 1500;
                let cut = 1 + (first + round as usize * 17) % (n - 1);
                let wire = Fr::new(h2::FT_DATA, h2::FL_END_STREAM, rsid, (0..n).map(|i| b'a' + (i % 19) as u8).collect()).wire();
                let mut ok = p.send_frs(&[f]);
                p.c.auto_ack = false;
                p.c.auto_pong = false;
                ok = ok && p.send_bytes(format!("first part of DATA(stream={rsid} len={n}): header + {cut} octets"), &wire[..9 + cut]);
                let _ = ok && p.pump(react_bound(), &mut |o| o.resp.get(&rsid).is_some_and(|r| r.ended) || o.rst.contains_key(&rsid) || o.goaway.is_some());
                let answered = p.o.resp.get(&rsid).is_some_and(|r| r.ended && r.status == Some(200));
                let hold = if answered { take_early_sock(&cell.sh, &rtok, react_bound()) } else { None };
                let sent = ok && p.send_bytes(format!("second part of DATA(stream={rsid}): {} octets; the backend's side of the answered connection is ended right behind this write", n - cut), &wire[9 + cut..]);
                if let Some(c) = &hold {
                    let _ = c.shutdown(std::net::Shutdown::Both);
                }
                release(&cell.sh, &rtok);
                drop(hold);
                p.c.auto_ack = true;
                p.c.auto_pong = true;
                if !answered {
                    // not the early answer (say a default answer of sozu): what follows tells
                    break;
                }
                sink.obs("front.early_staged_rounds", 1);
                fence = if sent { p.ping_fence(react_bound()) } else { Fence::Dead };
            }
        }
        // a new stream recycles a slot (and shrinks the slot vector)
        if fence == Fence::Acked && rng.chance(3, 4) {
            let tok = format!("{tag}-new");
            match simple_get(&mut p, sid, host, &format!("/ok/{tok}"), &tag, react_bound()) {
                Ok((200, _)) => sink.obs("front.early_new_stream_served", 1),
                _ => sink.obs("front.early_new_stream_not_served", 1),
            }
            sid += 2;
        }
        let ftok = format!("{tag}-after");
        let follow = if fence == Fence::Acked { simple_get(&mut p, sid, host, &format!("/ok/{ftok}"), &tag, react_bound()) } else { Err("connection ended".into()) };
        sink.obs("front.early_scenarios", 1);
        match (&follow, alive_before) {
            (Ok((200, b)), _) if b.starts_with(ftok.as_bytes()) => sink.obs("front.early_split_frame_tolerated", 1),
            (_, false) => sink.inconclusive("early: connection ended before the second part was sent"),
            // sozu drains the connection gracefully once the stream whose backend said
            // `Connection: close` is over: not a reaction to the cut frame
            _ if matches!(p.o.goaway, Some((_, code)) if code == h2::ERR_NO_ERROR) => sink.obs("front.early_ended_by_graceful_goaway", 1),
            (other, true) => sink.violation(
                "h2hostile/front/split_data_frame_around_early_response_breaks_connection",
                "a valid frame sequence — a DATA frame whose second part arrives after sozu ended the stream (early backend answer) — made sozu end or break the connection; frames in flight on a stream the receiver closed must be tolerated (RFC 9113 §5.1)",
                with(&wbase, json!({"expected": "the rest of the frame is discarded, PING acknowledged, a follow-up request answered 200",
                    "observed": format!("goaway={:?} closed={:?} follow_up={other:?}", p.o.goaway.map(|g| code_name(g.1)), p.o.closed), "trace": p.trace()})),
            ),
        }
        cell.last_trace = p.trace();
        cell.last_end = end_kind(&p.o);
        crate::common::rng::fnv1a(format!("early/{others}/{}/{}", total / 512, first * 4 / total).as_bytes())
    }


    // ------------------------------------------------------------------------------------------
    // workload: streams reset while their DATA frames are half written (real back-pressure on
    // the frontend socket), then new streams recycle the slots — aimed at indices cached for
    // the pending write
    // ------------------------------------------------------------------------------------------

    fn fam_pressure(cell: &mut Cell, _spec: &Spec, rng: &mut Rng, sink: &mut Sink, base: &Value) -> u64 {
        let host = H1_HOST;
        // a small send buffer on sozu's side of this connection and a small receive buffer on ours:
        // sozu's writes really block in the middle of frames
        cell.w.probe.set_knob("front_sndbuf", 4096);
        let opened = open_client(cell.b, host, true, IoProgram { rcvbuf: 16_384, ..IoProgram::default() });
        cell.w.probe.set_knob("front_sndbuf", 262_144);
        let mut p = match opened {
            Ok(p) => p,
            Err(e) => {
                sink.inconclusive(&format!("pressure: no connection: {}", e.split(':').next().unwrap_or("")));
                return 0;
            }
        };
        sink.obs("connections", 1);
        p.o.body_cap = 8 << 20;
        let tag = cell.tag();
        let blocked0 = cell.w.probe.counter("io.rustls.write.wouldblock") + cell.w.probe.counter("io.rustls.write.partial");
        // flow control out of the way: 1 MiB stream windows, 1 MiB more on the connection
        let ok = p.c.send_frames(&[Frame::settings(&[(h2::SET_INITIAL_WINDOW_SIZE, 1 << 20)]), Frame::window_update(0, 1 << 20)]).is_ok();
        if !ok || p.ping_fence(react_bound()) != Fence::Acked {
            sink.inconclusive("pressure: setup failed");
            return 0;
        }
        let n_big = rng.urange(2, 4) as u32;
        let mut big: Vec<(u32, String, usize)> = Vec::new();
        let mut frs = Vec::new();
        let mut sid = 1u32;
        for _ in 0..n_big {
            let size = rng.urange(60_000, 300_000);
            let tok = format!("{tag}-b{sid}");
            frs.push(req_frame(&mut p, sid, "GET", host, &format!("/big/{size}/{tok}"), &tag, true));
            big.push((sid, tok, size));
            sid += 2;
        }
        let wbase = with(base, json!({"listener": "B (8 streams, shrink ratio 2)", "sozu_front_sndbuf": 4096, "client_rcvbuf": 16_384,
            "responses": big.iter().map(|b| json!({"stream": b.0, "octets": b.2})).collect::<Vec<_>>()}));
        if !p.send_frs(&frs) {
            sink.inconclusive("pressure: requests not written");
            return 0;
        }
        // do not read: sozu fills the socket and stops in the middle of a frame
        std::thread::sleep(Duration::from_millis(rng.range(20, 90)));
        cell.status(sink, "during", &wbase);
        // reset some of the streams that are being written
        let pat = *rng.pick(&["first", "last", "all_but_one", "all"]);
        let victims: Vec<u32> = match pat {
            "first" => vec![big[0].0],
            "last" => vec![big[big.len() - 1].0],
            "all_but_one" => big.iter().skip(1).map(|b| b.0).collect(),
            _ => big.iter().map(|b| b.0).collect(),
        };
        let rsts: Vec<Fr> = victims.iter().map(|s| Fr::new(h2::FT_RST_STREAM, 0, *s, h2::ERR_CANCEL.to_be_bytes().to_vec())).collect();
        let mut ok = p.send_frs(&rsts);
        // new streams take the slots
        let mut small: Vec<(u32, String)> = Vec::new();
        let mut frs = Vec::new();
        for _ in 0..rng.urange(1, 3) {
            let tok = format!("{tag}-s{sid}");
            frs.push(req_frame(&mut p, sid, "GET", host, &format!("/ok/{tok}"), &tag, true));
            small.push((sid, tok));
            sid += 2;
        }
        if rng.bool() {
            let size = rng.urange(20_000, 80_000);
            let tok = format!("{tag}-b{sid}");
            frs.push(req_frame(&mut p, sid, "GET", host, &format!("/big/{size}/{tok}"), &tag, true));
            big.push((sid, tok, size));
        }
        ok = ok && p.send_frs(&frs);
        // now read everything
        let live: Vec<u32> = big.iter().map(|b| b.0).filter(|s| !victims.contains(s)).chain(small.iter().map(|s| s.0)).collect();
        let _ = ok && p.pump(Duration::from_millis(3500), &mut |o| o.goaway.is_some() || live.iter().all(|s| o.resp.get(s).is_some_and(|r| r.ended) || o.rst.contains_key(s)));
        let blocked = cell.w.probe.counter("io.rustls.write.wouldblock") + cell.w.probe.counter("io.rustls.write.partial") - blocked0;
        sink.obs("front.pressure_scenarios", 1);
        if blocked > 0 {
            sink.obs("front.pressure_scenarios_with_blocked_writes", 1);
        }
        sink.obs("front.pressure_streams_reset_mid_response", victims.len() as u64);
        let mut bad = Vec::new();
        for (s, tok, size) in &big {
            let reset = victims.contains(s);
            let Some(r) = p.o.resp.get(s) else { continue };
            let pat = format!("{tok}|").into_bytes();
            if let Some(i) = r.body.iter().enumerate().position(|(i, b)| *b != pat[i % pat.len()]) {
                bad.push(format!("stream {s}: octet {i} of the body is {:?}, expected {:?} (context {:?})", r.body[i] as char, pat[i % pat.len()] as char, String::from_utf8_lossy(&r.body[i.saturating_sub(12)..(i + 24).min(r.body.len())])));
            } else if !reset && r.ended && r.body.len() != *size {
                bad.push(format!("stream {s}: {} octets instead of {size}", r.body.len()));
            } else if !reset && r.ended && r.status == Some(200) {
                sink.obs("front.pressure_large_responses_intact", 1);
            }
        }
        for (s, tok) in &small {
            match p.o.resp.get(s) {
                Some(r) if r.ended && r.status == Some(200) && r.body.starts_with(tok.as_bytes()) => sink.obs("front.pressure_new_streams_served", 1),
                Some(r) if r.ended && r.status == Some(200) => bad.push(format!("stream {s}: body {:?} instead of its token {tok}", String::from_utf8_lossy(&r.body[..r.body.len().min(40)]))),
                _ => {}
            }
        }
        if !bad.is_empty() {
            sink.violation(
                "h2hostile/front/pressure/response_octets_of_another_stream",
                "after streams were reset while their DATA frames were half written and new streams reused the slots, a response carried octets that belong to another stream or had the wrong length",
                with(&wbase, json!({"reset": victims, "expected": "every surviving response is exactly its own body", "observed": bad, "trace": p.trace()})),
            );
        } else if let Some((_, code)) = p.o.goaway.filter(|g| g.1 != h2::ERR_NO_ERROR) {
            sink.violation(
                "h2hostile/front/pressure/connection_ended_after_resets_under_backpressure",
                "a connection that only reset its own streams while sozu was writing them (a legal sequence) was answered with a connection error",
                with(&wbase, json!({"reset": victims, "expected": "no connection error", "observed": format!("GOAWAY({})", code_name(code)), "trace": p.trace()})),
            );
        }
        cell.last_trace = p.trace();
        cell.last_end = end_kind(&p.o);
        crate::common::rng::fnv1a(format!("pressure/{n_big}/{pat}/{}", small.len()).as_bytes())
    }

    // ------------------------------------------------------------------------------------------
    // workload: draining after sozu's own GOAWAY (soft stop) — last scenario of a cell
    // ------------------------------------------------------------------------------------------

    fn fam_drain(cell: &mut Cell, _spec: &Spec, rng: &mut Rng, sink: &mut Sink, base: &Value) -> u64 {
        let host = H1_HOST;
        let mut p = match open_client(cell.a, host, true, IoProgram::fast()) {
            Ok(p) => p,
            Err(e) => {
                sink.inconclusive(&format!("drain: no connection: {}", e.split(':').next().unwrap_or("")));
                return 0;
            }
        };
        sink.obs("connections", 1);
        cell.probe = None; // the probe connection would keep the worker alive
        let tag = cell.tag();
        let t1 = format!("{tag}-d1");
        let t2 = format!("{tag}-d3");
        let f1 = req_frame(&mut p, 1, "POST", host, &format!("/echo/{t1}"), &tag, false);
        let f2 = req_frame(&mut p, 3, "GET", host, &format!("/hold/{t2}"), &tag, true);
        if !p.send_frs(&[f1, f2]) || p.ping_fence(react_bound()) != Fence::Acked {
            sink.inconclusive("drain: setup failed");
            return 0;
        }
        let _ = cell.wait_backend_inflight(&tag, 2, Duration::from_secs(2));
        if cell.w.soft_stop().is_err() {
            sink.inconclusive("drain: soft stop not sent");
            return 0;
        }
        let got = p.pump(react_bound(), &mut |o| o.goaway.is_some());
        let wbase = with(base, json!({"state": "draining after sozu's GOAWAY (soft stop) with one open and one half-closed stream"}));
        if !got {
            sink.obs("front.drain_no_goaway_seen", 1);
        } else {
            sink.obs("front.drain_goaway_seen", 1);
        }
        // inject into the draining connection
        let mut frs: Vec<Fr> = Vec::new();
        let choice = rng.below(6);
        match choice {
            0 => frs.push(req_frame(&mut p, 5, "GET", host, &format!("/ok/{tag}-new"), &tag, true)),
            1 => frs.push(Fr::new(h2::FT_DATA, 0, 0, b"zero".to_vec())),
            2 => frs.push(Fr::new(h2::FT_WINDOW_UPDATE, 0, 1, 0u32.to_be_bytes().to_vec())),
            3 => frs.push(Fr::new(h2::FT_RST_STREAM, 0, 3, h2::ERR_CANCEL.to_be_bytes().to_vec())),
            4 => frs.push(Fr::new(h2::FT_PING, 0, 0, vec![3; 9])),
            _ => {
                for i in 0..30 {
                    frs.push(Fr::new(0xee, 0, if i % 2 == 0 { 0 } else { 1 }, vec![0; 3]));
                }
            }
        }
        sink.obs(&format!("front.drain_injection/{choice}"), 1);
        let _ = p.send_frs(&frs);
        // finish what can be finished
        release(&cell.sh, &t2);
        let _ = p.send_frs(&[Fr::new(h2::FT_DATA, h2::FL_END_STREAM, 1, b"late body".to_vec())]);
        let _ = p.pump(Duration::from_millis(1500), &mut |o| o.closed.is_some());
        drop(p);
        // the worker must stop within the graceful deadline (2 s) plus slack, without panicking
        let t0 = Instant::now();
        let joined = cell.w.join(paced(Duration::from_secs(10)));
        cell.dead = true;
        sink.max("front.drain_worker_exit_ms", t0.elapsed().as_millis() as u64);
        if joined {
            sink.obs("front.drain_worker_exited", 1);
        } else {
            sink.suspect(
                "h2hostile/front/worker_not_stopped_after_drain_deadline",
                "after a soft stop with a hostile draining HTTP/2 connection the worker did not exit although every connection was closed and the graceful deadline (2 s) had passed",
                with(&wbase, json!({"expected": "worker thread ends within 10 s", "observed": "still running", "injection": choice})),
            );
        }
        crate::common::rng::fnv1a(format!("drain/{choice}").as_bytes())
    }

    // ------------------------------------------------------------------------------------------
    // scenario runner: universal oracles around every family
    // ------------------------------------------------------------------------------------------

    const ROTATION: [&str; 22] = [
        "walk", "flood", "walk", "backend", "walk", "hdr", "segmented", "flood", "recycle", "walk", "backend", "mcs", "walk", "preface", "flood", "backend", "vanish", "walk", "early",
        "pressure", "trailer", "crossing",
    ];

    fn run_family(cell: &mut Cell, spec: &Spec, sink: &mut Sink) -> u64 {
        let base = spec.json();
        let mut rng = spec.rng();
        let foot0 = cell.settle();
        cell.last_end = "no_hostile_connection_established";
        cell.last_trace = Value::Null;
        let cpu0 = cell.cpu();
        let t0 = Instant::now();
        let fp = match spec.family {
            "walk" => fam_walk(cell, spec, &mut rng, sink, &base),
            "flood" => fam_flood(cell, spec, &mut rng, sink, &base),
            "mcs" => fam_mcs(cell, spec, &mut rng, sink, &base),
            "hdr" => fam_hdr(cell, spec, &mut rng, sink, &base),
            "recycle" => fam_recycle(cell, spec, &mut rng, sink, &base),
            "preface" => fam_preface(cell, spec, &mut rng, sink, &base),
            "backend" => fam_backend(cell, spec, &mut rng, sink, &base),
            "segmented" => fam_segmented(cell, spec, &mut rng, sink, &base),
            "vanish" => fam_vanish(cell, spec, &mut rng, sink, &base),
            "early" => fam_early(cell, spec, &mut rng, sink, &base),
            "pressure" => fam_pressure(cell, spec, &mut rng, sink, &base),
            "trailer" => fam_trailer(cell, spec, &mut rng, sink, &base),
            "crossing" => fam_crossing(cell, spec, &mut rng, sink, &base),
            _ => fam_drain(cell, spec, &mut rng, sink, &base),
        };
        sink.obs(&format!("scenarios/{}", spec.family), 1);
        cell.check_panics(sink, &base);
        if cell.dead {
            return fp;
        }
        // after the attack: the loop answers, other connections are served, the footprint is back
        cell.status(sink, "after", &base);
        cell.probe_check(sink, "after", true, &base);
        cell.check_panics(sink, &base);
        if cell.dead {
            return fp;
        }
        match cell.await_release(&foot0, release_bound()) {
            Ok(ms) => {
                sink.obs("release_checks_back_to_baseline", 1);
                sink.max("release_ms", ms);
            }
            Err(f) => {
                // how long it really stays (evidence only; opt-in because it costs the time)
                if let Some(secs) = std::env::var("VH_C15_RELEASE_WAIT").ok().and_then(|s| s.parse::<u64>().ok()) {
                    let r = cell.await_release(&foot0, Duration::from_secs(secs));
                    eprintln!("C15 release: {} scenario {}/{}: after the bound, waited up to {secs} s more: {r:?} (baseline {foot0:?}, was {f:?})", spec.family, spec.cell, spec.j);
                }
                sink.suspect(
                    &format!("h2hostile/connection_not_released/{}", cell.last_end),
                    "after the hostile connection ended and the harness closed its sockets the worker's footprint stayed above the baseline",
                    with(&base, json!({"expected": format!("{foot0:?} within {:?}", release_bound()), "observed": format!("{f:?}"), "last_hostile_connection": cell.last_trace.clone()})),
                );
            }
        }
        sink.max("worker_cpu_ms_per_scenario", cell.cpu().saturating_sub(cpu0));
        sink.max("scenario_wall_ms", t0.elapsed().as_millis() as u64);
        fp
    }

    /// bounded-time misses of the parallel phase: (scenario, signature, what, witness)
    static SUSPECTS: Mutex<Vec<(Spec, String, String, Value)>> = Mutex::new(Vec::new());

    /// How a verdict was reached decides what it takes to count:
    /// * `Hard`: positive evidence that no environment can produce (a panic, a request above the
    ///   limits seen by a backend, octets of another stream): counts at once, whatever else happened.
    /// * `Positive`: sozu *did* something observable that the rules forbid (a GOAWAY with a code
    ///   outside the allowed set, an error for a valid frame): counts at once if the premise of the
    ///   scenario held.
    /// * `Timed`: something did *not* happen within an allowance, or a valid request was not
    ///   answered 200: time- and availability-shaped, a candidate until reproduced alone.
    ///   ("Connection / stream error not raised" and "flood not stopped" are not of this kind: they
    ///   are raised only behind a barrier, the acknowledgement of a PING or the answer to a request
    ///   sent after the offending frames, which proves that sozu processed them.)
    #[derive(Clone, Copy, PartialEq, Eq, Debug)]
    enum Shape {
        Hard,
        Positive,
        Timed,
    }

    fn shape(sig: &str) -> Shape {
        const HARD: [&str; 6] = ["/panic@", "worker_thread_ended", "/overcommit/", "response_of_another_stream", "response_octets_of_another_stream", "reachable_backend_counted_as_connection_failure"];
        const TIMED: [&str; 12] = [
            "not_served",
            "not_closed",
            "not_released",
            "connection_broken",
            "traffic_rejected",
            "breaks_connection",
            "connection_ended",
            "live_stream_",
            "kills_",
            "connection_killed",
            "held_stream_reset",
            "event_loop_wedged",
        ];
        if HARD.iter().any(|h| sig.contains(h)) {
            Shape::Hard
        } else if TIMED.iter().any(|t| sig.contains(t)) || std::env::var_os("VH_C15_ALL_TIMED").is_some() {
            // (the variable: debugging aid, sends every verdict that is not hard through the
            // isolated re-runs)
            Shape::Timed
        } else {
            Shape::Positive
        }
    }

    /// Premise check and triage of one scenario's verdicts (see `Shape`). Returns false when the
    /// premise did not hold: nothing but `Hard` verdicts of this scenario is judged then.
    fn triage(cell: &mut Cell, spec: &Spec, sink: &mut Sink) -> bool {
        if cell.dead || !cell.w.is_running() {
            // nobody to ask; what the scenario found (a panic, a wedge candidate) stands
            let viol = std::mem::take(&mut sink.viol);
            for v in viol {
                if shape(&v.0) == Shape::Timed {
                    sink.suspects.push(v);
                } else {
                    sink.viol.push(v);
                }
            }
            return true;
        }
        let mut pr = cell.premise();
        if !pr.conn_errors.is_empty() {
            // sozu says a connection attempt to a backend failed. The scripted backends listen for
            // the whole life of the cell (backlog 1024, accept loop never blocked) and know whether
            // they ever gave a connection up before reading from it.
            let t = Instant::now();
            while pr.now.started < pr.now.accepted && t.elapsed() < paced(Duration::from_secs(2)) {
                std::thread::sleep(Duration::from_millis(10));
                pr.now.accepted = cell.backs.iter().map(|b| b.accepted.load(Ordering::SeqCst) as u64).sum();
                pr.now.started = lock(&cell.sh).handlers_started;
            }
            let truth = json!({"sozu_metric_backend.connections.error_grew_by": pr.conn_errors.iter().map(|(c, n)| json!({"cluster": c, "by": n})).collect::<Vec<_>>(),
                "backend_connections_accepted": pr.now.accepted, "backend_connection_handlers_started": pr.now.started,
                "connections_given_up_unread_by_the_backends_during_this_scenario": pr.closed_unread});
            if pr.now.started == pr.now.accepted && pr.closed_unread == 0 {
                sink.obs("premise.connection_errors_counted_for_reachable_backends", 1);
                sink.violation(
                    "h2hostile/back/reachable_backend_counted_as_connection_failure",
                    "sozu counted a failed connection attempt against a backend (backend.connections.error; the retry policy then keeps the backend out of rotation: every request to the cluster is answered 503 for a second or more) although the backend was listening, accepted every connection and never closed one before reading from it",
                    with(&spec.json(), json!({"expected": "no connection error counted for a backend that accepts every connection", "observed": truth, "clusters_answering_5xx": pr.broken, "last_hostile_connection": cell.last_trace.clone()})),
                );
            } else {
                sink.obs("premise.connection_errors_not_attributable", 1);
            }
        }
        if pr.broken.is_empty() {
            sink.obs("premise.held", 1);
            // what is time- or availability-shaped is a candidate, not a verdict
            let viol = std::mem::take(&mut sink.viol);
            for v in viol {
                if shape(&v.0) == Shape::Timed {
                    sink.obs("premise.timed_verdicts_sent_to_isolation", 1);
                    sink.suspects.push(v);
                } else {
                    sink.viol.push(v);
                }
            }
            return true;
        }
        cell.blackout = true;
        let mut dropped = 0u64;
        let viol = std::mem::take(&mut sink.viol);
        for v in viol {
            if shape(&v.0) == Shape::Hard {
                sink.viol.push(v);
            } else {
                dropped += 1;
            }
        }
        dropped += sink.suspects.len() as u64;
        sink.suspects.clear();
        pr.broken.sort();
        pr.broken.dedup();
        for r in &pr.broken {
            sink.obs(&format!("premise.broken/{r}"), 1);
        }
        sink.obs("premise.broken_scenarios", 1);
        sink.obs("premise.verdicts_not_judged", dropped);
        sink.inconclusive(&format!("premise broken, scenario not judged: {}", pr.broken.join("+")));
        false
    }

    /// one scenario; bounded-time misses are parked: they only count once reproduced in isolation
    /// (see `confirm_suspects`)
    fn run_scenario(cell: &mut Cell, spec: &Spec, rep: &mut Report) {
        if cell.blackout && !cell.recover() {
            cell.abandoned = true;
            rep.obs("b.premise.cells_abandoned", 1);
            rep.inconclusive("premise broken, cell abandoned: the well-behaved clusters did not answer 200 again");
            return;
        }
        let mut sink = Sink::default();
        let fp = run_family(cell, spec, &mut sink);
        // judgements made by backend threads
        let from_backends = std::mem::take(&mut lock(&cell.sh).sink);
        sink.absorb(from_backends);
        triage(cell, spec, &mut sink);
        rep.case(fp ^ crate::common::rng::fnv1a(spec.family.as_bytes()), fp != 0);
        if fp != 0 {
            rep.sample(json!({"live_scenario": spec.json(), "hostile_connection_ended": cell.last_end,
                "tail_of_the_hostile_connection": cell.last_trace.get("injected_and_observed").and_then(|l| l.as_array()).map(|l| l.iter().rev().take(8).rev().cloned().collect::<Vec<_>>())}));
        }
        let suspects = std::mem::take(&mut sink.suspects);
        sink.flush(rep);
        if !suspects.is_empty() {
            rep.obs("b.bounded_time_suspects", suspects.len() as u64);
            let mut g = SUSPECTS.lock().unwrap_or_else(|e| e.into_inner());
            for (sig, what, w) in suspects {
                g.push((spec.clone(), sig, what, w));
            }
        }
    }

    /// After the parallel phase, with nothing else running: scenarios of every suspected signature
    /// are re-run alone on fresh cells. A signature that shows again twice is a violation for every
    /// scenario that raised it; otherwise its misses are inconclusive.
    fn confirm_suspects(rep: &mut Report, allowance: std::time::Duration) {
        let isolation_started = Instant::now();
        let all: Vec<(Spec, String, String, Value)> = std::mem::take(&mut *SUSPECTS.lock().unwrap_or_else(|e| e.into_inner()));
        if all.is_empty() {
            return;
        }
        let mut sigs: Vec<String> = all.iter().map(|s| s.1.clone()).collect();
        sigs.sort();
        sigs.dedup();
        let mut confirmed: BTreeSet<String> = BTreeSet::new();
        for (n, sig) in sigs.iter().enumerate() {
            if n >= 8 {
                break; // every further signature stays inconclusive
            }
            // reproduction may depend on timing: up to six re-runs, each alone on a fresh cell, taken
            // in turn from the (up to six) scenarios that raised the signature; a single scenario is
            // re-run again and again (the scenario is a function of its seed, cell and number: the
            // same connection, the same frames in the same states). Two re-runs must show it again.
            let specs: Vec<&Spec> = all.iter().filter(|s| &s.1 == sig).map(|s| &s.0).take(6).collect();
            let mut hits = 0;
            let mut misses = 0;
            for spec in specs.iter().cycle().take(6).copied() {
                // the isolation phase has its own wall-clock allowance (a clock only ever turns a
                // candidate into "inconclusive", never into a verdict); and two hits out of six
                // are out of reach after five misses, unlikely after three in a row from the start
                if isolation_started.elapsed() > allowance || misses >= 5 || (hits == 0 && misses >= 3) {
                    rep.obs("b.isolated_reruns_cut_short", 1);
                    break;
                }
                let mut iso = match Cell::start(1_000_000 + spec.cell) {
                    Ok(c) => c,
                    Err(e) => {
                        rep.inconclusive(&format!("isolated re-run: {e}"));
                        break;
                    }
                };
                let spec2 = Spec { isolated: true, ..spec.clone() };
                let mut s2 = Sink::default();
                iso.probe_check(&mut s2, "before", false, &spec2.json());
                s2.suspects.clear();
                if !iso.recover() {
                    rep.obs("b.isolated_reruns_void_premise_broken", 1);
                    iso.stop();
                    continue;
                }
                let _ = run_family(&mut iso, &spec2, &mut s2);
                let from_backends = std::mem::take(&mut lock(&iso.sh).sink);
                s2.absorb(from_backends);
                // the same rules as side by side: a re-run whose premise broke shows nothing
                let held = triage(&mut iso, &spec2, &mut s2);
                let again = held && s2.suspects.iter().any(|s| &s.0 == sig);
                rep.obs("b.isolated_reruns", 1);
                if !held {
                    rep.obs("b.isolated_reruns_void_premise_broken", 1);
                }
                // a hard verdict is one wherever it shows
                for (s, w, v) in s2.viol.drain(..).filter(|v| shape(&v.0) == Shape::Hard) {
                    rep.violation(&s, &w, v);
                }
                for p in iso.stop() {
                    if p.in_sozu() {
                        rep.violation(
                            &format!("h2hostile/{}", p.signature()),
                            &format!("the worker thread panicked: {} at {}", p.message, p.location),
                            with(&spec2.json(), json!({"panic": p.message, "location": p.location})),
                        );
                    }
                }
                if again {
                    hits += 1;
                    if hits == 2 {
                        break;
                    }
                } else {
                    misses += 1;
                }
            }
            if hits == 2 {
                confirmed.insert(sig.clone());
            }
        }
        for (_spec, sig, what, w) in all {
            if confirmed.contains(&sig) {
                rep.violation(&sig, &what, with(&w, json!({"reproduced_in_isolation": "this signature showed again twice when scenarios that raised it were re-run alone on fresh cells"})));
            } else {
                rep.inconclusive(&format!("bounded-time miss not reproduced in isolation: {sig}"));
            }
        }
    }

    /// about what the calibration plan takes on a 16-core machine with little else to do (16 cells
    /// side by side; 560 ms were measured at load average 12)
    const CALIBRATION_REFERENCE_MS: u64 = 500;

    /// Pace: how slow is this machine right now? A fixed plan (worker start, cell configuration,
    /// warm-up, six scenarios of six workloads) runs on as many cells side by side as the run will
    /// use threads (a machine whose processors are taken by others slows cells that run side by
    /// side far more than one that runs alone); the median counts. Its slowdown against the
    /// reference multiplies every wall-clock allowance and decides how many cells run side by side.
    /// Returns (ms, pace).
    fn calibrate(ctx: &Ctx) -> (u64, f64) {
        fn plan(round: u64) -> Option<u64> {
            let t = Instant::now();
            let mut cell = Cell::start(2_000_000 + round).ok()?;
            let mut ok = cell.recover();
            for (j, family) in ["walk", "flood", "recycle", "hdr", "crossing", "mcs"].into_iter().enumerate() {
                if !ok || cell.dead {
                    ok = false;
                    break;
                }
                let spec = Spec { seed: 0xCA11B, cell: 2_000_000, j: j as u64, family, isolated: true };
                let mut scratch = Sink::default();
                let _ = run_family(&mut cell, &spec, &mut scratch);
            }
            let _ = cell.stop();
            ok.then(|| t.elapsed().as_millis() as u64)
        }
        let n = ctx.threads.max(1) as u64;
        let mut times: Vec<u64> = std::thread::scope(|s| {
            let hs: Vec<_> = (0..n).map(|i| std::thread::Builder::new().name(format!("vh-c15-calibration-{i}")).spawn_scoped(s, move || plan(i))).collect();
            hs.into_iter().filter_map(|h| h.ok().and_then(|h| h.join().ok()).flatten()).collect()
        });
        times.sort();
        // not even the calibration plan completed: the slowest pace
        let median = times.get(times.len() / 2).copied().unwrap_or(CALIBRATION_REFERENCE_MS * 4);
        let pace_x100 = (median * 100 / CALIBRATION_REFERENCE_MS).clamp(100, 400);
        PACE_X100.store(ctx.opt_u64("pace_x100", pace_x100).clamp(100, 400), Ordering::SeqCst);
        (median, pace())
    }

    /// cells running side by side (fewer than threads on a slow machine)
    static SLOTS: (Mutex<usize>, Condvar) = (Mutex::new(0), Condvar::new());

    struct Slot;

    impl Slot {
        fn take(ctx: &Ctx) -> Option<Slot> {
            let mut g = SLOTS.0.lock().unwrap_or_else(|e| e.into_inner());
            loop {
                if *g > 0 {
                    *g -= 1;
                    return Some(Slot);
                }
                if ctx.out_of_time() {
                    return None;
                }
                g = SLOTS.1.wait_timeout(g, Duration::from_millis(200)).unwrap_or_else(|e| e.into_inner()).0;
            }
        }
    }

    impl Drop for Slot {
        fn drop(&mut self) {
            *SLOTS.0.lock().unwrap_or_else(|e| e.into_inner()) += 1;
            SLOTS.1.notify_one();
        }
    }

    fn run_cell(ctx: &Ctx, seed: u64, idx: u64, per_cell: u64, only: Option<&str>, rep: &mut Report) {
        let mut cell = match Cell::start(idx) {
            Ok(c) => c,
            Err(e) => {
                rep.inconclusive(&format!("cell: {e}"));
                return;
            }
        };
        rep.obs("b.cells", 1);
        let mut warm = Sink::default();
        let base = json!({"part": "b", "case": idx, "seed": seed, "scenario": "warm-up"});
        cell.status(&mut warm, "before", &base);
        cell.probe_check(&mut warm, "before", true, &base);
        let suspects = std::mem::take(&mut warm.suspects);
        warm.flush(rep);
        if !suspects.is_empty() || cell.dead {
            rep.inconclusive("cell did not serve the probe connection before any hostile traffic");
            cell.stop();
            return;
        }
        // both well-behaved clusters answer; sozu's counters so far are the baseline of the premise
        if !cell.recover() {
            rep.inconclusive("cell did not serve the control requests before any hostile traffic");
            cell.stop();
            return;
        }
        let drain_last = idx % 4 == 0 && ctx.opt("b_j").is_none();
        let only_j = ctx.opt("b_j").and_then(|s| s.parse::<u64>().ok());
        for j in 0..(if only == Some("drain") { 0 } else { per_cell }) {
            if only_j.is_some_and(|x| x != j) {
                continue;
            }
            if cell.dead || cell.abandoned || (ctx.out_of_time() && ctx.replay.is_none()) {
                break;
            }
            let family = match only {
                Some(f) => ROTATION.iter().copied().chain(["drain"]).find(|x| *x == f).unwrap_or("walk"),
                None => ROTATION[((idx * 5 + j) % ROTATION.len() as u64) as usize],
            };
            if family == "drain" && j + 1 < per_cell {
                // drain ends the worker: only as the last scenario
                let spec = Spec { seed, cell: idx, j, family: "walk", isolated: false };
                run_scenario(&mut cell, &spec, rep);
                continue;
            }
            let spec = Spec { seed, cell: idx, j, family, isolated: false };
            run_scenario(&mut cell, &spec, rep);
        }
        if !cell.dead && !cell.abandoned && (drain_last || only == Some("drain")) && !(ctx.out_of_time() && ctx.replay.is_none()) {
            let spec = Spec { seed, cell: idx, j: per_cell, family: "drain", isolated: false };
            run_scenario(&mut cell, &spec, rep);
        }
        // over-commit, once more at the end of the cell: nothing oversized arrived late
        {
            let b = lock(&cell.sh);
            let late: Vec<&(String, String, usize, usize)> = b.seen.iter().filter(|s| s.1.contains("-hdr-") && !s.1.contains("below_limits") && (s.3 > 65_536 + 4096 || s.2 > 128 + 16)).collect();
            if !late.is_empty() {
                rep.violation(
                    "h2hostile/front/overcommit/header_list_above_limit_forwarded/seen_at_end_of_cell",
                    "a request whose header list exceeds the documented limits reached a backend",
                    json!({"part": "b", "case": idx, "seed": seed, "requests_at_backend": late.iter().map(|s| json!({"path": s.1, "fields": s.2, "list_size": s.3})).collect::<Vec<_>>()}),
                );
            }
            rep.obs("b.requests_seen_by_backends", b.seen.len() as u64);
        }
        let counters = cell.w.probe.counters();
        for (k, v) in counters {
            if k.ends_with(".wouldblock") || k.ends_with(".partial") {
                rep.obs(&format!("b.sozu_{k}"), v);
            }
        }
        let panics = cell.stop();
        for p in panics {
            if p.in_sozu() {
                rep.violation(
                    &format!("h2hostile/{}", p.signature()),
                    &format!("the worker thread panicked: {} at {}", p.message, p.location),
                    json!({"part": "b", "case": idx, "seed": seed, "panic": p.message, "location": p.location, "when": "found when the cell was stopped"}),
                );
            }
        }
    }

    pub(super) fn run_live(ctx: &Ctx, rep: &mut Report) {
        lab::raise_fd_limit();
        rep.assume("live lab: reaction classes come from a reference classifier written from RFC 9113 only; every frame it cannot label unambiguously is 'either' and not judged");
        rep.assume("live lab: RFC 9113 §5.4.3 lets an endpoint treat any stream error as a connection error: a GOAWAY carrying an allowed code is accepted for a stream-error label (counted under exempt:*stream_error_escalated_to_goaway)");
        rep.assume("live lab: floods: total frames of a kind <= threshold/2 must not trip, >= 2x threshold in one burst must end in GOAWAY(ENHANCE_YOUR_CALM or an RFC code of the abused rule)/close, exactly the threshold is not judged (the documentation says 'exceeded')");
        rep.assume("live lab: bounded-time oracles (Status within 2 s, socket closed within 2.5 s of GOAWAY, footprint back within 4 s, probe served) only count after being reproduced twice in isolation on fresh cells; a late Status answer with an idle worker thread (CPU accounting from /proc) is machine starvation, not a wedge");
        rep.assume("live lab: malformed-request semantics (pseudo-header rules, content-length) are left to C03; sozu's per-stream idle reaper, SETTINGS ACK timeout and lifetime PING/SETTINGS/RST caps (10 000) are not reached by these workloads");
        rep.assume("live lab: a verdict that needs a reachable backend checks that premise: sozu's own counters (backend.connections.error, default 502/503/504 answers on the clusters whose scripted backends never leave the protocol) are read after every scenario; a scenario during which they moved is not judged (inconclusive, counted with its reason), the next one starts once control requests to both well-behaved clusters are answered 200 again. A connection error counted against a backend that accepted every connection is reported under its own signature");
        rep.assume("live lab: wall-clock allowances are multiplied by the slowdown of a calibration plan run alone at the start (pace 1..4), fewer cells run side by side on a slow machine; verdicts shaped by time or availability (something not answered / not closed / not stopped within an allowance) only count once reproduced twice alone on fresh cells");
        let (calibration_ms, pace_now) = calibrate(ctx);
        let slots = if pace_now > 3.0 { ctx.threads / 2 } else if pace_now > 1.75 { ctx.threads * 2 / 3 } else { ctx.threads }.clamp(2.min(ctx.threads.max(1)), ctx.threads.max(1));
        *SLOTS.0.lock().unwrap_or_else(|e| e.into_inner()) = ctx.opt_u64("b_slots", slots as u64).max(1) as usize;
        rep.set("calibration", json!({"plan_ms": calibration_ms, "reference_ms": CALIBRATION_REFERENCE_MS, "pace": pace_now, "cells_side_by_side": slots, "threads": ctx.threads}));
        rep.obs_max("b.pace_x100", (pace_now * 100.0) as u64);
        let per_cell = ctx.opt_u64("b_per_cell", ctx.tier.pick(32, 48));
        let cells = ctx.opt_u64("b_cells", ctx.tier.pick(96, 96 * 20));
        let only = ctx.opt("b_family").map(|s| s.to_owned());
        rep.set("live_lab_plan", json!({"cells": cells, "scenarios_per_cell": per_cell, "rotation": ROTATION, "drain_every_nth_cell": 4, "clusters": "h1 (HTTP/1.1 backend), h2 (h2c backend that takes hostile orders), h2ok (well-behaved h2c backend)",
            "grid": format!("{} frame types x {} stream-id classes x {} length classes x {} flag variants = {GRID} points, each injected in a randomly chosen connection state", G_TYPES.len(), G_SIDS.len(), G_LENS.len(), G_FLAGS.len()),
            "listener_A": format!("{DEFAULTS:?}"), "listener_B": format!("{SMALL:?}")}));
        if let Some(path) = &ctx.replay {
            let v: Value = serde_json::from_str(&std::fs::read_to_string(path).unwrap_or_default()).unwrap_or(Value::Null);
            let seed = v["seed"].as_u64().unwrap_or(ctx.seed);
            let mut seen = BTreeSet::new();
            for w in v["witnesses"].as_array().cloned().unwrap_or_default() {
                if w["part"].as_str() != Some("b") {
                    continue;
                }
                let wseed = w["seed"].as_u64().unwrap_or(seed);
                if let Some(c) = w["case"].as_u64() {
                    if seen.insert((wseed, c)) {
                        run_cell(ctx, wseed, c % 1_000_000, per_cell, only.as_deref(), rep);
                    }
                }
            }
            confirm_suspects(rep, std::time::Duration::from_secs(ctx.opt_u64("b_isolation_s", ctx.tier.pick(100, 600))));
            return;
        }
        for k in [
            "b.cells",
            "b.connections",
            "b.status_probes_answered/during",
            "b.status_probes_answered/after",
            "b.probe_requests_served/after",
            "b.fresh_connections_served",
            "b.release_checks_back_to_baseline",
            "b.front.judged/connection_error",
            "b.front.judged/stream_error",
            "b.front.judged/valid",
            "b.front.reaction/goaway",
            "b.front.reaction/rst_stream",
            "b.front.closed_after_goaway",
            "b.front.followup_after_stream_error_served",
            "b.front.flood_below_threshold_tolerated",
            "b.front.flood_stopped",
            "b.front.overcommit_checks/concurrent_streams",
            "b.front.overcommit_checks/header_list",
            "b.front.recycle_streams_answered_correctly",
            "b.front.invalid_preface_connection_closed",
            "b.back.behaviours_completed",
            "b.back.judged/connection_error",
            "b.front.segmented_requests_served",
            "b.front.vanish_connections",
            "b.front.early_scenarios",
            "b.front.pressure_scenarios_with_blocked_writes",
            "b.front.frames_behind_refused_streams_tolerated",
            "b.front.overcommit_checks/trailer_block",
            "b.front.oversized_trailer_block_rejected/elided_names",
            "b.front.oversized_trailer_block_rejected/ordinary_names",
            "b.front.trailer_block_below_limits_accepted",
            "b.back.answers_written_across_sozu_rst_stream",
            "b.back.bystander_streams_answered_after_a_crossing",
            "b.premise.held",
            "b.front.early_staged_scenarios",
        ] {
            rep.require(k);
        }
        if let Some(c) = ctx.opt("b_cell").and_then(|s| s.parse::<u64>().ok()) {
            // debugging aid: one cell (and with b_j one scenario of it)
            run_cell(ctx, ctx.seed, c, per_cell, only.as_deref(), rep);
            confirm_suspects(rep, std::time::Duration::from_secs(ctx.opt_u64("b_isolation_s", ctx.tier.pick(100, 600))));
            return;
        }
        par_cases_named(ctx, rep, cells, "c15-live", |i, r| {
            let Some(_slot) = Slot::take(ctx) else {
                r.obs("cases_not_started_budget_exhausted", 1);
                return;
            };
            run_cell(ctx, ctx.seed, i, per_cell, only.as_deref(), r)
        });
        confirm_suspects(rep, std::time::Duration::from_secs(ctx.opt_u64("b_isolation_s", ctx.tier.pick(100, 600))));
    }
}
