//! C15 — no HTTP/2 input can crash, wedge or over-commit a worker.
//!
//! Part (a): the frame-decoder lab (`run_parser`). Direct calls of the public
//! `sozu_lib::protocol::mux::parser::{preface, frame_header, frame_body}` on arbitrary byte strings.
//!
//! Oracle (from the statement: "the frame decoder consumes exactly header plus declared payload or
//! reports an error, for every input"), against a reference decode written from RFC 9113 §4.1/§6
//! and RFC 9218 §7.1 that only looks at the raw bytes:
//!
//! * `frame_header` is `Err` or `Ok((rest, h))` with `rest` = the input minus exactly 9 bytes and
//!   `h` = (24-bit length, type, flags, stream id with the reserved bit cleared) of those 9 bytes;
//!   it must be `Err` when fewer than 9 bytes are present or the length exceeds the maximum given;
//! * `frame_body` is `Err` or consumes exactly `payload_len` bytes of what follows, and the decoded
//!   frame equals the reference decode (PING, RST_STREAM, WINDOW_UPDATE, SETTINGS, GOAWAY, PRIORITY,
//!   PRIORITY_UPDATE, DATA/HEADERS padding and priority arithmetic);
//! * it must be `Err` when no decode exists (payload shorter than declared, fixed-size frame of the
//!   wrong size, padding larger than what is left), and `Ok` on a well-formed frame;
//! * never a panic (a panic located under /repo is the violation `panic@file:line`).
//!
//! Where RFC 9113 lets the decision live in the connection layer (stream-id zero/non-zero rules,
//! zero WINDOW_UPDATE increment, PUSH_PROMISE) or where sozu documents a cap of its own (64
//! SETTINGS entries, 1024-byte PRIORITY_UPDATE value) both answers are accepted and counted as
//! exempt; the consumption/content checks still apply when the decoder says `Ok`.
//!
//! Part (b) (live connections) is added separately to this file.

use serde_json::{Value, json};
use sozu_lib::protocol::mux::parser::{self, Frame, FrameHeader, FrameType, PriorityPart};

use crate::common::{Ctx, Report, Rng, guard, par_cases_named};

// ---------------------------------------------------------------------------------------------
// reference decode (RFC 9113 §4.1, §6; RFC 9218 §7.1) — deliberately not sharing code with sozu
// ---------------------------------------------------------------------------------------------

const PREFACE: &[u8] = b"PRI * HTTP/2.0\r\n\r\nSM\r\n\r\n";

const T_DATA: u8 = 0;
const T_HEADERS: u8 = 1;
const T_PRIORITY: u8 = 2;
const T_RST: u8 = 3;
const T_SETTINGS: u8 = 4;
const T_PUSH: u8 = 5;
const T_PING: u8 = 6;
const T_GOAWAY: u8 = 7;
const T_WINUP: u8 = 8;
const T_CONT: u8 = 9;
const T_PRIO_UPDATE: u8 = 0x10;

const TYPE_NAMES: [&str; 12] = [
    "DATA", "HEADERS", "PRIORITY", "RST_STREAM", "SETTINGS", "PUSH_PROMISE", "PING", "GOAWAY",
    "WINDOW_UPDATE", "CONTINUATION", "PRIORITY_UPDATE", "UNKNOWN",
];

fn type_index(t: u8) -> usize {
    match t {
        0..=9 => t as usize,
        T_PRIO_UPDATE => 10,
        _ => 11,
    }
}

/// sozu-documented caps (DESIGN appendix A): answers beyond them are exempt, not judged
const SOZU_MAX_SETTINGS_ENTRIES: usize = 64;
const SOZU_MAX_PRIORITY_UPDATE_VALUE: usize = 1024;

#[derive(Clone, Copy, Debug)]
struct RefHeader {
    len: u32,
    ty: u8,
    flags: u8,
    sid: u32,
}

fn ref_header(input: &[u8]) -> Option<RefHeader> {
    if input.len() < 9 {
        return None;
    }
    Some(RefHeader {
        len: ((input[0] as u32) << 16) | ((input[1] as u32) << 8) | input[2] as u32,
        ty: input[3],
        flags: input[4],
        sid: (((input[5] as u32) << 24) | ((input[6] as u32) << 16) | ((input[7] as u32) << 8) | input[8] as u32)
            & 0x7fff_ffff,
    })
}

/// does the frame type satisfy RFC 9113's stream-id rule (zero / non-zero)?
fn sid_rule_ok(ty: u8, sid: u32) -> bool {
    match ty {
        T_DATA | T_HEADERS | T_PRIORITY | T_RST | T_PUSH | T_CONT => sid != 0,
        T_SETTINGS | T_PING | T_GOAWAY | T_PRIO_UPDATE => sid == 0,
        _ => true,
    }
}

#[derive(Debug, PartialEq)]
enum RefContent {
    Data { start: usize, len: usize, end_stream: bool },
    Headers { prio: Option<(bool, u32, u8)>, start: usize, len: usize, end_stream: bool, end_headers: bool },
    Priority { exclusive: bool, dep: u32, weight: u8 },
    Rst { code: u32 },
    Settings { pairs: Vec<(u16, u32)>, ack: bool },
    Ping { payload: [u8; 8], ack: bool },
    GoAway { last: u32, code: u32, debug_start: usize, debug_len: usize },
    WindowUpdate { inc: u32 },
    Continuation,
    PriorityUpdate { sid: u32, value: Vec<u8> },
    Unknown(u8),
    /// PUSH_PROMISE: no content comparison
    Opaque,
}

#[derive(Debug)]
enum Expect {
    /// no decode exists for these bytes: the decoder must report an error
    Reject(&'static str),
    /// both answers permitted; if Ok the content (when given) and the consumption are checked
    Either(&'static str, Option<RefContent>),
    /// well-formed: must be Ok with this content
    Accept(RefContent),
}

fn be32(b: &[u8]) -> u32 {
    ((b[0] as u32) << 24) | ((b[1] as u32) << 16) | ((b[2] as u32) << 8) | b[3] as u32
}

/// reference decode of the payload that follows a header `h`
fn ref_body(h: &RefHeader, body: &[u8]) -> Expect {
    let len = h.len as usize;
    if body.len() < len {
        return Expect::Reject("payload_truncated");
    }
    let p = &body[..len];
    match h.ty {
        T_DATA | T_HEADERS => {
            let padded = h.flags & 0x8 != 0;
            let prio = h.ty == T_HEADERS && h.flags & 0x20 != 0;
            let mut off = 0usize;
            let mut pad = 0usize;
            if padded {
                if len < 1 {
                    return Expect::Reject("padded_without_pad_length_byte");
                }
                pad = p[0] as usize;
                off = 1;
            }
            let mut pr = None;
            if prio {
                if len < off + 5 {
                    return Expect::Reject("priority_fields_truncated");
                }
                let d = be32(&p[off..off + 4]);
                pr = Some((d & 0x8000_0000 != 0, d & 0x7fff_ffff, p[off + 4]));
                off += 5;
            }
            let rem = len - off;
            if pad > rem {
                return Expect::Reject("pad_exceeds_payload");
            }
            if h.ty == T_DATA {
                Expect::Accept(RefContent::Data { start: off, len: rem - pad, end_stream: h.flags & 1 != 0 })
            } else {
                Expect::Accept(RefContent::Headers {
                    prio: pr,
                    start: off,
                    len: rem - pad,
                    end_stream: h.flags & 1 != 0,
                    end_headers: h.flags & 4 != 0,
                })
            }
        }
        T_PRIORITY => {
            if len != 5 {
                return Expect::Reject("fixed_size_mismatch");
            }
            let d = be32(&p[..4]);
            Expect::Accept(RefContent::Priority { exclusive: d & 0x8000_0000 != 0, dep: d & 0x7fff_ffff, weight: p[4] })
        }
        T_RST => {
            if len != 4 {
                return Expect::Reject("fixed_size_mismatch");
            }
            Expect::Accept(RefContent::Rst { code: be32(p) })
        }
        T_SETTINGS => {
            let ack = h.flags & 1 != 0;
            if ack && len != 0 {
                return Expect::Reject("settings_ack_with_payload");
            }
            if len % 6 != 0 {
                return Expect::Reject("settings_not_multiple_of_6");
            }
            let pairs: Vec<(u16, u32)> = p
                .chunks(6)
                .map(|c| ((((c[0] as u16) << 8) | c[1] as u16), be32(&c[2..6])))
                .collect();
            if pairs.len() > SOZU_MAX_SETTINGS_ENTRIES {
                return Expect::Either("settings_above_sozu_cap", Some(RefContent::Settings { pairs, ack }));
            }
            Expect::Accept(RefContent::Settings { pairs, ack })
        }
        T_PUSH => Expect::Either("push_promise", Some(RefContent::Opaque)),
        T_PING => {
            if len != 8 {
                return Expect::Reject("fixed_size_mismatch");
            }
            let mut payload = [0u8; 8];
            payload.copy_from_slice(p);
            Expect::Accept(RefContent::Ping { payload, ack: h.flags & 1 != 0 })
        }
        T_GOAWAY => {
            if len < 8 {
                return Expect::Reject("goaway_too_short");
            }
            Expect::Accept(RefContent::GoAway {
                last: be32(&p[..4]) & 0x7fff_ffff,
                code: be32(&p[4..8]),
                debug_start: 8,
                debug_len: len - 8,
            })
        }
        T_WINUP => {
            if len != 4 {
                return Expect::Reject("fixed_size_mismatch");
            }
            let inc = be32(p) & 0x7fff_ffff;
            if inc == 0 {
                // §6.9: an error, but whether stream or connection error depends on state
                return Expect::Either("window_update_zero_increment", Some(RefContent::WindowUpdate { inc }));
            }
            Expect::Accept(RefContent::WindowUpdate { inc })
        }
        T_CONT => Expect::Accept(RefContent::Continuation),
        T_PRIO_UPDATE => {
            if len < 4 {
                return Expect::Reject("priority_update_too_short");
            }
            let c = RefContent::PriorityUpdate { sid: be32(&p[..4]) & 0x7fff_ffff, value: p[4..].to_vec() };
            if len - 4 > SOZU_MAX_PRIORITY_UPDATE_VALUE {
                return Expect::Either("priority_update_above_sozu_cap", Some(c));
            }
            Expect::Accept(c)
        }
        other => Expect::Accept(RefContent::Unknown(other)),
    }
}

// ---------------------------------------------------------------------------------------------
// translating sozu's answer into the reference vocabulary (observation only)
// ---------------------------------------------------------------------------------------------

fn sozu_type_byte(t: &FrameType) -> u8 {
    match t {
        FrameType::Data => 0,
        FrameType::Headers => 1,
        FrameType::Priority => 2,
        FrameType::RstStream => 3,
        FrameType::Settings => 4,
        FrameType::PushPromise => 5,
        FrameType::Ping => 6,
        FrameType::GoAway => 7,
        FrameType::WindowUpdate => 8,
        FrameType::Continuation => 9,
        FrameType::PriorityUpdate => 0x10,
        FrameType::Unknown(b) => *b,
    }
}

fn prio_tuple(p: &PriorityPart) -> Option<(bool, u32, u8)> {
    match p {
        PriorityPart::Rfc7540 { stream_dependency, weight } => {
            Some((stream_dependency.exclusive, stream_dependency.stream_id, *weight))
        }
        PriorityPart::Rfc9218 { .. } => None,
    }
}

/// (observed content, stream id carried by the frame if it has one)
fn observe(frame: &Frame) -> (RefContent, Option<u32>) {
    match frame {
        Frame::Data(d) => (
            RefContent::Data { start: d.payload.start as usize, len: d.payload.len as usize, end_stream: d.end_stream },
            Some(d.stream_id),
        ),
        Frame::Headers(h) => (
            RefContent::Headers {
                prio: h.priority.as_ref().map(|p| prio_tuple(p).unwrap_or((false, u32::MAX, 0))),
                start: h.header_block_fragment.start as usize,
                len: h.header_block_fragment.len as usize,
                end_stream: h.end_stream,
                end_headers: h.end_headers,
            },
            Some(h.stream_id),
        ),
        Frame::Priority(p) => {
            let (exclusive, dep, weight) = prio_tuple(&p.inner).unwrap_or((false, u32::MAX, 0));
            (RefContent::Priority { exclusive, dep, weight }, Some(p.stream_id))
        }
        Frame::RstStream(r) => (RefContent::Rst { code: r.error_code }, Some(r.stream_id)),
        Frame::Settings(s) => (
            RefContent::Settings { pairs: s.settings.iter().map(|x| (x.identifier, x.value)).collect(), ack: s.ack },
            None,
        ),
        Frame::PushPromise(_) => (RefContent::Opaque, None),
        Frame::Ping(p) => (RefContent::Ping { payload: p.payload, ack: p.ack }, None),
        Frame::GoAway(g) => (
            RefContent::GoAway {
                last: g.last_stream_id,
                code: g.error_code,
                debug_start: g.additional_debug_data.start as usize,
                debug_len: g.additional_debug_data.len as usize,
            },
            None,
        ),
        Frame::WindowUpdate(w) => (RefContent::WindowUpdate { inc: w.increment }, Some(w.stream_id)),
        Frame::Continuation(_) => (RefContent::Continuation, None),
        Frame::PriorityUpdate(p) => (
            RefContent::PriorityUpdate { sid: p.prioritized_stream_id, value: p.priority_field_value.clone() },
            None,
        ),
        Frame::Unknown(b) => (RefContent::Unknown(*b), None),
    }
}

// ---------------------------------------------------------------------------------------------
// counters (flushed into the Report once per batch: 2 M inputs must not pay string maps)
// ---------------------------------------------------------------------------------------------

#[derive(Default)]
struct Tally {
    inputs: u64,
    preface_ok: u64,
    preface_err: u64,
    header_ok: u64,
    header_err_short: u64,
    header_err_oversize: u64,
    header_exempt_sid_rejected: u64,
    header_exempt_sid_accepted: u64,
    body_ok: [u64; 12],
    body_err: [u64; 12],
    reject_truncated: u64,
    reject_fixed: u64,
    reject_pad: u64,
    reject_other: u64,
    exempt_accepted: u64,
    exempt_rejected: u64,
    padded_ok: u64,
    prio_headers_ok: u64,
    trailing_ok: u64,
    stream_walks: u64,
    stream_frames: u64,
    max_payload_ok: u64,
}

impl Tally {
    fn flush(&self, r: &mut Report) {
        r.obs("inputs", self.inputs);
        r.obs("preface_ok", self.preface_ok);
        r.obs("preface_err", self.preface_err);
        r.obs("header_ok", self.header_ok);
        r.obs("header_err_short_input", self.header_err_short);
        r.obs("header_err_length_above_max", self.header_err_oversize);
        r.obs("exempt:stream_id_rule_rejected_by_decoder", self.header_exempt_sid_rejected);
        r.obs("exempt:stream_id_rule_left_to_connection_layer", self.header_exempt_sid_accepted);
        for i in 0..12 {
            r.obs(&format!("body_ok/{}", TYPE_NAMES[i]), self.body_ok[i]);
            r.obs(&format!("body_err/{}", TYPE_NAMES[i]), self.body_err[i]);
        }
        r.obs("reject/payload_truncated", self.reject_truncated);
        r.obs("reject/fixed_size_mismatch", self.reject_fixed);
        r.obs("reject/pad_exceeds_payload", self.reject_pad);
        r.obs("reject/other_malformed", self.reject_other);
        r.obs("exempt:either_accepted", self.exempt_accepted);
        r.obs("exempt:either_rejected", self.exempt_rejected);
        r.obs("padded_frames_decoded", self.padded_ok);
        r.obs("headers_with_priority_decoded", self.prio_headers_ok);
        r.obs("ok_with_trailing_bytes_left_untouched", self.trailing_ok);
        r.obs("frame_stream_walks", self.stream_walks);
        r.obs("frame_stream_frames", self.stream_frames);
        r.obs_max("payload_len_decoded", self.max_payload_ok);
    }
}

// ---------------------------------------------------------------------------------------------
// the oracle
// ---------------------------------------------------------------------------------------------

fn hex_capped(b: &[u8]) -> String {
    if b.len() <= 600 {
        hex::encode(b)
    } else {
        format!("{}..(+{} bytes)", hex::encode(&b[..600]), b.len() - 600)
    }
}

struct Case<'a> {
    ctx: &'a Ctx,
    seed: u64,
    batch: u64,
    class: &'static str,
}

impl Case<'_> {
    fn witness(&self, k: u64, input: &[u8], max: u32, expected: String, observed: String) -> Value {
        json!({
            "case": self.batch, "seed": self.seed, "k": k, "class": self.class,
            "max_frame_size": max, "input_len": input.len(), "input_hex": hex_capped(input),
            "expected": expected, "observed": observed,
            "reproduce": "parser::frame_header(&input, max_frame_size) then parser::frame_body(rest, &header)",
        })
    }
}

/// what the decoder did with one input
#[derive(Clone, Copy, PartialEq, Eq, Debug)]
enum Outcome {
    HeaderErr,
    BodyErr,
    /// accepted; total bytes consumed
    Frame(usize),
    /// an oracle fired (already reported)
    Flagged,
}

fn is_suffix_at(whole: &[u8], rest: &[u8], at: usize) -> bool {
    at <= whole.len() && rest.len() == whole.len() - at && std::ptr::eq(rest.as_ptr(), whole[at..].as_ptr())
}

/// decode `input` with sozu and with the reference; report disagreements
fn check_one(c: &Case, k: u64, input: &[u8], max: u32, t: &mut Tally, r: &mut Report) -> Outcome {
    t.inputs += 1;

    // ---- preface ----
    match parser::preface(input) {
        Ok((rest, p)) => {
            t.preface_ok += 1;
            if !input.starts_with(PREFACE) || p != PREFACE || !is_suffix_at(input, rest, 24) {
                r.violation(
                    "preface/accepted_or_consumed_wrong",
                    "preface() returned Ok on bytes that are not the 24-byte client preface, or did not consume exactly 24 bytes",
                    c.witness(k, input, max, "Ok only for the exact preface, consuming 24".into(), format!("rest_len={}", rest.len())),
                );
                return Outcome::Flagged;
            }
        }
        Err(_) => {
            t.preface_err += 1;
            if input.starts_with(PREFACE) {
                r.violation(
                    "preface/rejected_valid",
                    "preface() rejected an input starting with the client preface",
                    c.witness(k, input, max, "Ok".into(), "Err".into()),
                );
                return Outcome::Flagged;
            }
        }
    }

    // ---- header ----
    let rh = ref_header(input);
    let res = parser::frame_header(input, max);
    let (rest, h): (&[u8], FrameHeader) = match res {
        Err(e) => {
            match rh {
                None => t.header_err_short += 1,
                Some(h) if h.len > max => t.header_err_oversize += 1,
                Some(h) if !sid_rule_ok(h.ty, h.sid) => t.header_exempt_sid_rejected += 1,
                Some(h) => {
                    r.violation(
                        "header/rejected_wellformed",
                        "frame_header rejected nine bytes whose length is within the maximum and whose stream id satisfies the frame type's rule",
                        c.witness(k, input, max, format!("Ok({h:?})"), format!("{e:?}")),
                    );
                    return Outcome::Flagged;
                }
            }
            return Outcome::HeaderErr;
        }
        Ok(v) => v,
    };
    let Some(rh) = rh else {
        r.violation(
            "header/accepted_short_input",
            "frame_header returned Ok on fewer than 9 bytes",
            c.witness(k, input, max, "Err".into(), format!("Ok({h:?})")),
        );
        return Outcome::Flagged;
    };
    if !is_suffix_at(input, rest, 9) {
        r.violation(
            "header/consumed_not_9",
            "frame_header did not consume exactly the 9 header bytes",
            c.witness(k, input, max, "rest = input[9..]".into(), format!("rest_len={} input_len={}", rest.len(), input.len())),
        );
        return Outcome::Flagged;
    }
    for (field, got, want) in [
        ("payload_len", h.payload_len as u64, rh.len as u64),
        ("frame_type", sozu_type_byte(&h.frame_type) as u64, rh.ty as u64),
        ("flags", h.flags as u64, rh.flags as u64),
        ("stream_id", h.stream_id as u64, rh.sid as u64),
    ] {
        if got != want {
            r.violation(
                &format!("header/field_mismatch/{field}"),
                "frame_header decoded a field differently from the wire bytes",
                c.witness(k, input, max, format!("{field}={want}"), format!("{field}={got}")),
            );
            return Outcome::Flagged;
        }
    }
    if rh.len > max {
        r.violation(
            "header/accepted_length_above_max",
            "frame_header accepted a frame longer than the maximum frame size it was given",
            c.witness(k, input, max, "Err(FRAME_SIZE_ERROR)".into(), format!("Ok({h:?})")),
        );
        return Outcome::Flagged;
    }
    t.header_ok += 1;
    if !sid_rule_ok(rh.ty, rh.sid) {
        t.header_exempt_sid_accepted += 1;
    }

    // ---- body ----
    let ti = type_index(rh.ty);
    let tname = TYPE_NAMES[ti];
    let expect = ref_body(&rh, rest);
    let plen = rh.len as usize;
    match parser::frame_body(rest, &h) {
        Err(e) => {
            t.body_err[ti] += 1;
            match expect {
                Expect::Reject(why) => match why {
                    "payload_truncated" => t.reject_truncated += 1,
                    "fixed_size_mismatch" => t.reject_fixed += 1,
                    "pad_exceeds_payload" => t.reject_pad += 1,
                    _ => t.reject_other += 1,
                },
                Expect::Either(..) => t.exempt_rejected += 1,
                Expect::Accept(content) => {
                    r.violation(
                        &format!("body/rejected_wellformed/{tname}"),
                        "frame_body reported an error on a well-formed, completely present frame",
                        c.witness(k, input, max, format!("Ok({content:?})"), format!("{e:?}")),
                    );
                    return Outcome::Flagged;
                }
            }
            Outcome::BodyErr
        }
        Ok((rest2, frame)) => {
            if let Expect::Reject(why) = expect {
                r.violation(
                    &format!("body/accepted_malformed/{tname}/{why}"),
                    "frame_body returned Ok although no decode of these bytes exists (RFC 9113 makes it a size/protocol error)",
                    c.witness(k, input, max, format!("Err ({why})"), format!("Ok({frame:?}) rest_len={}", rest2.len())),
                );
                return Outcome::Flagged;
            }
            if !is_suffix_at(rest, rest2, plen) {
                r.violation(
                    &format!("body/consumed_not_payload_len/{tname}"),
                    "frame_body returned Ok without consuming exactly the declared payload length",
                    c.witness(
                        k, input, max,
                        format!("consumed {plen} of {}", rest.len()),
                        format!("consumed {} (rest_len={})", rest.len() as i64 - rest2.len() as i64, rest2.len()),
                    ),
                );
                return Outcome::Flagged;
            }
            let want = match expect {
                Expect::Accept(c) => Some(c),
                Expect::Either(_, c) => {
                    t.exempt_accepted += 1;
                    c
                }
                Expect::Reject(_) => unreachable!(),
            };
            let (got, got_sid) = observe(&frame);
            if let Some(want) = want {
                if want != got {
                    r.violation(
                        &format!("body/content_mismatch/{tname}"),
                        "the decoded frame differs from the wire bytes",
                        c.witness(k, input, max, format!("{want:?}"), format!("{got:?}")),
                    );
                    return Outcome::Flagged;
                }
                match &want {
                    RefContent::Data { start, .. } | RefContent::Headers { start, .. } if rh.flags & 0x8 != 0 && *start > 0 => {
                        t.padded_ok += 1
                    }
                    _ => {}
                }
                if let RefContent::Headers { prio: Some(_), .. } = &want {
                    t.prio_headers_ok += 1;
                }
            }
            if let Some(s) = got_sid {
                if s != rh.sid {
                    r.violation(
                        &format!("body/content_mismatch/{tname}/stream_id"),
                        "the decoded frame carries a stream id different from the header's",
                        c.witness(k, input, max, format!("stream_id={}", rh.sid), format!("stream_id={s}")),
                    );
                    return Outcome::Flagged;
                }
            }
            t.body_ok[ti] += 1;
            if !rest2.is_empty() {
                t.trailing_ok += 1;
            }
            t.max_payload_ok = t.max_payload_ok.max(plen as u64);
            Outcome::Frame(9 + plen)
        }
    }
}

/// run `check_one` behind a panic guard; a panic under /repo is the violation
fn checked(c: &Case, k: u64, input: &[u8], max: u32, t: &mut Tally, r: &mut Report) -> Outcome {
    match guard(|| check_one(c, k, input, max, t, r)) {
        Ok(o) => {
            record_shape(input, max, o, r);
            o
        }
        Err(p) => {
            if p.in_sozu() {
                r.violation(
                    &p.signature(),
                    &format!("the frame decoder panicked: {} at {}", p.message, p.location),
                    c.witness(k, input, max, "Err or Ok, never a panic".into(), format!("panic: {} at {}", p.message, p.location)),
                );
            } else {
                r.broken(&format!("harness panic in parser lab batch {} input {k}: {} at {}", c.batch, p.message, p.location));
            }
            r.case(0, false);
            Outcome::Flagged
        }
    }
}

fn len_bucket(len: u32, max: u32) -> u8 {
    match len {
        0..=9 => len as u8,
        10..=18 => 10,
        19..=255 => 11,
        256..=1028 => 12,
        1029..=16384 => 13,
        _ if len <= max => 14,
        _ => 15,
    }
}

fn record_shape(input: &[u8], max: u32, o: Outcome, r: &mut Report) {
    match ref_header(input) {
        None => r.case_bytes(&[0xff, input.len() as u8], false),
        Some(h) => {
            let tail = (input.len() - 9).cmp(&(h.len as usize)) as i8 as u8;
            let sidc = match h.sid {
                0 => 0u8,
                0x7fff_ffff => 3,
                s if s % 2 == 1 => 1,
                _ => 2,
            };
            let oc = match o {
                Outcome::HeaderErr => 0u8,
                Outcome::BodyErr => 1,
                Outcome::Frame(_) => 2,
                Outcome::Flagged => 3,
            };
            r.case_bytes(&[h.ty.min(0x12), h.flags, len_bucket(h.len, max), sidc, input[5] >> 7, tail, oc], true);
            if r.samples.len() < 3 && input.len() <= 64 {
                let outcome = ["header_err", "body_err", "frame", "flagged"][oc as usize];
                r.sample(serde_json::json!({"input_hex": input.iter().map(|b| format!("{b:02x}")).collect::<String>(),
                    "max_frame_size": max, "outcome": outcome}));
            }
        }
    }
}

// ---------------------------------------------------------------------------------------------
// generators
// ---------------------------------------------------------------------------------------------

const MAX_SIZES: [u32; 6] = [16_384, 16_385, 32_768, 65_535, 1 << 20, (1 << 24) - 1];
const ALL_TYPES: [u8; 20] = [0, 1, 2, 3, 4, 5, 6, 7, 8, 9, 0x0a, 0x0b, 0x0c, 0x0f, 0x10, 0x11, 0x12, 0x7f, 0x80, 0xff];
const GRID_LENS: [u32; 17] = [0, 1, 3, 4, 5, 6, 7, 8, 9, 11, 12, 13, 14, 18, 36, 16_385, 0xff_ffff];
const GRID_SIDS: [u32; 7] = [0, 1, 2, 0x7fff_ffff, 0x8000_0000, 0x8000_0001, 0xffff_ffff];
const GRID_TAILS: u64 = 3; // exact, +9 trailing bytes, one byte short
const GRID_POINTS: u64 = (ALL_TYPES.len() * 256 * GRID_LENS.len() * GRID_SIDS.len()) as u64 * GRID_TAILS;
const GRID_BATCH: u64 = 4096;
const INTERESTING: [u8; 10] = [0, 1, 4, 5, 6, 8, 9, 0x7f, 0x80, 0xff];

fn put_header(out: &mut Vec<u8>, len: u32, ty: u8, flags: u8, sid_raw: u32) {
    out.extend_from_slice(&[(len >> 16) as u8, (len >> 8) as u8, len as u8, ty, flags]);
    out.extend_from_slice(&sid_raw.to_be_bytes());
}

/// the grid point `g` of the exhaustively enumerated (type, flags, length, stream id, tail) space;
/// payload bytes come from a fixed-seed stream (not part of the exhaustiveness claim)
fn grid_input(g: u64) -> (Vec<u8>, u32) {
    let mut x = g;
    let tail = x % GRID_TAILS;
    x /= GRID_TAILS;
    let sid = GRID_SIDS[(x % GRID_SIDS.len() as u64) as usize];
    x /= GRID_SIDS.len() as u64;
    let len = GRID_LENS[(x % GRID_LENS.len() as u64) as usize];
    x /= GRID_LENS.len() as u64;
    let flags = (x % 256) as u8;
    x /= 256;
    let ty = ALL_TYPES[x as usize];
    let mut rng = Rng::for_case(0xC15, 1, g);
    let mut out = Vec::with_capacity(9 + len as usize + 9);
    put_header(&mut out, len, ty, flags, sid);
    // lengths above every buffer the grid builds (16 385: above/at the maximum; 2^24-1): only a
    // few payload bytes follow, the decoder must refuse either the length or the truncation
    let mut payload = rng.bytes(if len > 64 { 40 } else { len as usize });
    if len > 0 {
        // first byte = pad length when PADDED: sweep the boundary around what is left
        let l = len as i64;
        let cands = [0, 1, l - 7, l - 6, l - 2, l - 1, l, 255];
        payload[0] = cands[rng.usize_below(cands.len())].clamp(0, 255) as u8;
    }
    match tail {
        0 => out.extend_from_slice(&payload),
        1 => {
            out.extend_from_slice(&payload);
            out.extend_from_slice(&rng.bytes(9));
        }
        _ => {
            if !payload.is_empty() {
                payload.pop();
            }
            out.extend_from_slice(&payload);
        }
    }
    (out, MAX_SIZES[(g % 2) as usize])
}

fn pick_sid(rng: &mut Rng, want_zero: Option<bool>) -> u32 {
    let base = match want_zero {
        Some(true) => 0,
        Some(false) => *rng.pick(&[1u32, 3, 2, 0x7fff_ffff, 0x7fff_fffe, 101]),
        None => *rng.pick(&[0u32, 1, 2, 3, 0x7fff_ffff, 0x1234_5678]),
    };
    if rng.chance(1, 4) { base | 0x8000_0000 } else { base }
}

/// a well-formed frame of wire type `ty` (full bytes). `big` allows payloads up to 16 384
fn valid_frame(rng: &mut Rng, ty: u8, big: bool) -> Vec<u8> {
    let var_len = |rng: &mut Rng| -> usize {
        if big && rng.chance(1, 6) {
            *rng.pick(&[16_383usize, 16_384, 9_000, 4_096])
        } else {
            rng.boundary_size(&[0, 1, 5, 6, 9, 24, 255, 256], 600)
        }
    };
    let mut out = Vec::new();
    match ty {
        T_DATA | T_HEADERS => {
            let mut flags = rng.next_u64() as u8 & if ty == T_DATA { 0x09 } else { 0x2d };
            if rng.chance(1, 8) {
                flags |= rng.next_u64() as u8 & !0x28; // undefined flag bits must be ignored
            }
            let body = var_len(rng);
            let mut payload = Vec::new();
            let pad = if flags & 0x8 != 0 { *rng.pick(&[0usize, 1, 2, 7, 255]) } else { 0 };
            if flags & 0x8 != 0 {
                payload.push(pad as u8);
            }
            if ty == T_HEADERS && flags & 0x20 != 0 {
                payload.extend_from_slice(&rng.bytes(5));
            }
            payload.extend_from_slice(&rng.bytes(body));
            payload.extend(std::iter::repeat(0u8).take(pad));
            put_header(&mut out, payload.len() as u32, ty, flags, pick_sid(rng, Some(false)));
            out.extend_from_slice(&payload);
        }
        T_PRIORITY => {
            put_header(&mut out, 5, ty, rng.next_u64() as u8, pick_sid(rng, Some(false)));
            out.extend_from_slice(&rng.bytes(5));
        }
        T_RST => {
            put_header(&mut out, 4, ty, rng.next_u64() as u8, pick_sid(rng, Some(false)));
            out.extend_from_slice(&(rng.below(0x10) as u32).to_be_bytes());
        }
        T_SETTINGS => {
            if rng.chance(1, 4) {
                put_header(&mut out, 0, ty, 1, pick_sid(rng, Some(true)));
            } else {
                let n = *rng.pick(&[0usize, 1, 2, 6, 8, 63, 64, 65, 100]);
                put_header(&mut out, (n * 6) as u32, ty, rng.next_u64() as u8 & !1, pick_sid(rng, Some(true)));
                for _ in 0..n {
                    out.extend_from_slice(&(rng.below(12) as u16).to_be_bytes());
                    out.extend_from_slice(&(rng.next_u64() as u32).to_be_bytes());
                }
            }
        }
        T_PUSH => {
            let n = var_len(rng).max(4);
            put_header(&mut out, n as u32, ty, rng.next_u64() as u8 & 0x0c, pick_sid(rng, Some(false)));
            out.extend_from_slice(&rng.bytes(n));
        }
        T_PING => {
            put_header(&mut out, 8, ty, rng.next_u64() as u8, pick_sid(rng, Some(true)));
            out.extend_from_slice(&rng.bytes(8));
        }
        T_GOAWAY => {
            let n = rng.boundary_size(&[0, 1, 16], 300);
            put_header(&mut out, (8 + n) as u32, ty, rng.next_u64() as u8, pick_sid(rng, Some(true)));
            out.extend_from_slice(&rng.bytes(8 + n));
        }
        T_WINUP => {
            put_header(&mut out, 4, ty, rng.next_u64() as u8, pick_sid(rng, None));
            let inc = *rng.pick(&[1u32, 0, 0x7fff_ffff, 0x8000_0001, 65_535, 0xffff_ffff]);
            out.extend_from_slice(&inc.to_be_bytes());
        }
        T_CONT => {
            let n = var_len(rng);
            put_header(&mut out, n as u32, ty, rng.next_u64() as u8 & 0x04, pick_sid(rng, Some(false)));
            out.extend_from_slice(&rng.bytes(n));
        }
        T_PRIO_UPDATE => {
            let n = *rng.pick(&[0usize, 1, 3, 8, 1023, 1024, 1025, 2000]);
            put_header(&mut out, (4 + n) as u32, ty, rng.next_u64() as u8, pick_sid(rng, Some(true)));
            out.extend_from_slice(&rng.bytes(4 + n));
        }
        other => {
            let n = var_len(rng);
            put_header(&mut out, n as u32, other, rng.next_u64() as u8, pick_sid(rng, None));
            out.extend_from_slice(&rng.bytes(n));
        }
    }
    out
}

fn any_type(rng: &mut Rng) -> u8 {
    if rng.chance(9, 10) { *rng.pick(&[0u8, 1, 2, 3, 4, 5, 6, 7, 8, 9, 0x10]) } else { *rng.pick(&ALL_TYPES) }
}

fn set_len(frame: &mut [u8], len: u32) {
    frame[0] = (len >> 16) as u8;
    frame[1] = (len >> 8) as u8;
    frame[2] = len as u8;
}

/// one structural or byte-level mutation of a frame
fn mutate(rng: &mut Rng, f: &mut Vec<u8>, max: u32) {
    if f.is_empty() {
        let n = rng.urange(1, 12);
        f.extend_from_slice(&rng.bytes(n));
        return;
    }
    match rng.below(12) {
        0 => {
            let i = rng.usize_below(f.len());
            f[i] ^= 1 << rng.below(8);
        }
        1 => {
            let i = rng.usize_below(f.len());
            f[i] = *rng.pick(&INTERESTING);
        }
        2 => {
            let i = rng.usize_below(f.len() + 1);
            f.insert(i, *rng.pick(&INTERESTING));
        }
        3 => {
            let i = rng.usize_below(f.len());
            f.remove(i);
        }
        // length classes: 0, wrong fixed size (±1, ±2), > max, the byte count actually present ±1
        4 if f.len() >= 9 => {
            let cur = ref_header(f).map(|h| h.len).unwrap_or(0) as i64;
            let present = f.len() as i64 - 9;
            let cands = [0, cur - 1, cur + 1, cur - 2, cur + 2, present, present + 1, present - 1, max as i64, max as i64 + 1, 0xff_ffff];
            set_len(f, cands[rng.usize_below(cands.len())].clamp(0, 0xff_ffff) as u32);
        }
        5 if f.len() >= 9 => f[3] = any_type(rng),
        6 if f.len() >= 9 => f[4] ^= *rng.pick(&[0x1u8, 0x4, 0x8, 0x20, 0x28, 0x29, 0xff]),
        7 if f.len() >= 9 => {
            let sid = pick_sid(rng, None);
            f[5..9].copy_from_slice(&sid.to_be_bytes());
        }
        // pad length byte
        8 if f.len() >= 10 => {
            let present = (f.len() - 9) as i64;
            let cands = [0, 1, present - 7, present - 6, present - 2, present - 1, present, 255];
            f[9] = cands[rng.usize_below(cands.len())].clamp(0, 255) as u8;
            f[4] |= 0x8;
        }
        9 => {
            let n = rng.usize_below(f.len() + 1);
            f.truncate(n);
        }
        10 => {
            let n = rng.urange(1, 20);
            f.extend_from_slice(&rng.bytes(n));
        }
        _ => {
            let i = rng.usize_below(f.len());
            let n = rng.urange(1, 4).min(f.len() - i);
            let b = rng.bytes(n);
            f[i..i + n].copy_from_slice(&b);
        }
    }
}

fn pick_max(rng: &mut Rng) -> u32 {
    if rng.chance(2, 3) { 16_384 } else { *rng.pick(&MAX_SIZES) }
}

/// files of the repository's fuzz corpus (read at run time only if present)
fn load_corpus() -> Vec<(String, Vec<u8>)> {
    let mut out = Vec::new();
    let Ok(dirs) = std::fs::read_dir("/repo/fuzz/corpus") else {
        return out;
    };
    let mut dirs: Vec<_> = dirs.filter_map(|d| d.ok()).map(|d| d.path()).collect();
    dirs.sort();
    for d in dirs {
        let Ok(files) = std::fs::read_dir(&d) else { continue };
        let mut files: Vec<_> = files.filter_map(|f| f.ok()).map(|f| f.path()).collect();
        files.sort();
        for f in files {
            if let Ok(bytes) = std::fs::read(&f) {
                if bytes.len() <= 1 << 16 {
                    out.push((f.display().to_string(), bytes));
                }
            }
        }
    }
    out
}

// ---------------------------------------------------------------------------------------------
// batches
// ---------------------------------------------------------------------------------------------

const INPUTS_PER_BATCH: u64 = 512;

struct Plan {
    grid_batches: u64,
    trunc_batches: u64,
    corpus_batches: u64,
    random_batches: u64,
}

impl Plan {
    fn total(&self) -> u64 {
        self.grid_batches + self.trunc_batches + self.corpus_batches + self.random_batches
    }
}

/// every prefix of `frame` (exhaustive when short, boundaries + samples otherwise)
fn truncations(c: &Case, rng: &mut Rng, frame: &[u8], max: u32, k: &mut u64, t: &mut Tally, r: &mut Report) {
    let n = frame.len();
    if n <= 96 {
        for cut in 0..=n {
            checked(c, *k, &frame[..cut], max, t, r);
            *k += 1;
        }
        r.obs("frames_truncated_at_every_prefix", 1);
    } else {
        let mut cuts: Vec<usize> = (0..=24).collect();
        cuts.extend([n - 2, n - 1, n]);
        for _ in 0..8 {
            cuts.push(rng.usize_below(n));
        }
        for cut in cuts {
            checked(c, *k, &frame[..cut.min(n)], max, t, r);
            *k += 1;
        }
        r.obs("frames_truncated_sampled", 1);
    }
}

/// concatenated frames walked like a reader would: every frame consumed exactly, no desync
fn stream_walk(c: &Case, rng: &mut Rng, k: &mut u64, t: &mut Tally, r: &mut Report) {
    let n = rng.urange(2, 8);
    let mut stream = Vec::new();
    let mut bounds = vec![0usize];
    for _ in 0..n {
        let ty = *rng.pick(&[0u8, 1, 2, 3, 4, 6, 7, 8, 9, 0x10, 0x42]);
        let mut f = valid_frame(rng, ty, false);
        // keep the walk on frames every decoder must accept: drop the exempt shapes
        if let Some(h) = ref_header(&f) {
            let exempt = matches!(ref_body(&h, &f[9..]), Expect::Either(..));
            if exempt {
                f = valid_frame(rng, T_PING, false);
            }
        }
        stream.extend_from_slice(&f);
        bounds.push(stream.len());
    }
    t.stream_walks += 1;
    let mut at = 0usize;
    let mut i = 0usize;
    while at < stream.len() {
        let o = checked(c, *k, &stream[at..], 16_384, t, r);
        *k += 1;
        match o {
            Outcome::Frame(used) => {
                at += used;
                i += 1;
                t.stream_frames += 1;
                if bounds.get(i) != Some(&at) {
                    r.violation(
                        "stream/desynchronised",
                        "walking a concatenation of well-formed frames, the decoder's consumption left the frame boundaries",
                        c.witness(*k, &stream, 16_384, format!("boundaries {bounds:?}"), format!("offset {at} after frame {i}")),
                    );
                    return;
                }
            }
            Outcome::Flagged => return,
            Outcome::HeaderErr | Outcome::BodyErr => {
                // a well-formed frame refused: check_one has already flagged it unless exempt
                r.obs("stream_walk_stopped_on_error", 1);
                return;
            }
        }
    }
}

/// sozu's logger is thread-local and, uninitialised, prints every `error!` of the parser to
/// stdout: switch it off for the calling thread (observation is through return values only)
fn silence_sozu_logger() {
    use sozu_command_lib::logging::{LOGGER, parse_logging_spec};
    thread_local! { static DONE: std::cell::Cell<bool> = const { std::cell::Cell::new(false) }; }
    if !DONE.with(|d| d.replace(true)) {
        let (directives, _) = parse_logging_spec("off");
        LOGGER.with(|l| l.borrow_mut().set_directives(directives));
    }
}

/// pseudo batch index of the corpus replay in witnesses
const CORPUS_REPLAY: u64 = u64::MAX;

/// the fuzz corpus as it is and at every prefix length (done first: a run cut short by the
/// budget must still have replayed it)
fn corpus_replay(ctx: &Ctx, seed: u64, corpus: &[(String, Vec<u8>)], r: &mut Report) {
    silence_sozu_logger();
    let c = Case { ctx, seed, batch: CORPUS_REPLAY, class: "corpus_replay" };
    let mut t = Tally::default();
    let mut k = 0u64;
    let mut rng = Rng::for_case(seed, 0xC15A, CORPUS_REPLAY);
    for (_, bytes) in corpus {
        for max in [16_384, (1 << 24) - 1] {
            truncations(&c, &mut rng, bytes, max, &mut k, &mut t, r);
        }
        r.obs("corpus_files_replayed", 1);
    }
    t.flush(r);
}

fn run_batch(ctx: &Ctx, seed: u64, plan: &Plan, corpus: &[(String, Vec<u8>)], batch: u64, r: &mut Report) {
    silence_sozu_logger();
    let mut t = Tally::default();
    let mut k = 0u64;
    let mut rng = Rng::for_case(seed, 0xC15A, batch);
    let mut b = batch;
    if b < plan.grid_batches {
        let c = Case { ctx, seed, batch, class: "grid" };
        let lo = b * GRID_BATCH;
        let hi = (lo + GRID_BATCH).min(GRID_POINTS);
        for g in lo..hi {
            let (input, max) = grid_input(g);
            checked(&c, g, &input, max, &mut t, r);
        }
        r.obs("grid_points", hi - lo);
        t.flush(r);
        return;
    }
    b -= plan.grid_batches;
    if b < plan.trunc_batches {
        let c = Case { ctx, seed, batch, class: "truncation" };
        while t.inputs < INPUTS_PER_BATCH {
            let ty = any_type(&mut rng);
            let big = rng.chance(1, 20);
            let f = valid_frame(&mut rng, ty, big);
            let max = pick_max(&mut rng);
            truncations(&c, &mut rng, &f, max, &mut k, &mut t, r);
            // and the preface, alone and followed by a frame
            if rng.chance(1, 16) {
                let mut p = PREFACE.to_vec();
                p.extend_from_slice(&valid_frame(&mut rng, T_SETTINGS, false));
                truncations(&c, &mut rng, &p, max, &mut k, &mut t, r);
            }
        }
        t.flush(r);
        return;
    }
    b -= plan.trunc_batches;
    if b < plan.corpus_batches {
        let c = Case { ctx, seed, batch, class: "corpus" };
        if corpus.is_empty() {
            return;
        }
        while t.inputs < INPUTS_PER_BATCH {
            let (_, bytes) = rng.pick(corpus);
            let mut f = bytes.clone();
            let max = pick_max(&mut rng);
            for _ in 0..rng.urange(1, 4) {
                mutate(&mut rng, &mut f, max);
            }
            if rng.chance(1, 4) {
                let (_, other) = rng.pick(corpus);
                f.extend_from_slice(other);
            }
            checked(&c, k, &f, max, &mut t, r);
            k += 1;
            r.obs("corpus_mutants", 1);
        }
        t.flush(r);
        return;
    }
    // random / mutated / streams
    let c_rand = Case { ctx, seed, batch, class: "random_bytes" };
    let c_mut = Case { ctx, seed, batch, class: "mutated_frame" };
    let c_valid = Case { ctx, seed, batch, class: "valid_frame" };
    let c_stream = Case { ctx, seed, batch, class: "frame_stream" };
    while t.inputs < INPUTS_PER_BATCH {
        let max = pick_max(&mut rng);
        match rng.below(10) {
            0 => {
                // arbitrary bytes, short
                let n = rng.boundary_size(&[0, 8, 9, 10, 24], 80);
                let input = rng.bytes(n);
                checked(&c_rand, k, &input, max, &mut t, r);
            }
            1 => {
                // arbitrary bytes behind a plausible length field so that bodies are reached
                let n = rng.boundary_size(&[9, 13, 14, 17, 18], 300).max(9);
                let mut input = rng.bytes(n);
                let present = (n - 9) as i64;
                let l = (present + rng.range(0, 4) as i64 - 2).clamp(0, 0xff_ffff) as u32;
                set_len(&mut input, l);
                if rng.chance(3, 4) {
                    input[3] = any_type(&mut rng);
                }
                checked(&c_rand, k, &input, max, &mut t, r);
            }
            2 => {
                let ty = any_type(&mut rng);
                let big = rng.chance(1, 10);
                let f = valid_frame(&mut rng, ty, big);
                checked(&c_valid, k, &f, max, &mut t, r);
            }
            3 => stream_walk(&c_stream, &mut rng, &mut k, &mut t, r),
            _ => {
                let ty = any_type(&mut rng);
                let mut f = valid_frame(&mut rng, ty, false);
                for _ in 0..rng.urange(1, 3) {
                    mutate(&mut rng, &mut f, max);
                }
                if rng.chance(1, 5) {
                    let ty = any_type(&mut rng);
                    let next = valid_frame(&mut rng, ty, false);
                    f.extend_from_slice(&next);
                }
                checked(&c_mut, k, &f, max, &mut t, r);
            }
        }
        k += 1;
    }
    t.flush(r);
}

// ---------------------------------------------------------------------------------------------
// entry points
// ---------------------------------------------------------------------------------------------

/// part (a): the frame-decoder lab
pub fn run_parser(ctx: &Ctx, rep: &mut Report) {
    rep.assume("frame-decoder lab: the reference decode is written from RFC 9113 §4.1/§6 and RFC 9218 §7.1 only; kawa's `Slice` (start,len) is read as an offset into the bytes handed to frame_body");
    rep.assume("frame-decoder lab: stream-id zero/non-zero rules, zero WINDOW_UPDATE increments, PUSH_PROMISE, SETTINGS with more than 64 entries and PRIORITY_UPDATE values above 1024 bytes may be refused by the decoder or left to the connection layer: both answers are accepted and counted under exempt:*");
    rep.assume("frame-decoder lab: max_frame_size ranges over RFC-legal values 16384..=16777215 (what the production callers pass)");
    if ctx.replay.is_none() {
        for k in [
            "header_ok",
            "header_err_short_input",
            "header_err_length_above_max",
            "reject/payload_truncated",
            "reject/fixed_size_mismatch",
            "reject/pad_exceeds_payload",
            "padded_frames_decoded",
            "headers_with_priority_decoded",
            "ok_with_trailing_bytes_left_untouched",
            "frame_stream_frames",
            "preface_ok",
            "frames_truncated_at_every_prefix",
        ] {
            rep.require(k);
        }
        for (i, name) in TYPE_NAMES.iter().enumerate() {
            if i != T_PUSH as usize {
                rep.require(&format!("body_ok/{name}"));
            }
            rep.require(&format!("body_err/{name}"));
        }
    }

    let corpus = load_corpus();
    rep.set("parser_lab_fuzz_corpus_files", json!(corpus.len()));
    if corpus.is_empty() {
        rep.assume("frame-decoder lab: /repo/fuzz/corpus not present, corpus seeding skipped");
    } else if ctx.replay.is_none() {
        rep.require("corpus_files_replayed");
    }

    let grid_batches = GRID_POINTS.div_ceil(GRID_BATCH);
    let target_inputs = ctx.opt_u64("parser_inputs", ctx.tier.pick(8_000_000, 1_000_000_000));
    let rest = target_inputs.saturating_sub(GRID_POINTS) / INPUTS_PER_BATCH;
    let plan = Plan {
        grid_batches,
        trunc_batches: rest * 3 / 10,
        corpus_batches: if corpus.is_empty() { 0 } else { (rest / 10).max(1) },
        random_batches: (rest * 6 / 10).max(1),
    };
    rep.set(
        "parser_lab_plan",
        json!({"grid_points": GRID_POINTS, "grid_batches": plan.grid_batches, "truncation_batches": plan.trunc_batches,
               "corpus_batches": plan.corpus_batches, "random_batches": plan.random_batches,
               "grid": "20 type bytes x 256 flags x 17 lengths (0..36, 16385, 2^24-1) x 7 raw stream ids x {exact, +9 trailing, 1 short}; payload bytes sampled"}),
    );

    if let Some(path) = &ctx.replay {
        let v: Value = serde_json::from_str(&std::fs::read_to_string(path).unwrap_or_default()).unwrap_or(Value::Null);
        let seed = v["seed"].as_u64().unwrap_or(ctx.seed);
        let mut seen = std::collections::BTreeSet::new();
        for w in v["witnesses"].as_array().cloned().unwrap_or_default() {
            if w.get("max_frame_size").is_none() {
                continue; // not a parser-lab witness
            }
            let wseed = w["seed"].as_u64().unwrap_or(seed);
            if let Some(c) = w["case"].as_u64() {
                if seen.insert((wseed, c)) {
                    if c == CORPUS_REPLAY {
                        corpus_replay(ctx, wseed, &corpus, rep);
                    } else {
                        run_batch(ctx, wseed, &plan, &corpus, c, rep);
                    }
                }
            }
        }
        return;
    }

    corpus_replay(ctx, ctx.seed, &corpus, rep);
    let total = plan.total();
    // interleave the classes so that a run cut short by the budget still saw all of them
    let order = |i: u64| -> u64 {
        let stride = 7919 % total.max(1);
        if total > 1 && gcd(stride.max(1), total) == 1 { (i * stride.max(1)) % total } else { i }
    };
    par_cases_named(ctx, rep, total, "c15-parser", |i, r| run_batch(ctx, ctx.seed, &plan, &corpus, order(i), r));
    if rep.observed.get("grid_points").copied().unwrap_or(0) == GRID_POINTS {
        rep.set("parser_lab_grid_exhaustive", json!(true));
    } else {
        rep.set("parser_lab_grid_exhaustive", json!(false));
    }
}

fn gcd(a: u64, b: u64) -> u64 {
    if b == 0 { a } else { gcd(b, a % b) }
}

pub fn run(ctx: &Ctx) -> Report {
    let mut rep = Report::new(
        "exploration",
        "frame-decoder lab: byte strings fed to preface/frame_header/frame_body and compared with an independent RFC 9113 decode: (1) an exhaustively enumerated grid of type byte x flags x length x raw stream id x tail (exact / trailing bytes / one byte short), (2) well-formed frames of every type cut at every prefix length, (3) the repository's fuzz corpus, as is, at every prefix, and mutated, (4) arbitrary bytes, mutated valid frames (length classes 0 / +-1 / +-2 / bytes present / > max, type, flags, stream id, pad length, insert/delete/flip) and concatenated frame streams walked frame by frame; a case is non-trivial when a 9-byte header is present; distinct = distinct (type, flags, length bucket, stream-id class, reserved bit, tail relation, decoder outcome)",
    );
    run_parser(ctx, &mut rep);
    rep
}
