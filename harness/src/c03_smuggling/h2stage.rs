//! C03 second stage: HTTP/2 front (TLS, ALPN h2) towards the same recording HTTP/1.1 backend.
//! A case = one H2 connection with 1..3 streams (clean, mutated, clean), header lists built field
//! by field (so the client's "request" is an exact list, not bytes), then the H1 victim probe.
//! Oracles: the H1 stage's reading of the backend bytes (strict reader, strict == tolerant,
//! every request carries sozu's own headers), plus an exact per-field accounting of every backend
//! header line against the header list of the stream it answers, and for well-formed streams
//! method/target/host/body equality.

use std::{
    collections::{BTreeMap, BTreeSet},
    time::{Duration, Instant},
};

use serde_json::{Value, json};

use super::{
    Cell, ConnView, Timing,
    generator::{EVIL, HOST},
    reader::{self, Mode, Req, StreamEnd, esc, esc_limited, read_stream},
};
use crate::{
    common::{Ctx, Report, Rng, rng::keystream},
    peers::{
        self, IoProgram,
        h2::{self, Event, H2Conn, HeaderList, HpackMode, Replenish, Role},
        tls,
    },
};

pub const H2_FAMILIES: &[&str] = &["h2_pseudo", "h2_connection_specific", "h2_path", "h2_authority", "h2_bytes", "h2_cl_data", "h2_trailers"];

#[derive(Clone, Debug)]
pub struct StreamSpec {
    pub headers: HeaderList,
    /// DATA frames (payloads); END_STREAM goes on the last one unless trailers follow
    pub data: Vec<Vec<u8>>,
    pub trailers: Option<HeaderList>,
    /// when false the stream is left open after the last frame (END_STREAM never sent)
    pub end_stream: bool,
    /// the generator claims the request is well-formed per RFC 9113 8.1-8.3
    pub valid: bool,
    pub mutated: bool,
    /// Pad Length of every non-empty DATA frame (PADDED flag), None = unpadded
    pub padding: Option<u8>,
    /// pause between the HEADERS frame and what follows, so that sozu has already written the
    /// request head to the backend when DATA / trailers arrive (microseconds, 0 = one burst)
    pub gap_after_headers_us: u32,
}

#[derive(Clone, Debug)]
pub struct H2Case {
    pub case: u64,
    pub family: &'static str,
    pub op: String,
    pub streams: Vec<StreamSpec>,
    pub concurrent: bool,
    pub headers_split: Option<usize>,
}

fn f(n: &str, v: &str) -> (Vec<u8>, Vec<u8>) {
    (n.as_bytes().to_vec(), v.as_bytes().to_vec())
}
fn fb(n: &[u8], v: &[u8]) -> (Vec<u8>, Vec<u8>) {
    (n.to_vec(), v.to_vec())
}

fn clean_stream(rng: &mut Rng, case: u64, i: usize) -> StreamSpec {
    let with_body = rng.chance(1, 3);
    let method = if with_body { *rng.pick(&["POST", "PUT", "PATCH"]) } else { *rng.pick(&["GET", "GET", "DELETE", "OPTIONS", "HEAD"]) };
    let path = format!("/h2c{case}-s{i}{}", if rng.chance(1, 4) { "?a=b&c=%20" } else { "" });
    let mut h: HeaderList = vec![f(":method", method), f(":scheme", "https"), f(":authority", HOST), f(":path", &path)];
    for _ in 0..rng.urange(0, 3) {
        let (k, v) = *rng.pick(&[("accept", "*/*"), ("user-agent", "vh-h2/1"), ("x-pad", "pppppppppppppppppppp"), ("accept-encoding", "gzip, br"), ("cookie", "a=1"), ("cookie", "b=2"), ("x-obs", "caf\u{e9}"), ("te", "trailers")]);
        h.push(f(k, v));
    }
    let mut data = Vec::new();
    let mut trailers = None;
    if with_body {
        let n = rng.boundary_size(&[0, 1, 100, 1000], 3000);
        let body = keystream(case.wrapping_mul(64).wrapping_add(i as u64) ^ 0x4832, 0, n);
        if rng.bool() {
            h.push(f("content-length", &n.to_string()));
        }
        let mut off = 0;
        while off < body.len() {
            let k = rng.urange(1, (body.len() - off).min(1200));
            data.push(body[off..off + k].to_vec());
            off += k;
        }
        if body.is_empty() {
            data.push(vec![]);
        }
        if rng.chance(1, 6) {
            trailers = Some(vec![f("x-trailer", "t1")]);
        }
    }
    let padding = if rng.chance(1, 4) { Some(rng.range(0, 40) as u8) } else { None };
    let gap_after_headers_us = if rng.chance(1, 4) { rng.range(8_000, 25_000) as u32 } else { 0 };
    StreamSpec { headers: h, data, trailers, end_stream: true, valid: true, mutated: false, padding, gap_after_headers_us }
}

fn set(h: &mut HeaderList, name: &str, v: &[u8]) {
    for x in h.iter_mut() {
        if x.0 == name.as_bytes() {
            x.1 = v.to_vec();
            return;
        }
    }
    h.push((name.as_bytes().to_vec(), v.to_vec()));
}
fn del(h: &mut HeaderList, name: &str) {
    h.retain(|x| x.0 != name.as_bytes());
}

/// apply an operator of `family` to a clean stream; returns the operator name
fn mutate(family: &str, rng: &mut Rng, case: u64, s: &mut StreamSpec) -> String {
    s.mutated = true;
    s.valid = false;
    let smug = format!("GET /smuggled-h2c{case} HTTP/1.1\r\nHost: {HOST}\r\nX-Smuggled: 1\r\n\r\n");
    match family {
        "h2_pseudo" => {
            const N: u64 = 14;
            match rng.below(N) {
                0 => {
                    // pseudo-header after a regular field
                    let p = s.headers.remove(3);
                    s.headers.push(f("x-before", "1"));
                    s.headers.push(p);
                    "pseudo_after_regular".into()
                }
                1 => {
                    s.headers.insert(1, f(":method", "POST"));
                    "dup_method".into()
                }
                2 => {
                    s.headers.insert(4, f(":path", "/other"));
                    "dup_path".into()
                }
                3 => {
                    s.headers.insert(3, f(":authority", EVIL));
                    "dup_authority".into()
                }
                4 => {
                    s.headers.insert(2, f(":scheme", "http"));
                    "dup_scheme".into()
                }
                5 => {
                    del(&mut s.headers, ":method");
                    "no_method".into()
                }
                6 => {
                    del(&mut s.headers, ":path");
                    "no_path".into()
                }
                7 => {
                    del(&mut s.headers, ":scheme");
                    "no_scheme".into()
                }
                8 => {
                    del(&mut s.headers, ":authority");
                    "no_authority_no_host".into()
                }
                9 => {
                    s.headers.insert(4, f(":foo", "bar"));
                    "unknown_pseudo".into()
                }
                10 => {
                    s.headers.insert(4, f(":status", "200"));
                    "status_in_request".into()
                }
                11 => {
                    s.headers.push(f("X-Upper", "v"));
                    "uppercase_name".into()
                }
                12 => {
                    set(&mut s.headers, ":method", format!("GET /x HTTP/1.1\r\nHost: {HOST}\r\n\r\nGET").as_bytes());
                    "method_with_request_line".into()
                }
                _ => {
                    set(&mut s.headers, ":scheme", b"https\r\nX-Injected: 1");
                    "scheme_with_crlf".into()
                }
            }
        }
        "h2_connection_specific" => {
            let (n, v, name): (&str, &str, &str) = *rng.pick(&[
                ("connection", "close", "connection_close"),
                ("connection", "keep-alive", "connection_keep_alive"),
                ("connection", "content-length", "connection_names_cl"),
                ("keep-alive", "timeout=5", "keep_alive"),
                ("proxy-connection", "keep-alive", "proxy_connection"),
                ("transfer-encoding", "chunked", "transfer_encoding_chunked"),
                ("transfer-encoding", "identity", "transfer_encoding_identity"),
                ("transfer-encoding", "gzip, chunked", "transfer_encoding_gzip_chunked"),
                ("upgrade", "h2c", "upgrade_h2c"),
                ("upgrade", "websocket", "upgrade_websocket"),
                ("te", "gzip", "te_gzip"),
                ("te", "trailers, deflate", "te_trailers_deflate"),
                ("te", "chunked", "te_chunked"),
            ]);
            s.headers.push(f(n, v));
            if n == "transfer-encoding" && s.data.is_empty() {
                // give it a body that looks chunked and hides a request
                set(&mut s.headers, ":method", b"POST");
                s.data.push(format!("0\r\n\r\n{smug}").into_bytes());
            }
            name.into()
        }
        "h2_path" => {
            let (v, name): (Vec<u8>, &str) = match rng.below(14) {
                0 => (b"".to_vec(), "empty"),
                1 => (b"no-slash".to_vec(), "no_leading_slash"),
                2 => (b"*".to_vec(), "asterisk_with_non_options"),
                3 => (b"/a b".to_vec(), "with_space"),
                4 => (b"/a\r\nX-Injected: 1".to_vec(), "with_crlf_header"),
                5 => (b"/a\nX-Injected: 1".to_vec(), "with_lf_header"),
                6 => (b"/a\rX-Injected: 1".to_vec(), "with_cr_header"),
                7 => (b"/a\x00b".to_vec(), "with_nul"),
                8 => (format!("/ HTTP/1.1\r\nHost: {HOST}\r\n\r\n{smug}").into_bytes(), "with_full_request"),
                9 => (format!("http://{EVIL}/abs").into_bytes(), "absolute_uri_other_host"),
                10 => (b"//double".to_vec(), "double_slash"),
                11 => (b"/a\tb".to_vec(), "with_tab"),
                12 => (b"/a#frag".to_vec(), "with_fragment"),
                _ => (b"/caf\xc3\xa9".to_vec(), "with_high_bytes"),
            };
            if name == "asterisk_with_non_options" {
                set(&mut s.headers, ":method", b"GET");
                s.data.clear();
                s.trailers = None;
                del(&mut s.headers, "content-length");
            }
            set(&mut s.headers, ":path", &v);
            if name == "double_slash" {
                s.valid = true;
            }
            name.into()
        }
        "h2_authority" => {
            match rng.below(12) {
                0 => {
                    s.headers.push(f("host", HOST));
                    s.valid = true;
                    "host_same_as_authority".into()
                }
                1 => {
                    s.headers.push(f("host", EVIL));
                    "host_differs_from_authority".into()
                }
                2 => {
                    set(&mut s.headers, ":authority", EVIL.as_bytes());
                    s.headers.push(f("host", HOST));
                    "authority_evil_host_ours".into()
                }
                3 => {
                    del(&mut s.headers, ":authority");
                    s.headers.push(f("host", HOST));
                    s.valid = true;
                    "host_only".into()
                }
                4 => {
                    set(&mut s.headers, ":authority", format!("{HOST}\r\nX-Injected: 1").as_bytes());
                    "authority_with_crlf".into()
                }
                5 => {
                    set(&mut s.headers, ":authority", format!("{EVIL}@{HOST}").as_bytes());
                    "authority_with_userinfo".into()
                }
                6 => {
                    set(&mut s.headers, ":authority", format!("{HOST} {EVIL}").as_bytes());
                    "authority_with_space".into()
                }
                7 => {
                    set(&mut s.headers, ":authority", format!("{HOST}, {EVIL}").as_bytes());
                    "authority_list".into()
                }
                8 => {
                    set(&mut s.headers, ":authority", b"");
                    "authority_empty".into()
                }
                9 => {
                    s.headers.push(f("host", HOST));
                    s.headers.push(f("host", EVIL));
                    "two_host_fields".into()
                }
                10 => {
                    set(&mut s.headers, ":authority", format!("{HOST}:8443").as_bytes());
                    s.valid = true;
                    "authority_with_port".into()
                }
                _ => {
                    set(&mut s.headers, ":authority", format!("{HOST}/path").as_bytes());
                    "authority_with_slash".into()
                }
            }
        }
        "h2_bytes" => {
            const BAD: &[(u8, &str)] = &[(0x00, "nul"), (b'\r', "cr"), (b'\n', "lf"), (b':', "colon"), (b' ', "sp"), (0x7f, "del"), (0x01, "ctl"), (0xff, "high"), (b'\t', "tab")];
            let (b, tag) = *rng.pick(BAD);
            match rng.below(7) {
                0 => {
                    s.headers.push(fb(&[b"x-na".as_ref(), &[b], b"me"].concat(), b"v"));
                    if b == 0xff {
                        // obs-text is not a token character
                    }
                    format!("in_name/{tag}")
                }
                1 => {
                    s.headers.push(fb(b"x-val", &[b"a".as_ref(), &[b], b"b"].concat()));
                    if matches!(b, b':' | b' ' | 0xff | b'\t') {
                        s.valid = true;
                    }
                    format!("in_value/{tag}")
                }
                2 => {
                    s.headers.push(fb(b"x-val", &[[b].as_ref(), b"b"].concat()));
                    if matches!(b, b':' | 0xff) {
                        s.valid = true;
                    }
                    format!("value_start/{tag}")
                }
                3 => {
                    s.headers.push(fb(b"x-val", &[b"a".as_ref(), &[b]].concat()));
                    if matches!(b, b':' | 0xff) {
                        s.valid = true;
                    }
                    format!("value_end/{tag}")
                }
                4 => {
                    s.headers.push(fb(b"x-val", b"a\r\nX-Injected: 1"));
                    "value_crlf_header".into()
                }
                5 => {
                    s.headers.push(fb(b"x-val", format!("a\r\n\r\n{smug}").as_bytes()));
                    "value_crlf_crlf_request".into()
                }
                _ => {
                    s.headers.push(fb(b"", b"v"));
                    "empty_name".into()
                }
            }
        }
        "h2_cl_data" if rng.chance(3, 5) => {
            // content-length against what the stream really carries: every way a stream can end
            // x {DATA shorter, longer, absent, equal} x every method class
            const METHODS: &[(&str, &str)] = &[("GET", "get"), ("HEAD", "head"), ("POST", "post"), ("OPTIONS", "options"), ("CONNECT", "connect"), ("PURGE", "custom")];
            let (method, mclass) = *rng.pick(METHODS);
            set(&mut s.headers, ":method", method.as_bytes());
            if method == "CONNECT" {
                // RFC 9113 8.5: CONNECT carries :authority only
                del(&mut s.headers, ":scheme");
                del(&mut s.headers, ":path");
                set(&mut s.headers, ":authority", format!("{HOST}:443").as_bytes());
            }
            s.trailers = None;
            del(&mut s.headers, "content-length");
            let end = *rng.pick(&["on_headers", "on_data", "on_empty_data", "on_trailers"]);
            let relation = if end == "on_headers" { *rng.pick(&["zero_data", "zero_data", "equal"]) } else { *rng.pick(&["short", "long", "zero_data", "equal"]) };
            let n = rng.urange(1, 60);
            let body = keystream(case ^ 0x77, 0, n);
            let (declared, sent): (usize, Vec<u8>) = match (relation, end) {
                ("equal", "on_headers") => (0, vec![]),
                ("equal", _) => (n, body.clone()),
                ("short", _) => (n + rng.urange(1, 30), body.clone()),
                ("long", _) => (n - rng.urange(1, n), body.clone()),
                _ => (n, vec![]), // zero_data: a positive content-length and no DATA octet
            };
            s.headers.push(f("content-length", &declared.to_string()));
            s.data = match end {
                "on_headers" => vec![],
                "on_empty_data" => {
                    if sent.is_empty() {
                        vec![vec![]]
                    } else {
                        vec![sent, vec![]]
                    }
                }
                "on_trailers" => {
                    if sent.is_empty() {
                        vec![]
                    } else {
                        vec![sent]
                    }
                }
                _ => vec![sent],
            };
            if end == "on_trailers" {
                s.trailers = Some(vec![f("x-trailer", "t1")]);
            }
            s.valid = relation == "equal" && method != "CONNECT";
            format!("cl_vs_data/{mclass}/{relation}/{end}")
        }
        "h2_cl_data" => {
            set(&mut s.headers, ":method", b"POST");
            s.trailers = None;
            del(&mut s.headers, "content-length");
            let body = keystream(case ^ 0x77, 0, rng.urange(1, 60));
            s.data = vec![body.clone()];
            let n = body.len();
            match rng.below(10) {
                0 => {
                    s.headers.push(f("content-length", &(n + 7).to_string()));
                    "cl_larger_than_data".into()
                }
                1 => {
                    s.headers.push(f("content-length", &(n - 1).to_string()));
                    "cl_smaller_than_data".into()
                }
                2 => {
                    s.headers.push(f("content-length", "0"));
                    "cl_zero_with_data".into()
                }
                3 => {
                    s.headers.push(f("content-length", &format!("+{n}")));
                    "cl_plus".into()
                }
                4 => {
                    s.headers.push(f("content-length", &n.to_string()));
                    s.headers.push(f("content-length", &(n + 1).to_string()));
                    "cl_dup_diff".into()
                }
                5 => {
                    s.headers.push(f("content-length", &n.to_string()));
                    s.headers.push(f("content-length", &n.to_string()));
                    "cl_dup_same".into()
                }
                6 => {
                    s.headers.push(f("content-length", &format!("{n}, {n}")));
                    "cl_list".into()
                }
                7 => {
                    s.headers.push(f("content-length", "abc"));
                    "cl_not_a_number".into()
                }
                8 => {
                    s.headers.push(f("content-length", &n.to_string()));
                    s.data.clear();
                    "cl_positive_end_stream_on_headers".into()
                }
                _ => {
                    // body made of what would be a second request for an H1 reader, CL covers half
                    let b = smug.clone().into_bytes();
                    s.headers.push(f("content-length", "4"));
                    s.data = vec![b"abcd".to_vec(), b];
                    "cl_covers_prefix_rest_is_request".into()
                }
            }
        }
        "h2_trailers" => {
            set(&mut s.headers, ":method", b"POST");
            del(&mut s.headers, "content-length");
            let body = keystream(case ^ 0x99, 0, rng.urange(1, 60));
            s.data = vec![body];
            let (t, name, valid): (HeaderList, &str, bool) = match rng.below(9) {
                0 => (vec![f("content-length", "50")], "content_length", false),
                1 => (vec![f("transfer-encoding", "chunked")], "transfer_encoding", false),
                2 => (vec![f("host", EVIL)], "host", false),
                3 => (vec![f(":path", "/other")], "pseudo_path", false),
                4 => (vec![f("connection", "close")], "connection", false),
                5 => (vec![f("x-trailer", "a\r\nX-Injected: 1")], "value_crlf", false),
                6 => (vec![f("x-trailer", "v")], "plain", true),
                7 => (vec![fb(b"x-tr\nailer", b"v")], "name_lf", false),
                _ => (vec![f("x-a", "1"), f("content-length", "0"), f("x-b", "2")], "mixed", false),
            };
            s.trailers = Some(t);
            s.valid = valid;
            name.into()
        }
        _ => "none".into(),
    }
}

pub fn build(seed: u64, case: u64) -> H2Case {
    let mut rng = Rng::for_case(seed, 33, case);
    let mutate_it = !rng.chance(1, 8);
    let family = if mutate_it { H2_FAMILIES[(case % H2_FAMILIES.len() as u64) as usize] } else { "h2_valid" };
    let n = rng.urange(1, 3);
    let pos = rng.usize_below(n);
    let mut streams = Vec::new();
    let mut op = "valid".to_string();
    for i in 0..n {
        let mut s = clean_stream(&mut rng, case, i);
        if mutate_it && i == pos {
            op = mutate(family, &mut rng, case, &mut s);
        }
        streams.push(s);
    }
    H2Case { case, family, op, streams, concurrent: rng.chance(1, 5), headers_split: if rng.chance(1, 6) { Some(rng.urange(1, 40)) } else { None } }
}

#[derive(Clone, Debug, Default)]
pub struct StreamResult {
    pub sent: bool,
    pub send_error: Option<String>,
    pub status: Option<u16>,
    pub seq: Option<u64>,
    pub target: Option<Vec<u8>>,
    pub rst: Option<u32>,
    pub ended: bool,
    pub informational: usize,
}

pub struct H2Exchange {
    pub connect_error: Option<String>,
    pub streams: Vec<StreamResult>,
    pub sids: Vec<u32>,
    pub goaway: Option<u32>,
    pub closed: bool,
    pub vic: super::ClientResult,
    pub vic_target: Vec<u8>,
    pub vic_request: Vec<u8>,
    pub client_ip: String,
    pub conns: Vec<ConnView>,
    pub settled: bool,
    pub late_conns: usize,
    pub trace: Vec<String>,
    /// backend connection -> (bytes received, closed by sozu) once every stream had been sent and
    /// had been quiet for the whole quiet period, before the client connection is dropped
    pub mid: BTreeMap<usize, (usize, bool)>,
}

fn hget<'a>(h: &'a HeaderList, name: &str) -> Option<&'a [u8]> {
    h.iter().find(|(n, _)| n.eq_ignore_ascii_case(name.as_bytes())).map(|(_, v)| v.as_slice())
}

fn exec(cell: &Cell, input: &H2Case, t: &Timing, nonce: u64) -> H2Exchange {
    let start = super::begin_case(cell);
    let mut ex = H2Exchange {
        connect_error: None,
        streams: vec![StreamResult::default(); input.streams.len()],
        sids: vec![],
        goaway: None,
        closed: false,
        vic: Default::default(),
        vic_target: vec![],
        vic_request: vec![],
        client_ip: String::new(),
        conns: vec![],
        settled: false,
        late_conns: 0,
        trace: vec![],
        mid: BTreeMap::new(),
    };
    let tcp = match peers::connect(cell.front_tls, None, &IoProgram::fast(), Duration::from_secs(2)) {
        Ok(s) => s,
        Err(e) => {
            ex.connect_error = Some(e.to_string());
            return ex;
        }
    };
    ex.client_ip = tcp.local_addr().map(|a| a.ip().to_string()).unwrap_or_default();
    let tlsc = match tls::TlsClient::handshake(tcp, HOST, tls::client_config(&["h2"]), Duration::from_secs(3)) {
        Ok((t, info)) if info.alpn.as_deref() == Some(b"h2") => t,
        Ok(_) => {
            ex.connect_error = Some("ALPN h2 not selected".into());
            return ex;
        }
        Err(e) => {
            ex.connect_error = Some(format!("tls: {e}"));
            return ex;
        }
    };
    let mut c = H2Conn::new(tlsc, Role::Client);
    c.auto_ack = true;
    c.auto_pong = true;
    c.obey_windows = true;
    c.replenish = Replenish::Immediately;
    c.enc.mode = HpackMode::LiteralOnly;
    c.headers_split = input.headers_split;
    if let Err(e) = c.handshake_client(&[(h2::SET_ENABLE_PUSH, 0)]) {
        ex.connect_error = Some(format!("h2 handshake: {e}"));
        return ex;
    }
    let mut by_sid: BTreeMap<u32, usize> = BTreeMap::new();
    let mut dead = false;

    let pump = |c: &mut H2Conn<tls::TlsClient>, ex: &mut H2Exchange, by_sid: &BTreeMap<u32, usize>, wait_for: &BTreeSet<u32>, quiet: Duration, hard: Duration, dead: &mut bool| {
        let begin = Instant::now();
        loop {
            let open = wait_for.iter().any(|sid| by_sid.get(sid).is_some_and(|i| !ex.streams[*i].ended && ex.streams[*i].rst.is_none()));
            if !open || *dead || begin.elapsed() > hard {
                return;
            }
            match c.poll(quiet) {
                Ok(Some(Event::Headers { stream, headers, end_stream })) => {
                    if let Some(i) = by_sid.get(&stream) {
                        let r = &mut ex.streams[*i];
                        let st: Option<u16> = hget(&headers, ":status").and_then(|v| std::str::from_utf8(v).ok()).and_then(|s| s.parse().ok());
                        if st.is_some_and(|s| (100..200).contains(&s)) {
                            r.informational += 1;
                        } else if r.status.is_none() && st.is_some() {
                            r.status = st;
                            r.seq = hget(&headers, "x-seq").and_then(|v| std::str::from_utf8(v).ok()).and_then(|s| s.trim().parse().ok());
                            r.target = hget(&headers, "x-target").and_then(|v| hex::decode(v).ok());
                        }
                        if end_stream {
                            r.ended = true;
                        }
                    }
                }
                Ok(Some(Event::Data { stream, end_stream, .. })) => {
                    if let Some(i) = by_sid.get(&stream) {
                        if end_stream {
                            ex.streams[*i].ended = true;
                        }
                    }
                }
                Ok(Some(Event::RstStream { stream, code })) => {
                    if let Some(i) = by_sid.get(&stream) {
                        ex.streams[*i].rst = Some(code);
                    }
                }
                Ok(Some(Event::GoAway { code, .. })) => {
                    ex.goaway = Some(code);
                }
                Ok(Some(Event::Closed)) => {
                    ex.closed = true;
                    *dead = true;
                }
                Ok(Some(_)) => {}
                Ok(None) => return, // quiet
                Err(_) => {
                    ex.closed = true;
                    *dead = true;
                }
            }
        }
    };

    let mut all: BTreeSet<u32> = BTreeSet::new();
    for (i, s) in input.streams.iter().enumerate() {
        if dead || ex.goaway.is_some() {
            break;
        }
        let sid = c.next_stream_id();
        ex.sids.push(sid);
        by_sid.insert(sid, i);
        all.insert(sid);
        let headers_end = s.end_stream && s.data.is_empty() && s.trailers.is_none();
        let mut r = c.send_headers(sid, &s.headers, headers_end);
        if r.is_ok() && s.gap_after_headers_us > 0 && !headers_end {
            // let sozu connect to the backend and flush the head first
            let until = Instant::now() + Duration::from_micros((s.gap_after_headers_us * t.pause_scale) as u64);
            while Instant::now() < until && c.process_incoming(until.saturating_duration_since(Instant::now())).is_ok() && !c.is_closed() {}
        }
        if r.is_ok() {
            for (k, d) in s.data.iter().enumerate() {
                let last = k + 1 == s.data.len();
                let pad = if d.is_empty() { None } else { s.padding };
                r = c.send_data(sid, d, last && s.trailers.is_none() && s.end_stream, pad);
                if r.is_err() {
                    break;
                }
            }
        }
        if r.is_ok() {
            if let Some(tr) = &s.trailers {
                r = c.send_headers(sid, tr, true);
            }
        }
        ex.streams[i].sent = r.is_ok();
        if let Err(e) = r {
            ex.streams[i].send_error = Some(e.to_string());
            if matches!(e, h2::H2Error::Closed | h2::H2Error::Io(_)) {
                dead = true;
            }
        }
        if !input.concurrent {
            let one: BTreeSet<u32> = [sid].into();
            pump(&mut c, &mut ex, &by_sid, &one, t.quiet, t.hard, &mut dead);
        }
    }
    if input.concurrent {
        pump(&mut c, &mut ex, &by_sid, &all, t.quiet, t.hard, &mut dead);
    }
    ex.trace = c.trace_tail(24);
    for (idx, rec) in cell.state.snapshot() {
        let r = rec.lock().unwrap_or_else(|e| e.into_inner());
        ex.mid.insert(idx, (r.bytes.len(), r.eof));
    }

    let (vic, vt, vr) = super::run_victim(cell, input.case, nonce, t);
    ex.vic = vic;
    ex.vic_target = vt;
    ex.vic_request = vr;
    drop(c);
    let (conns, settled, late) = super::end_case(cell, &start, t);
    ex.conns = conns;
    ex.settled = settled;
    ex.late_conns = late;
    ex
}

/// is this backend header line explained by the header list of stream `s` or a documented addition?
fn accounted(name: &[u8], value: &[u8], s: &StreamSpec, client_ip: &str, total_data: usize) -> Result<&'static str, String> {
    let fields = s.headers.iter().chain(s.trailers.iter().flatten());
    for (n, v) in fields.clone() {
        if n.eq_ignore_ascii_case(name) && (v == value || super::trim_ows(v) == value) {
            return Ok("client_field");
        }
    }
    let lname = name.to_ascii_lowercase();
    let vs = String::from_utf8_lossy(value).into_owned();
    let client_val = |k: &str| s.headers.iter().find(|(n, _)| n.eq_ignore_ascii_case(k.as_bytes())).map(|(_, v)| String::from_utf8_lossy(v).into_owned());
    match lname.as_slice() {
        b"host" => {
            if hget(&s.headers, ":authority").is_some_and(|a| a == value) || hget(&s.headers, "host").is_some_and(|a| a == value) {
                Ok("authority")
            } else {
                Err("Host is neither the stream's :authority nor its host field".into())
            }
        }
        b"cookie" => {
            let crumbs: Vec<Vec<u8>> = s.headers.iter().filter(|(n, _)| n.eq_ignore_ascii_case(b"cookie")).flat_map(|(_, v)| v.split(|b| *b == b';').map(|c| super::trim_ows(c).to_vec()).collect::<Vec<_>>()).collect();
            for c in vs.split(';') {
                let c = c.trim();
                if !c.is_empty() && !crumbs.iter().any(|k| k == c.as_bytes()) {
                    return Err(format!("cookie crumb {c:?} not among the stream's cookie fields"));
                }
            }
            Ok("cookie_joined")
        }
        b"x-forwarded-for" => {
            if vs == client_ip || client_val("x-forwarded-for").is_some_and(|p| vs == format!("{p}, {client_ip}")) {
                Ok("addition")
            } else {
                Err(format!("X-Forwarded-For {vs:?}"))
            }
        }
        b"forwarded" => {
            let own = |x: &str| x.starts_with("proto=https;for=") && x.contains(";by=") && !x.contains(',');
            if own(&vs) || vs.rfind(", ").is_some_and(|p| own(&vs[p + 2..]) && client_val("forwarded").is_some_and(|c| c == vs[..p])) {
                Ok("addition")
            } else {
                Err(format!("Forwarded {vs:?}"))
            }
        }
        b"x-forwarded-port" => (vs == "8443").then_some("addition").ok_or(format!("X-Forwarded-Port {vs:?}")),
        b"x-forwarded-proto" => (vs == "https").then_some("addition").ok_or(format!("X-Forwarded-Proto {vs:?}")),
        b"x-request-id" | b"sozu-id" => super::is_ulid(value).then_some("addition").ok_or(format!("{} {vs:?} is not a ULID", String::from_utf8_lossy(name))),
        b"connection" => (vs == "close").then_some("addition").ok_or(format!("Connection {vs:?}")),
        // framing chosen by sozu for the HTTP/1.1 side
        b"transfer-encoding" => (vs == "chunked").then_some("framing_added").ok_or(format!("Transfer-Encoding {vs:?}")),
        b"content-length" => (vs == total_data.to_string()).then_some("framing_added").ok_or(format!("Content-Length {vs:?} is neither the stream's field nor the DATA total {total_data}")),
        _ => Err("not a field of the stream and not a documented proxy addition".into()),
    }
}

fn spec_json(s: &StreamSpec) -> Value {
    json!({"headers": s.headers.iter().map(|(n, v)| json!([esc_limited(n, 120), esc_limited(v, 300)])).collect::<Vec<_>>(),
        "data_frames": s.data.iter().map(|d| esc_limited(d, 200)).collect::<Vec<_>>(),
        "trailers": s.trailers.as_ref().map(|t| t.iter().map(|(n, v)| json!([esc_limited(n, 120), esc_limited(v, 300)])).collect::<Vec<_>>()),
        "end_stream": s.end_stream, "well_formed_by_construction": s.valid, "mutated": s.mutated,
        "data_pad_length": s.padding, "gap_after_headers_us": s.gap_after_headers_us})
}

fn witness(ctx: &Ctx, input: &H2Case, ex: &H2Exchange, extra: Value, mode: &str) -> Value {
    json!({"case": input.case, "seed": ctx.seed, "stage": "h2", "mode": mode, "operator": format!("{}/{}", input.family, input.op),
        "streams": input.streams.iter().map(spec_json).collect::<Vec<_>>(), "stream_ids": ex.sids, "concurrent": input.concurrent, "headers_split": input.headers_split,
        "results": ex.streams.iter().map(|r| json!({"sent": r.sent, "send_error": r.send_error, "status": r.status, "seq": r.seq, "rst_stream": r.rst, "ended": r.ended,
            "target": r.target.as_ref().map(|t| esc_limited(t, 120))})).collect::<Vec<_>>(),
        "goaway": ex.goaway, "connection_closed": ex.closed, "frame_trace_tail": ex.trace,
        "victim_responses": ex.vic.responses.iter().map(|r| json!({"status": r.status, "seq": r.seq})).collect::<Vec<_>>(),
        "backend_connections": ex.conns.iter().map(|c| json!({"conn": c.idx, "bytes": esc_limited(&c.bytes, 5000), "answered": c.answered.iter().map(|a| a.seq).collect::<Vec<_>>(), "closed_by_sozu": c.eof})).collect::<Vec<_>>(),
        "detail": extra})
}

struct Found {
    sig: String,
    what: String,
    deterministic: bool,
    extra: Value,
}

fn judge(input: &H2Case, ex: &H2Exchange, rep: &mut Report, count: bool) -> (Vec<Found>, &'static str) {
    let mut found: Vec<Found> = Vec::new();
    let mut add = |sig: String, what: String, deterministic: bool, extra: Value| {
        if !found.iter().any(|f| f.sig == sig) {
            found.push(Found { sig, what, deterministic, extra });
        }
    };
    let opsig = format!("{}/{}", input.family, input.op);
    // stream index by relayed seq
    let mut stream_of_seq: BTreeMap<u64, usize> = BTreeMap::new();
    for (i, r) in ex.streams.iter().enumerate() {
        if let Some(s) = r.seq {
            stream_of_seq.insert(s, i);
        }
    }
    let vic_seq: BTreeSet<u64> = ex.vic.responses.iter().filter_map(|r| r.seq).collect();
    let mut forwarded_streams: BTreeSet<usize> = BTreeSet::new();
    for c in &ex.conns {
        let strict = read_stream(&c.bytes, Mode::Strict);
        if count {
            rep.obs("h2/backend_connections_read", 1);
            rep.obs("h2/strict_vs_lenient_comparisons", 2);
            rep.obs("h2/backend_requests_parsed_strict", strict.reqs.len() as u64);
        }
        if let StreamEnd::Error { at, class, why } = &strict.end {
            let lte = read_stream(&c.bytes, Mode::LenientTe);
            // the request the reader was in when it stopped: does its stream carry trailers? (a
            // request the strict reader read to its end, trailers included, is not the culprit:
            // the error then belongs to the message that follows it on the connection)
            let upto = &c.bytes[..(*at).min(c.bytes.len())];
            let with_trailers = input.streams.iter().any(|s| {
                s.trailers.is_some()
                    && hget(&s.headers, ":path").is_some_and(|p| {
                        if strict.reqs.iter().any(|q| q.target == p) {
                            return false;
                        }
                        let line = [b" ".as_ref(), p, b" HTTP/1.1\r\n"].concat();
                        // last request line before the error offset
                        let last_any = upto.windows(11).rposition(|w| w == b" HTTP/1.1\r\n");
                        reader::memfind(upto, &line).is_some_and(|pos| last_any.is_some_and(|l| l == pos + line.len() - 11))
                    })
            });
            let sig = if with_trailers { "smuggling/h2/trailers_break_http1_framing".to_string() } else { format!("smuggling/h2/backend_bytes_not_strictly_parseable/{class}") };
            add(
                sig,
                format!("[{opsig}] bytes sozu wrote on backend connection {} for an HTTP/2 stream are refused by a strict RFC 9112 reader at offset {at}: {why} (a tolerant reader sees {} request(s))", c.idx, lte.reqs.len()),
                true,
                json!({"conn": c.idx, "backend_bytes": esc_limited(&c.bytes, 5000)}),
            );
        } else {
            for (mode, name) in [(Mode::LenientTe, "lenient_te"), (Mode::LenientCl, "lenient_cl")] {
                let l = read_stream(&c.bytes, mode);
                let differs = l.reqs.len() != strict.reqs.len()
                    || std::mem::discriminant(&l.end) != std::mem::discriminant(&strict.end)
                    || strict.reqs.iter().zip(l.reqs.iter()).any(|(a, b)| super::same_request(a, b).is_some() || a.end != b.end);
                if differs {
                    add(
                        "smuggling/h2/strict_lenient_disagree".into(),
                        format!("[{opsig}] strict and {name} readers split backend connection {} differently ({} vs {} requests)", c.idx, strict.reqs.len(), l.reqs.len()),
                        true,
                        json!({"conn": c.idx, "backend_bytes": esc_limited(&c.bytes, 5000)}),
                    );
                }
            }
        }
        let reqs: Vec<Req> = if strict.error().is_some() { read_stream(&c.bytes, Mode::LenientTe).reqs } else { strict.reqs.clone() };
        for (k, q) in reqs.iter().enumerate() {
            if q.start < c.preexisting || q.target == ex.vic_target {
                continue;
            }
            if count {
                rep.obs("h2/backend_requests_checked", 1);
            }
            // proxy headers: sozu emits them for every request it understood
            // (towards HTTP/1.1 sozu appends `Transfer-Encoding: chunked` after its own headers when
            // the stream has no content-length)
            let seen = q.headers.iter().rev().take(2).any(|(n, v)| n.eq_ignore_ascii_case(b"sozu-id") && super::is_ulid(v))
                && q.headers.iter().any(|(n, v)| n == b"X-Forwarded-Proto" && v == b"https");
            if !seen {
                add(
                    "smuggling/h2/extra_request/request_not_seen_by_sozu".into(),
                    format!("[{opsig}] backend connection {} carries a request {} {} without sozu's own headers: bytes of an HTTP/2 field or DATA frame are read by the backend as a request of their own", c.idx, esc_limited(&q.method, 30), esc_limited(&q.target, 100)),
                    true,
                    json!({"conn": c.idx, "backend_bytes": esc_limited(&c.bytes, 5000)}),
                );
                continue;
            }
            // which stream does it belong to?
            let seq = c.answered.get(k).map(|a| a.seq);
            let mut idx = seq.and_then(|s| stream_of_seq.get(&s).copied());
            if idx.is_none() {
                // not relayed (reset meanwhile ...): the stream whose list explains the request line
                idx = input.streams.iter().position(|s| hget(&s.headers, ":path").is_some_and(|p| p == q.target.as_slice()));
            }
            let Some(i) = idx else {
                if count {
                    rep.obs("h2/backend_request_not_matched_to_a_stream", 1);
                }
                continue;
            };
            forwarded_streams.insert(i);
            let s = &input.streams[i];
            let total: usize = s.data.iter().map(|d| d.len()).sum();
            for (n, v) in q.headers.iter().chain(q.trailers.iter()) {
                if count {
                    rep.obs("h2/backend_header_lines_accounted", 1);
                }
                match accounted(n, v, s, &ex.client_ip, total) {
                    Ok(kind) => {
                        if count {
                            rep.obs(&format!("h2/header_origin/{kind}"), 1);
                        }
                    }
                    Err(why) => add(
                        format!("smuggling/h2/unaccounted_header_line/{}", super::header_class(n)),
                        format!("[{opsig}] backend header line {:?}: {:?} of the request forwarded for stream {} — {why}", esc_limited(n, 80), esc_limited(v, 160), ex.sids.get(i).copied().unwrap_or(0)),
                        true,
                        json!({"conn": c.idx, "backend_bytes": esc_limited(&c.bytes, 5000)}),
                    ),
                }
            }
            // request line fields must be the pseudo-header values, byte for byte
            let m = hget(&s.headers, ":method").unwrap_or(b"");
            let p = hget(&s.headers, ":path").unwrap_or(b"");
            if strict.error().is_none() && (q.method != m || q.target != p) {
                add(
                    "smuggling/h2/request_line_differs_from_pseudo_headers".into(),
                    format!("[{opsig}] request line at the backend is {:?} {:?}, the stream said :method={:?} :path={:?}", esc_limited(&q.method, 60), esc_limited(&q.target, 120), esc_limited(m, 60), esc_limited(p, 120)),
                    true,
                    json!({"conn": c.idx, "backend_bytes": esc_limited(&c.bytes, 5000)}),
                );
            }
            if s.valid && strict.error().is_none() {
                if count {
                    rep.obs("h2/valid_requests_compared", 1);
                }
                let body: Vec<u8> = s.data.concat();
                let want_host = hget(&s.headers, ":authority").or(hget(&s.headers, "host")).unwrap_or(b"");
                let host_ok = q.host.as_deref().is_some_and(|h| h.eq_ignore_ascii_case(want_host));
                // a complete stream must arrive with its whole body
                if ex.streams[i].seq.is_some() && (q.body != body || !host_ok) {
                    add(
                        format!("smuggling/h2/valid_request_altered/{}", if !host_ok { "host" } else if q.body.len() != body.len() { "body_length" } else { "body_bytes" }),
                        format!("[{opsig}] well-formed stream {} arrived at the backend with a different {}", ex.sids.get(i).copied().unwrap_or(0), if !host_ok { "host" } else { "body" }),
                        true,
                        json!({"conn": c.idx, "backend_bytes": esc_limited(&c.bytes, 5000), "sent_body": esc_limited(&body, 300), "received_body": esc_limited(&q.body, 300)}),
                    );
                }
            }
        }
        // ---- a request of a stream the client has ended (END_STREAM sent) that sozu neither reset
        // nor cut at the backend must be complete there: if sozu keeps the backend connection open
        // on a message shorter than it declares, the backend reads whatever comes next on that
        // connection as the rest of the body (RFC 9112 6.3 - a request's length never depends on
        // the method, so this includes HEAD with a non-zero Content-Length)
        if let Some((len, false)) = ex.mid.get(&c.idx).copied() {
            let seen = &c.bytes[..len.min(c.bytes.len())];
            let st = read_stream(seen, Mode::Strict);
            let head_start = seen.windows(11).rposition(|w| w == b" HTTP/1.1\r\n").map(|p| seen[..p].iter().rposition(|b| *b == b'\n').map(|q| q + 1).unwrap_or(0));
            if let (StreamEnd::Incomplete { what, .. }, Some(hs)) = (&st.end, head_start) {
                let head_complete = reader::memfind(&seen[hs..], b"\r\n\r\n").is_some();
                let line_end = reader::memfind(&seen[hs..], b" HTTP/1.1\r\n").map(|p| hs + p).unwrap_or(hs);
                let target = seen[hs..line_end].splitn(2, |b| *b == b' ').nth(1).unwrap_or(b"");
                let owner = input.streams.iter().position(|s| hget(&s.headers, ":path").or(hget(&s.headers, ":authority")).is_some_and(|p| p == target));
                if let (true, Some(i)) = (head_complete, owner) {
                    let r = &ex.streams[i];
                    let ended_by_client = r.sent && input.streams[i].end_stream;
                    if count {
                        rep.obs("h2/incomplete_backend_messages_examined", 1);
                    }
                    if ended_by_client && r.rst.is_none() && ex.goaway.is_none() && !ex.closed {
                        let framing = if what.starts_with("body") { "content_length" } else { "chunked" };
                        add(
                            format!("smuggling/h2/request_left_incomplete_at_backend/{framing}"),
                            format!("[{opsig}] stream {} was ended by the client and not reset by sozu, yet backend connection {} holds an unfinished message ({what}) and stays open: the backend takes the next bytes on this connection for the rest of this body", ex.sids.get(i).copied().unwrap_or(0), c.idx),
                            false,
                            json!({"conn": c.idx, "backend_bytes_when_streams_were_done": esc_limited(seen, 3000), "strict_end": format!("{:?}", st.end)}),
                        );
                    } else if count {
                        rep.obs("h2/incomplete_backend_message_of_a_reset_stream", 1);
                    }
                }
            }
        }
        // answered but never relayed
        for a in &c.answered {
            if a.end_off > c.preexisting && !stream_of_seq.contains_key(&a.seq) && !vic_seq.contains(&a.seq) {
                // a stream that sozu reset after forwarding has no response: only count when every
                // stream of the case finished with a relayed response
                let all_relayed = ex.streams.iter().all(|r| !r.sent || r.seq.is_some());
                if all_relayed {
                    add(
                        "smuggling/h2/extra_request/response_never_relayed".into(),
                        format!("[{opsig}] the backend answered a request (target {:?}) whose response reached no stream although every stream got its own response", esc_limited(&a.target, 100)),
                        false,
                        json!({"conn": c.idx, "backend_bytes": esc_limited(&c.bytes, 5000)}),
                    );
                } else if count {
                    rep.obs("h2/backend_answer_without_relay_stream_was_reset", 1);
                }
            }
        }
    }
    // victim
    let vic_ok = ex.vic.responses.len() == 1 && ex.vic.responses[0].status == 200 && ex.vic.responses[0].target.as_deref() == Some(&ex.vic_target[..]);
    if count {
        rep.obs("h2/victim_probes", 1);
        if vic_ok {
            rep.obs("h2/victim_probes_answered_with_own_response", 1);
        }
    }
    if !vic_ok {
        if let Some(fr) = ex.vic.responses.iter().find(|r| r.seq.is_some() && r.target.as_deref() != Some(&ex.vic_target[..])) {
            add(
                "smuggling/h2/victim_got_foreign_response".into(),
                format!("[{opsig}] the victim asked for {} and received the response for {:?}", esc(&ex.vic_target), fr.target.as_ref().map(|t| esc_limited(t, 100))),
                false,
                json!({}),
            );
        } else {
            add(format!("TIMING/h2/victim_not_served/{}", input.family), format!("victim got {:?}", ex.vic.responses.iter().map(|r| r.status).collect::<Vec<_>>()), false, json!({}));
        }
    }
    // a response on a stream must be the one of that stream's own request
    for (i, r) in ex.streams.iter().enumerate() {
        if let (Some(t), Some(_)) = (&r.target, r.seq) {
            let p = hget(&input.streams[i].headers, ":path").unwrap_or(b"");
            if &t[..] != &p[..p.len().min(300)] && input.streams[i].valid {
                add(
                    "smuggling/h2/stream_got_foreign_response".into(),
                    format!("[{opsig}] stream {} (path {:?}) received the backend response for {:?}", ex.sids.get(i).copied().unwrap_or(0), esc_limited(p, 100), esc_limited(t, 100)),
                    false,
                    json!({}),
                );
            }
        }
    }
    // outcome of the mutated stream
    let outcome = match input.streams.iter().position(|s| s.mutated) {
        None => {
            if ex.streams.iter().all(|r| r.seq.is_some()) { "valid_all_forwarded" } else { "valid_partly_refused" }
        }
        Some(i) => {
            let r = ex.streams.get(i).cloned().unwrap_or_default();
            if !r.sent && r.send_error.is_none() {
                "not_reached"
            } else if r.seq.is_some() {
                "forwarded"
            } else if forwarded_streams.contains(&i) {
                "forwarded_then_reset_or_unanswered"
            } else if let Some(code) = r.rst {
                match code {
                    1 => "rst_stream_protocol_error",
                    7 => "rst_stream_refused",
                    8 => "rst_stream_cancel",
                    _ => "rst_stream_other",
                }
            } else if let Some(st) = r.status {
                match st {
                    400 => "status_400",
                    404 => "status_404",
                    421 => "status_421",
                    _ => "status_other",
                }
            } else if ex.goaway.is_some() {
                "goaway"
            } else if ex.closed {
                "connection_closed"
            } else {
                "no_reaction_within_quiet_period"
            }
        }
    };
    (found, outcome)
}

fn run_one(ctx: &Ctx, cell: &mut Cell, input: &H2Case, rep: &mut Report, nonce: &mut u64) {
    *nonce += 1;
    let ex = exec(cell, input, &Timing::fast(), *nonce);
    if let Some(e) = &ex.connect_error {
        rep.inconclusive(&format!("h2 client could not set up the connection: {e}"));
        rep.case(input.case ^ 0x4832_0000_0000, false);
        return;
    }
    rep.obs(&format!("cases/{}", input.family), 1);
    if let Some(rest) = input.op.strip_prefix("cl_vs_data/") {
        let mut it = rest.split('/');
        let (m, rel, end) = (it.next().unwrap_or(""), it.next().unwrap_or(""), it.next().unwrap_or(""));
        rep.obs(&format!("h2/cl_vs_data/method/{m}"), 1);
        rep.obs(&format!("h2/cl_vs_data/{rel}/{end}"), 1);
    }
    for s in &input.streams {
        if s.padding.is_some() && s.data.iter().any(|d| !d.is_empty()) {
            rep.obs("h2/streams_with_padded_data", 1);
            if hget(&s.headers, "content-length").is_none() {
                rep.obs("h2/streams_with_padded_data_reframed_as_chunked", 1);
            }
        }
        if s.gap_after_headers_us > 0 && (!s.data.is_empty() || s.trailers.is_some()) {
            rep.obs("h2/streams_with_gap_after_headers", 1);
            if s.trailers.is_some() && hget(&s.headers, "content-length").is_some() {
                rep.obs("h2/length_framed_streams_with_late_trailers", 1);
            }
        }
    }
    rep.obs(if input.concurrent { "h2/streams_sent_concurrently" } else { "h2/streams_sent_one_by_one" }, 1);
    if input.headers_split.is_some() {
        rep.obs("h2/header_block_split_into_continuation_frames", 1);
    }
    if ex.late_conns > 0 {
        rep.obs("late_backend_connections_not_attributed", ex.late_conns as u64);
    }
    let (found, outcome) = judge(input, &ex, rep, true);
    rep.obs(&format!("h2/outcome/{outcome}"), 1);
    rep.obs(&format!("op/{}/{}/{}", input.family, input.op, outcome), 1);
    let class = if outcome.starts_with("rst") || outcome.starts_with("status_4") || outcome == "goaway" || outcome == "connection_closed" {
        "h2/outcome_class/rejected"
    } else if outcome.starts_with("forwarded") {
        "h2/outcome_class/forwarded"
    } else {
        "h2/outcome_class/other"
    };
    rep.obs(class, 1);
    rep.case_bytes(format!("h2/{}/{}/{}/{}", input.family, input.op, outcome, input.concurrent).as_bytes(), true);
    let mut confirm = Vec::new();
    for fd in &found {
        if fd.deterministic {
            rep.obs(&format!("finding_by_family/{}|{}", fd.sig.trim_start_matches("smuggling/"), input.family), 1);
            rep.violation(&fd.sig, &fd.what, witness(ctx, input, &ex, fd.extra.clone(), "fast"));
        } else {
            confirm.push(fd.sig.clone());
        }
    }
    if !confirm.is_empty() {
        if cell.confirmations >= 40 {
            for s in &confirm {
                rep.inconclusive(&format!("unconfirmed candidate (slow re-runs exhausted): {s}"));
            }
            return;
        }
        cell.confirmations += 1;
        rep.obs("slow_confirmation_runs", 1);
        let _ = cell.settle(Duration::from_millis(1500));
        *nonce += 1;
        let ex2 = exec(cell, input, &Timing::slow(), *nonce);
        let (f2, _) = judge(input, &ex2, rep, false);
        for sig in confirm {
            match f2.iter().find(|x| x.sig == sig) {
                Some(x) if !sig.starts_with("TIMING/") => rep.violation(&x.sig, &x.what, witness(ctx, input, &ex2, x.extra.clone(), "slow_confirmation")),
                Some(x) => rep.inconclusive(&format!("{}: {}", x.sig, x.what)),
                None => rep.obs("h2/candidate_not_confirmed", 1),
            }
        }
    }
    if let Some(want) = ctx.opt("dump_h2") {
        if want == "all" || want == outcome || want == input.op {
            eprintln!("--- h2 case {} {}/{} outcome {outcome} results {:?} goaway {:?} closed {}\n streams {}\n backend {:?}\n trace {:?}", input.case, input.family, input.op,
                ex.streams.iter().map(|r| (r.status, r.seq, r.rst, r.ended)).collect::<Vec<_>>(), ex.goaway, ex.closed,
                serde_json::to_string(&input.streams.iter().map(spec_json).collect::<Vec<_>>()).unwrap_or_default().chars().take(1500).collect::<String>(),
                ex.conns.iter().map(|c| esc_limited(&c.bytes, 900)).collect::<Vec<_>>(), ex.trace.iter().rev().take(8).collect::<Vec<_>>());
        }
    }
}

/// run H2 cases `cell_no, cell_no + n_cells, ...` below `total` in an existing cell
pub fn cell_loop(ctx: &Ctx, cell: &mut Cell, cell_no: u64, n_cells: u64, total: u64, rep: &mut Report, nonce: &mut u64, only: Option<&[u64]>) {
    if let Some(list) = only {
        for c in list {
            run_one(ctx, cell, &build(ctx.seed, *c), rep, nonce);
        }
        return;
    }
    let mut case = cell_no;
    while case < total && !ctx.out_of_time() {
        run_one(ctx, cell, &build(ctx.seed, case), rep, nonce);
        case += n_cells;
        if !cell.worker.as_ref().is_some_and(|w| w.is_running()) {
            break;
        }
    }
    if case < total {
        rep.obs("h2/cases_not_started_budget_exhausted", (total - case).div_ceil(n_cells));
    }
}
