//! Reference HTTP/1.1 *request stream* readers for C03, written from RFC 9110/9112 (not from
//! sozu or kawa). Whole-buffer (offline) readers: `read_stream(bytes, mode)` splits a byte string
//! into requests and says how the stream ends (clean boundary / inside a message / error).
//!
//! This is a private, stricter copy of the idea in `peers::h1` (see the report for the exact
//! list of weaknesses of `peers::h1::Parser{strict:true}` that motivated it):
//!   * `Strict`   = what RFC 9112 allows a *sender* to emit and nothing else; everything a
//!                  recipient is merely allowed to tolerate is an error here.
//!   * `LenientTe` = a tolerant server that prefers Transfer-Encoding (any coding containing
//!                  "chunked"), accepts bare LF, trims all whitespace, unfolds obs-fold, ...
//!   * `LenientCl` = a tolerant server that only honours an exact `chunked` coding and otherwise
//!                  falls back to the first Content-Length (digits prefix).

#[derive(Clone, Copy, Debug, PartialEq, Eq)]
pub enum Mode {
    Strict,
    LenientTe,
    LenientCl,
}

#[derive(Clone, Debug, PartialEq, Eq)]
pub enum Framing {
    None,
    Length(u64),
    Chunked,
}

#[derive(Clone, Debug)]
pub struct Req {
    pub method: Vec<u8>,
    pub target: Vec<u8>,
    pub version: Vec<u8>,
    /// header fields in order: (name as received, value with surrounding whitespace removed)
    pub headers: Vec<(Vec<u8>, Vec<u8>)>,
    /// the Host this reader would act on (strict: the single Host field; for absolute-form the
    /// authority of the target, which strict requires to agree with Host)
    pub host: Option<Vec<u8>>,
    pub framing: Framing,
    pub body: Vec<u8>,
    pub trailers: Vec<(Vec<u8>, Vec<u8>)>,
    /// byte offsets of the message in the stream: [start, head_end, end)
    pub start: usize,
    pub head_end: usize,
    pub end: usize,
}

impl Req {
    pub fn header(&self, name: &str) -> Option<&[u8]> {
        self.headers
            .iter()
            .find(|(n, _)| n.eq_ignore_ascii_case(name.as_bytes()))
            .map(|(_, v)| v.as_slice())
    }
    pub fn header_all(&self, name: &str) -> Vec<&[u8]> {
        self.headers
            .iter()
            .filter(|(n, _)| n.eq_ignore_ascii_case(name.as_bytes()))
            .map(|(_, v)| v.as_slice())
            .collect()
    }
}

#[derive(Clone, Debug, PartialEq, Eq)]
pub enum StreamEnd {
    /// the bytes end exactly at a message boundary
    Clean,
    /// the bytes end inside a message (head or body) that is well-formed so far
    Incomplete { at: usize, what: String },
    /// the reader refuses the bytes at `at`
    Error { at: usize, class: &'static str, why: String },
}

#[derive(Clone, Debug)]
pub struct Stream {
    pub reqs: Vec<Req>,
    pub end: StreamEnd,
}

impl Stream {
    pub fn is_clean(&self) -> bool {
        self.end == StreamEnd::Clean
    }
    pub fn error(&self) -> Option<&str> {
        match &self.end {
            StreamEnd::Error { why, .. } => Some(why),
            _ => None,
        }
    }
    pub fn error_class(&self) -> Option<&'static str> {
        match &self.end {
            StreamEnd::Error { class, .. } => Some(class),
            _ => None,
        }
    }
}

pub fn is_tchar(b: u8) -> bool {
    matches!(b, b'!' | b'#' | b'$' | b'%' | b'&' | b'\'' | b'*' | b'+' | b'-' | b'.' | b'^' | b'_' | b'`' | b'|' | b'~')
        || b.is_ascii_alphanumeric()
}

fn is_ws_any(b: u8) -> bool {
    matches!(b, b' ' | b'\t' | 0x0b | 0x0c | b'\r' | b'\n')
}

fn trim_by(v: &[u8], f: impl Fn(u8) -> bool) -> &[u8] {
    let mut s = 0;
    let mut e = v.len();
    while s < e && f(v[s]) {
        s += 1;
    }
    while e > s && f(v[e - 1]) {
        e -= 1;
    }
    &v[s..e]
}

fn lower(v: &[u8]) -> Vec<u8> {
    v.to_ascii_lowercase()
}

fn contains_ci(hay: &[u8], needle: &[u8]) -> bool {
    let h = lower(hay);
    h.windows(needle.len()).any(|w| w == needle)
}

enum Step<T> {
    Ok(T),
    Incomplete(String),
    Err(usize, &'static str, String),
}

struct Cur<'a> {
    b: &'a [u8],
    pos: usize,
    mode: Mode,
}

impl<'a> Cur<'a> {
    /// next line (without terminator). Strict: CRLF only, no bare CR or LF inside.
    fn line(&mut self) -> Step<&'a [u8]> {
        let rest = &self.b[self.pos..];
        let Some(nl) = rest.iter().position(|b| *b == b'\n') else {
            if self.mode == Mode::Strict {
                // a bare CR that can no longer become CRLF is an error even before the LF shows up
                if let Some(cr) = rest.iter().position(|b| *b == b'\r') {
                    if cr + 1 < rest.len() {
                        return Step::Err(self.pos + cr, "bare_cr", "bare CR inside a line".into());
                    }
                }
            }
            return Step::Incomplete("line".into());
        };
        let mut line = &rest[..nl];
        let start = self.pos;
        if line.last() == Some(&b'\r') {
            line = &line[..line.len() - 1];
        } else if self.mode == Mode::Strict {
            return Step::Err(start + nl, "bare_lf", "bare LF line terminator".into());
        }
        if self.mode == Mode::Strict {
            if let Some(cr) = line.iter().position(|b| *b == b'\r') {
                return Step::Err(start + cr, "bare_cr", "bare CR inside a line".into());
            }
        }
        self.pos += nl + 1;
        Step::Ok(line)
    }
}

fn parse_field(line: &[u8], at: usize, mode: Mode) -> Result<Option<(Vec<u8>, Vec<u8>)>, (usize, &'static str, String)> {
    let Some(colon) = line.iter().position(|b| *b == b':') else {
        if mode == Mode::Strict {
            return Err((at, "field_line_without_colon", "field line without colon".into()));
        }
        return Ok(None); // tolerant readers skip junk lines
    };
    let (name, value) = (&line[..colon], &line[colon + 1..]);
    if mode == Mode::Strict {
        if name.is_empty() || !name.iter().all(|b| is_tchar(*b)) {
            return Err((at, "invalid_field_name", format!("invalid field name {:?}", String::from_utf8_lossy(name))));
        }
        let v = trim_by(value, |b| b == b' ' || b == b'\t');
        if let Some(p) = v.iter().position(|b| (*b < 0x20 && *b != b'\t') || *b == 0x7f) {
            return Err((at + colon + 1 + p, "control_byte_in_field_value", format!("control byte 0x{:02x} in value of {}", v[p], String::from_utf8_lossy(name))));
        }
        return Ok(Some((name.to_vec(), v.to_vec())));
    }
    let n = trim_by(name, is_ws_any);
    if n.is_empty() {
        return Ok(None);
    }
    Ok(Some((n.to_vec(), trim_by(value, is_ws_any).to_vec())))
}

/// authority of an absolute-form target (userinfo removed), None when not absolute-form
pub fn absolute_authority(target: &[u8]) -> Option<&[u8]> {
    let p = target.windows(3).position(|w| w == b"://")?;
    if p == 0 || !target[0].is_ascii_alphabetic() || !target[..p].iter().all(|b| b.is_ascii_alphanumeric() || matches!(b, b'+' | b'-' | b'.')) {
        return None;
    }
    let rest = &target[p + 3..];
    let end = rest.iter().position(|b| matches!(b, b'/' | b'?' | b'#')).unwrap_or(rest.len());
    let auth = &rest[..end];
    Some(match auth.iter().rposition(|b| *b == b'@') {
        Some(a) => &auth[a + 1..],
        None => auth,
    })
}

fn host_value_ok(v: &[u8]) -> bool {
    // uri-host [ ":" port ] — reg-name / IPv4 / IP-literal characters only
    !v.is_empty()
        && v.iter().all(|b| {
            b.is_ascii_alphanumeric() || matches!(b, b'-' | b'.' | b'_' | b'~' | b'%' | b'!' | b'$' | b'&' | b'\'' | b'(' | b')' | b'*' | b'+' | b';' | b'=' | b':' | b'[' | b']')
        })
}

fn decide_framing(req: &Req, at: usize, mode: Mode) -> Result<Framing, (usize, &'static str, String)> {
    let te = req.header_all("transfer-encoding");
    let cl = req.header_all("content-length");
    match mode {
        Mode::Strict => {
            if !te.is_empty() && !cl.is_empty() {
                return Err((at, "content_length_and_transfer_encoding", "both Transfer-Encoding and Content-Length".into()));
            }
            if !te.is_empty() {
                if req.version != b"HTTP/1.1" {
                    return Err((at, "transfer_encoding_in_http10", "Transfer-Encoding in an HTTP/1.0 message".into()));
                }
                if te.len() != 1 || !te[0].eq_ignore_ascii_case(b"chunked") {
                    return Err((at, "transfer_encoding_not_exactly_chunked", format!("Transfer-Encoding is not exactly one `chunked`: {:?}", te.iter().map(|v| String::from_utf8_lossy(v).into_owned()).collect::<Vec<_>>())));
                }
                return Ok(Framing::Chunked);
            }
            if !cl.is_empty() {
                if cl.len() != 1 {
                    return Err((at, "several_content_length_fields", "several Content-Length fields".into()));
                }
                let v = cl[0];
                if v.is_empty() || !v.iter().all(|b| b.is_ascii_digit()) {
                    return Err((at, "content_length_not_digits", format!("Content-Length is not 1*DIGIT: {:?}", String::from_utf8_lossy(v))));
                }
                return match std::str::from_utf8(v).ok().and_then(|s| s.parse::<u64>().ok()) {
                    Some(n) => Ok(Framing::Length(n)),
                    None => Err((at, "content_length_overflow", "Content-Length overflows".into())),
                };
            }
            Ok(Framing::None)
        }
        Mode::LenientTe | Mode::LenientCl => {
            let te_chunked = if mode == Mode::LenientTe {
                te.iter().any(|v| contains_ci(v, b"chunked"))
            } else {
                te.iter().any(|v| v.eq_ignore_ascii_case(b"chunked"))
            };
            if te_chunked && (mode == Mode::LenientTe || cl.is_empty()) {
                return Ok(Framing::Chunked);
            }
            if let Some(v) = cl.first() {
                let v = v.strip_prefix(b"+").unwrap_or(v);
                let digits: Vec<u8> = v.iter().copied().take_while(|b| b.is_ascii_digit()).collect();
                let n = std::str::from_utf8(&digits).ok().and_then(|s| s.parse::<u64>().ok()).unwrap_or(0);
                return Ok(if n == 0 { Framing::None } else { Framing::Length(n) });
            }
            if te_chunked {
                return Ok(Framing::Chunked);
            }
            Ok(Framing::None)
        }
    }
}

fn chunk_ext_ok(ext: &[u8]) -> bool {
    // *( ";" token [ "=" ( token / quoted-string ) ] ), no BWS (senders must not emit it)
    let mut i = 0;
    while i < ext.len() {
        if ext[i] != b';' {
            return false;
        }
        i += 1;
        let s = i;
        while i < ext.len() && is_tchar(ext[i]) {
            i += 1;
        }
        if i == s {
            return false;
        }
        if i < ext.len() && ext[i] == b'=' {
            i += 1;
            if i < ext.len() && ext[i] == b'"' {
                i += 1;
                loop {
                    if i >= ext.len() {
                        return false;
                    }
                    match ext[i] {
                        b'"' => {
                            i += 1;
                            break;
                        }
                        b'\\' => {
                            if i + 1 >= ext.len() {
                                return false;
                            }
                            i += 2;
                        }
                        b if b == b'\t' || b == b' ' || (0x21..=0x7e).contains(&b) || b >= 0x80 => i += 1,
                        _ => return false,
                    }
                }
            } else {
                let s = i;
                while i < ext.len() && is_tchar(ext[i]) {
                    i += 1;
                }
                if i == s {
                    return false;
                }
            }
        }
    }
    true
}

/// split `bytes` into requests
pub fn read_stream(bytes: &[u8], mode: Mode) -> Stream {
    let mut c = Cur { b: bytes, pos: 0, mode };
    let mut reqs = Vec::new();
    macro_rules! step {
        ($e:expr) => {
            match $e {
                Step::Ok(v) => v,
                Step::Incomplete(what) => {
                    let at = c.pos;
                    return Stream { reqs, end: StreamEnd::Incomplete { at, what } };
                }
                Step::Err(at, class, why) => return Stream { reqs, end: StreamEnd::Error { at, class, why } },
            }
        };
    }
    macro_rules! bail {
        ($at:expr, $class:expr, $why:expr) => {
            return Stream { reqs, end: StreamEnd::Error { at: $at, class: $class, why: $why } }
        };
    }
    loop {
        if c.pos == bytes.len() {
            return Stream { reqs, end: StreamEnd::Clean };
        }
        let start = c.pos;
        // ---- request line
        let mut line = step!(c.line());
        if mode != Mode::Strict {
            while line.is_empty() {
                if c.pos == bytes.len() {
                    return Stream { reqs, end: StreamEnd::Clean };
                }
                line = step!(c.line());
            }
        }
        let (method, target, version): (&[u8], &[u8], &[u8]) = if mode == Mode::Strict {
            let mut it = line.splitn(3, |b| *b == b' ');
            let m = it.next().unwrap_or(b"");
            let t = it.next().unwrap_or(b"");
            let v = it.next().unwrap_or(b"");
            if m.is_empty() || !m.iter().all(|b| is_tchar(*b)) {
                bail!(start, "invalid_method", format!("invalid method in request line {:?}", String::from_utf8_lossy(line)));
            }
            if !t.is_empty() && t.iter().all(|b| (0x21..=0x7e).contains(b) || *b >= 0x80) && t.iter().any(|b| *b >= 0x80) {
                bail!(start, "request_target_non_ascii", format!("non-ASCII bytes in the request-target of request line {:?}", String::from_utf8_lossy(line)));
            }
            if t.is_empty() || !t.iter().all(|b| (0x21..=0x7e).contains(b)) {
                bail!(start, "invalid_request_target", format!("invalid request-target in request line {:?}", String::from_utf8_lossy(line)));
            }
            if v != b"HTTP/1.1" && v != b"HTTP/1.0" {
                bail!(start, "invalid_http_version", format!("invalid HTTP-version in request line {:?}", String::from_utf8_lossy(line)));
            }
            // target forms
            let form_ok = if t == b"*" {
                m == b"OPTIONS"
            } else if t[0] == b'/' {
                true
            } else if absolute_authority(t).is_some() {
                true
            } else {
                m == b"CONNECT" && host_value_ok(t)
            };
            if !form_ok {
                bail!(start, "request_target_form", format!("request-target form not allowed for the method: {:?}", String::from_utf8_lossy(line)));
            }
            (m, t, v)
        } else {
            let toks: Vec<&[u8]> = line.split(|b| *b == b' ' || *b == b'\t').filter(|t| !t.is_empty()).collect();
            if toks.len() < 3 {
                bail!(start, "request_line_tokens", format!("request line with fewer than 3 tokens {:?}", String::from_utf8_lossy(line)));
            }
            (toks[0], toks[1], toks[toks.len() - 1])
        };
        let mut req = Req {
            method: method.to_vec(),
            target: target.to_vec(),
            version: version.to_vec(),
            headers: Vec::new(),
            host: None,
            framing: Framing::None,
            body: Vec::new(),
            trailers: Vec::new(),
            start,
            head_end: 0,
            end: 0,
        };
        // ---- field lines
        loop {
            let at = c.pos;
            let l = step!(c.line());
            if l.is_empty() {
                break;
            }
            if l[0] == b' ' || l[0] == b'\t' {
                if mode == Mode::Strict {
                    bail!(at, "obs_fold", "obs-fold / field line starting with whitespace".into());
                }
                if let Some((_, v)) = req.headers.last_mut() {
                    v.push(b' ');
                    v.extend_from_slice(trim_by(l, is_ws_any));
                }
                continue;
            }
            match parse_field(l, at, mode) {
                Ok(Some(f)) => req.headers.push(f),
                Ok(None) => {}
                Err((at, class, why)) => bail!(at, class, why),
            }
        }
        req.head_end = c.pos;
        // ---- Host
        let hosts = req.header_all("host");
        if mode == Mode::Strict {
            if hosts.len() > 1 {
                bail!(start, "several_host_fields", "several Host fields".into());
            }
            if hosts.is_empty() && req.version == b"HTTP/1.1" {
                bail!(start, "http11_without_host", "HTTP/1.1 request without Host".into());
            }
            if let Some(h) = hosts.first() {
                if !host_value_ok(h) {
                    bail!(start, "invalid_host_value", format!("invalid Host value {:?}", String::from_utf8_lossy(h)));
                }
                if let Some(a) = absolute_authority(&req.target) {
                    if !a.eq_ignore_ascii_case(h) {
                        bail!(start, "host_disagrees_with_absolute_target", format!("Host {:?} disagrees with the authority of the absolute-form target {:?}", String::from_utf8_lossy(h), String::from_utf8_lossy(a)));
                    }
                }
            }
        }
        req.host = hosts.first().map(|h| h.to_vec());
        // ---- framing
        req.framing = match decide_framing(&req, start, mode) {
            Ok(f) => f,
            Err((at, class, why)) => bail!(at, class, why),
        };
        match req.framing.clone() {
            Framing::None => {}
            Framing::Length(n) => {
                let avail = bytes.len() - c.pos;
                if (avail as u64) < n {
                    return Stream { reqs, end: StreamEnd::Incomplete { at: start, what: format!("body: {avail} of {n} bytes") } };
                }
                req.body = bytes[c.pos..c.pos + n as usize].to_vec();
                c.pos += n as usize;
            }
            Framing::Chunked => {
                loop {
                    let at = c.pos;
                    let l = step!(c.line());
                    let (size_part, ext) = match l.iter().position(|b| *b == b';') {
                        Some(p) => (&l[..p], &l[p..]),
                        None => (l, &l[..0]),
                    };
                    let size: u64 = if mode == Mode::Strict {
                        if size_part.is_empty() || !size_part.iter().all(|b| b.is_ascii_hexdigit()) {
                            bail!(at, "invalid_chunk_size", format!("invalid chunk-size line {:?}", String::from_utf8_lossy(l)));
                        }
                        if !chunk_ext_ok(ext) {
                            bail!(at, "invalid_chunk_extension", format!("invalid chunk extension {:?}", String::from_utf8_lossy(l)));
                        }
                        let sig: Vec<u8> = size_part.iter().copied().skip_while(|b| *b == b'0').collect();
                        if sig.len() > 16 {
                            bail!(at, "chunk_size_overflow", "chunk-size overflows".into());
                        }
                        u64::from_str_radix(std::str::from_utf8(&sig).unwrap_or("0"), 16).unwrap_or(0)
                    } else {
                        let t = trim_by(size_part, is_ws_any);
                        let digits: Vec<u8> = t.iter().copied().take_while(|b| b.is_ascii_hexdigit()).collect();
                        if digits.is_empty() {
                            bail!(at, "invalid_chunk_size", format!("chunk-size line without hex digits {:?}", String::from_utf8_lossy(l)));
                        }
                        let sig: Vec<u8> = digits.iter().copied().skip_while(|b| *b == b'0').collect();
                        if sig.len() > 16 {
                            bail!(at, "chunk_size_overflow", "chunk-size overflows".into());
                        }
                        u64::from_str_radix(std::str::from_utf8(&sig).unwrap_or("0"), 16).unwrap_or(0)
                    };
                    if size == 0 {
                        break;
                    }
                    let avail = (bytes.len() - c.pos) as u64;
                    if avail < size {
                        return Stream { reqs, end: StreamEnd::Incomplete { at: start, what: format!("chunk data: {avail} of {size} bytes") } };
                    }
                    req.body.extend_from_slice(&bytes[c.pos..c.pos + size as usize]);
                    c.pos += size as usize;
                    let at = c.pos;
                    let l = step!(c.line());
                    if !l.is_empty() {
                        bail!(at, "chunk_data_not_followed_by_crlf", "chunk data not followed by CRLF".into());
                    }
                }
                // trailer section
                loop {
                    let at = c.pos;
                    let l = step!(c.line());
                    if l.is_empty() {
                        break;
                    }
                    if (l[0] == b' ' || l[0] == b'\t') && mode == Mode::Strict {
                        bail!(at, "obs_fold", "obs-fold in trailer section".into());
                    }
                    match parse_field(l, at, mode) {
                        Ok(Some(f)) => req.trailers.push(f),
                        Ok(None) => {}
                        Err((at, class, why)) => bail!(at, class, why),
                    }
                }
            }
        }
        req.end = c.pos;
        reqs.push(req);
    }
}

/// printable rendering of bytes for witnesses: ASCII kept, the rest as \xNN, CR/LF as \r \n
pub fn esc(b: &[u8]) -> String {
    let mut s = String::with_capacity(b.len() + 16);
    for &c in b {
        match c {
            b'\r' => s.push_str("\\r"),
            b'\n' => s.push_str("\\n"),
            b'\t' => s.push_str("\\t"),
            b'\\' => s.push_str("\\\\"),
            0x20..=0x7e => s.push(c as char),
            _ => s.push_str(&format!("\\x{c:02x}")),
        }
    }
    s
}

pub fn esc_limited(b: &[u8], max: usize) -> String {
    if b.len() <= max {
        esc(b)
    } else {
        format!("{}...[{} bytes total]", esc(&b[..max]), b.len())
    }
}

pub fn memfind(hay: &[u8], needle: &[u8]) -> Option<usize> {
    if needle.is_empty() || hay.len() < needle.len() {
        return None;
    }
    hay.windows(needle.len()).position(|w| w == needle)
}
