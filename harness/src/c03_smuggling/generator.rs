//! C03 input generator: grammar-derived valid pipelines of HTTP/1.1 requests, mutation operators
//! (each usable in first/middle/last pipelined position) and segmentations.

use crate::common::{Rng, rng::keystream};

pub const HOST: &str = "h.test";
pub const EVIL: &str = "evil.test";

/// what the generator intended one request of the pipeline to be
#[derive(Clone, Debug)]
pub struct Intended {
    pub method: Vec<u8>,
    pub target: Vec<u8>,
    pub host: Vec<u8>,
    pub body: Vec<u8>,
    pub sentinel: bool,
}

#[derive(Clone, Debug)]
pub struct CaseInput {
    pub case: u64,
    pub family: &'static str,
    pub op: String,
    /// 0 first, 1 middle, 2 last, 3 only request / not applicable
    pub pos: u8,
    pub bytes: Vec<u8>,
    /// (end offset of the segment, pause in microseconds after it)
    pub cuts: Vec<(usize, u32)>,
    pub seg_kind: &'static str,
    /// the generator claims that every request of the input is valid per RFC 9112
    pub built_valid: bool,
    pub intended: Vec<Intended>,
    /// index (in `intended`) of the mutated request
    pub mutated_index: Option<usize>,
    /// the mutated fragment as sent (to classify verbatim / normalised forwarding)
    pub marker: Vec<u8>,
    pub sentinel: bool,
    pub keep_open: bool,
    /// two-phase input: write `bytes[..n]`, wait for the response the backend gives before the
    /// request body is complete, then write the rest
    pub wait_response_at: Option<usize>,
    /// number of complete responses to wait for at that point
    pub wait_responses: usize,
}

/// wire form of one request, line-structured so that operators can edit it
#[derive(Clone, Debug)]
pub struct Wire {
    /// request line then header lines, without terminators
    pub lines: Vec<Vec<u8>>,
    /// terminator of each line
    pub eols: Vec<Vec<u8>>,
    /// the empty line ending the head
    pub head_end: Vec<u8>,
    pub body: Vec<u8>,
}

impl Wire {
    pub fn render(&self) -> Vec<u8> {
        let mut out = Vec::new();
        for (l, e) in self.lines.iter().zip(self.eols.iter()) {
            out.extend_from_slice(l);
            out.extend_from_slice(e);
        }
        out.extend_from_slice(&self.head_end);
        out.extend_from_slice(&self.body);
        out
    }
    fn push(&mut self, line: &[u8]) {
        self.lines.push(line.to_vec());
        self.eols.push(b"\r\n".to_vec());
    }
    fn insert(&mut self, at: usize, line: &[u8]) {
        let at = at.clamp(1, self.lines.len());
        self.lines.insert(at, line.to_vec());
        self.eols.insert(at, b"\r\n".to_vec());
    }
    fn find(&self, name: &str) -> Option<usize> {
        self.lines.iter().enumerate().skip(1).find_map(|(i, l)| {
            let c = l.iter().position(|b| *b == b':')?;
            l[..c].eq_ignore_ascii_case(name.as_bytes()).then_some(i)
        })
    }
    fn remove(&mut self, name: &str) {
        while let Some(i) = self.find(name) {
            self.lines.remove(i);
            self.eols.remove(i);
        }
    }
    fn strip_framing(&mut self) {
        self.remove("content-length");
        self.remove("transfer-encoding");
        self.body.clear();
    }
    /// a random position among the header lines (after the request line)
    fn hdr_pos(&self, rng: &mut Rng) -> usize {
        rng.urange(1, self.lines.len())
    }
}

const METHODS: &[&str] = &["GET", "GET", "GET", "POST", "POST", "PUT", "DELETE", "PATCH", "HEAD", "OPTIONS", "PURGE", "M-SEARCH", "get"];
const BENIGN: &[(&str, &str)] = &[
    ("Accept", "*/*"),
    ("User-Agent", "vh/1"),
    ("Accept-Encoding", "gzip, br"),
    ("Accept-Language", "en;q=0.8, fr"),
    ("Content-Type", "application/octet-stream"),
    ("X-Pad", "aaaaaaaaaaaaaaaaaaaaaaaaaaaaaaaaaaaaaaaaaaaaaaaaaaaaaaaaaaaaaaaa"),
    ("Cache-Control", "no-cache"),
    ("If-None-Match", "\"abc\""),
    ("Referer", "http://h.test/a?b=c"),
    ("X-Empty", ""),
    ("Authorization", "Basic dXNlcjpwYXNz"),
];

fn mixed_case(rng: &mut Rng, s: &str) -> Vec<u8> {
    match rng.below(6) {
        0 => s.to_ascii_lowercase().into_bytes(),
        1 => s.to_ascii_uppercase().into_bytes(),
        2 => s
            .bytes()
            .map(|b| if rng.bool() { b.to_ascii_uppercase() } else { b.to_ascii_lowercase() })
            .collect(),
        _ => s.as_bytes().to_vec(),
    }
}

fn ows_line(rng: &mut Rng, name: &[u8], value: &[u8]) -> Vec<u8> {
    let mut l = name.to_vec();
    l.push(b':');
    match rng.below(8) {
        0 => {}
        1 => l.extend_from_slice(b"  "),
        2 => l.push(b'\t'),
        _ => l.push(b' '),
    }
    l.extend_from_slice(value);
    match rng.below(10) {
        0 => l.push(b' '),
        1 => l.push(b'\t'),
        _ => {}
    }
    l
}

pub fn chunked(rng: &mut Rng, data: &[u8], trailers: &[(&str, &str)], plain: bool) -> Vec<u8> {
    let mut out = Vec::new();
    let mut off = 0;
    while off < data.len() {
        let max = (data.len() - off).min(if rng.chance(1, 4) { 4000 } else { 40 });
        let sz = rng.urange(1, max);
        let mut size = if !plain && rng.chance(1, 4) { format!("{sz:X}") } else { format!("{sz:x}") };
        if !plain && rng.chance(1, 8) {
            size = format!("{}{}", "0".repeat(rng.urange(1, 3)), size);
        }
        out.extend_from_slice(size.as_bytes());
        out.extend_from_slice(b"\r\n");
        out.extend_from_slice(&data[off..off + sz]);
        out.extend_from_slice(b"\r\n");
        off += sz;
    }
    out.extend_from_slice(if !plain && rng.chance(1, 10) { b"00\r\n" } else { b"0\r\n" });
    for (k, v) in trailers {
        out.extend_from_slice(format!("{k}: {v}\r\n").as_bytes());
    }
    out.extend_from_slice(b"\r\n");
    out
}

/// a valid request; `id` seeds the body keystream and names the target
pub fn valid_request(rng: &mut Rng, case: u64, i: usize, want_body: Option<bool>) -> (Wire, Intended) {
    let mut method = rng.pick(METHODS).to_string();
    let path = format!("/c{case}-r{i}{}", match rng.below(6) {
        0 => "/a/b/../c".to_string(),
        1 => "?q=1&x=%20y".to_string(),
        2 => "/%41%2f;p=1".to_string(),
        3 => format!("/{}", "p".repeat(rng.urange(1, 300))),
        _ => String::new(),
    });
    let (target, host_hdr): (Vec<u8>, Vec<u8>) = match rng.below(12) {
        0 => (format!("http://{HOST}{path}").into_bytes(), HOST.as_bytes().to_vec()),
        1 if method == "OPTIONS" => (b"*".to_vec(), HOST.as_bytes().to_vec()),
        _ => (path.clone().into_bytes(), HOST.as_bytes().to_vec()),
    };
    let body_kind = match want_body {
        Some(true) => rng.range(1, 2),
        Some(false) => 0,
        None => match method.as_str() {
            "POST" | "PUT" | "PATCH" => rng.range(0, 2),
            _ => {
                if rng.chance(1, 6) {
                    rng.range(1, 2)
                } else {
                    0
                }
            }
        },
    };
    if body_kind != 0 && (method == "HEAD" || method == "get") {
        method = "POST".into();
    }
    let body_len = if body_kind == 0 { 0 } else { rng.boundary_size(&[0, 1, 16, 255, 256, 1024], 3000) };
    let data = keystream(case.wrapping_mul(16).wrapping_add(i as u64), 0, body_len);

    let mut w = Wire { lines: Vec::new(), eols: Vec::new(), head_end: b"\r\n".to_vec(), body: Vec::new() };
    let mut rl = method.clone().into_bytes();
    rl.push(b' ');
    rl.extend_from_slice(&target);
    rl.extend_from_slice(b" HTTP/1.1");
    w.push(&rl);
    let mut hdrs: Vec<Vec<u8>> = Vec::new();
    let host_name = mixed_case(rng, "Host");
    hdrs.push(ows_line(rng, &host_name, &host_hdr));
    for _ in 0..rng.urange(0, 5) {
        let (k, v) = *rng.pick(BENIGN);
        let name = mixed_case(rng, k);
        hdrs.push(ows_line(rng, &name, v.as_bytes()));
    }
    if rng.chance(1, 12) {
        hdrs.push(b"Cookie: a=1; b=2;c=3".to_vec());
    }
    match body_kind {
        1 => {
            let name = mixed_case(rng, "Content-Length");
            let mut v = data.len().to_string();
            if rng.chance(1, 10) {
                v = format!("0{v}");
            }
            hdrs.push(ows_line(rng, &name, v.as_bytes()));
            w.body = data.clone();
        }
        2 => {
            let name = mixed_case(rng, "Transfer-Encoding");
            let v = mixed_case(rng, "chunked");
            hdrs.push(ows_line(rng, &name, &v));
            let trailers: &[(&str, &str)] = if rng.chance(1, 5) { &[("X-Trailer", "t1"), ("X-Checksum", "00ff")] } else { &[] };
            w.body = chunked(rng, &data, trailers, false);
        }
        _ => {
            // no framing header at all (the common bodyless request), sometimes an explicit zero
            if rng.chance(1, 4) {
                hdrs.push(b"Content-Length: 0".to_vec());
            }
        }
    }
    rng.shuffle(&mut hdrs);
    for h in hdrs {
        w.push(&h);
    }
    let intended = Intended { method: method.into_bytes(), target, host: host_hdr, body: data, sentinel: false };
    (w, intended)
}

pub fn sentinel(case: u64) -> (Vec<u8>, Intended) {
    let target = format!("/fin-c{case}");
    let bytes = format!("GET {target} HTTP/1.1\r\nHost: {HOST}\r\nConnection: close\r\n\r\n").into_bytes();
    (bytes, Intended { method: b"GET".to_vec(), target: target.into_bytes(), host: HOST.as_bytes().to_vec(), body: vec![], sentinel: true })
}

pub fn smuggled(case: u64) -> Vec<u8> {
    format!("GET /smuggled-c{case} HTTP/1.1\r\nHost: {HOST}\r\nX-Smuggled: 1\r\n\r\n").into_bytes()
}

pub struct OpResult {
    pub name: String,
    /// the operator keeps the request valid per RFC 9112 (e.g. a case variant)
    pub still_valid: bool,
    pub marker: Vec<u8>,
    /// the operator already replaced the whole wire (start-line garbage ...)
    pub raw: Option<Vec<u8>>,
    /// the intended reading is not meaningful any more (the operator deliberately embeds bytes
    /// whose status depends on the reading)
    pub body_override: Option<Vec<u8>>,
}

pub const FAMILIES: &[&str] = &[
    "cl_te", "te_obf", "cl_value", "chunk", "line_ending", "bytes", "host", "start_line", "oversize", "misc_header", "trailer", "early_response",
];

fn res(name: impl Into<String>, marker: &[u8]) -> OpResult {
    OpResult { name: name.into(), still_valid: false, marker: marker.to_vec(), raw: None, body_override: None }
}

const TE_OBF: &[(&str, &[u8], bool)] = &[
    ("xchunked", b"Transfer-Encoding: xchunked", false),
    ("x-chunked", b"Transfer-Encoding: x-chunked", false),
    ("chunkedx", b"Transfer-Encoding: chunkedx", false),
    ("lead_2sp", b"Transfer-Encoding:  chunked", true),
    ("trail_sp", b"Transfer-Encoding: chunked ", true),
    ("trail_tab", b"Transfer-Encoding: chunked\t", true),
    ("lead_tab", b"Transfer-Encoding:\tchunked", true),
    ("lead_vt", b"Transfer-Encoding: \x0bchunked", false),
    ("trail_vt", b"Transfer-Encoding: chunked\x0b", false),
    ("lead_ff", b"Transfer-Encoding: \x0cchunked", false),
    ("trail_nul", b"Transfer-Encoding: chunked\x00", false),
    ("upper", b"Transfer-Encoding: CHUNKED", true),
    ("mixed", b"tRANSFER-eNCODING: cHuNkEd", true),
    ("nospace", b"Transfer-Encoding:chunked", true),
    ("chunked_identity", b"Transfer-Encoding: chunked, identity", false),
    ("identity_chunked", b"Transfer-Encoding: identity, chunked", false),
    ("identity", b"Transfer-Encoding: identity", false),
    ("gzip_chunked", b"Transfer-Encoding: gzip, chunked", false),
    ("chunked_chunked", b"Transfer-Encoding: chunked, chunked", false),
    ("comma_chunked", b"Transfer-Encoding: , chunked", false),
    ("chunked_comma", b"Transfer-Encoding: chunked,", false),
    ("param", b"Transfer-Encoding: chunked;q=1", false),
    ("quoted", b"Transfer-Encoding: \"chunked\"", false),
    ("name_sp_colon", b"Transfer-Encoding : chunked", false),
    ("name_tab_colon", b"Transfer-Encoding\t: chunked", false),
    ("name_underscore", b"Transfer_Encoding: chunked", false),
    ("name_lead_sp", b" Transfer-Encoding: chunked", false),
    ("name_nul", b"Transfer-Encoding\x00: chunked", false),
    ("name_high", b"Transfer-Encoding\xff: chunked", false),
    ("x_prefix_name", b"X-Transfer-Encoding: chunked", true),
    ("value_cr", b"Transfer-Encoding: chunked\rX: y", false),
    ("value_nl_fold", b"Transfer-Encoding:\r\n chunked", false),
    ("fold_after", b"Transfer-Encoding: chunked\r\n , identity", false),
    ("fold_prev", b"X-Fold: a\r\n Transfer-Encoding: chunked", false),
];

const CL_VALUES: &[(&str, &[u8], bool)] = &[
    ("plus", b"+N", false),
    ("minus", b"-N", false),
    ("lead_zero", b"000N", true),
    ("trail_sp", b"N ", true),
    ("trail_tab", b"N\t", true),
    ("lead_2sp", b"  N", true),
    ("hex", b"0xN", false),
    ("decimal_point", b"N.0", false),
    ("exp", b"Ne0", false),
    ("list_same", b"N, N", false),
    ("list_diff", b"N, M", false),
    ("list_diff_rev", b"M, N", false),
    ("semicolon", b"N;", false),
    ("trail_vt", b"N\x0b", false),
    ("inner_sp", b"1 N", false),
    ("empty", b"", false),
    ("overflow64", b"18446744073709551616", false),
    ("overflow64_plus", b"18446744073709551621", false),
    ("huge", b"99999999999999999999999999999999999999", false),
    ("underscore", b"1_0", false),
    ("unicode_digit", b"\xef\xbc\x95", false),
];

fn subst(t: &[u8], n: usize, m: usize) -> Vec<u8> {
    let mut out = Vec::new();
    for &b in t {
        match b {
            b'N' => out.extend_from_slice(n.to_string().as_bytes()),
            b'M' => out.extend_from_slice(m.to_string().as_bytes()),
            _ => out.push(b),
        }
    }
    out
}

/// apply one operator of `family` to a request. `case` names embedded requests.
pub fn apply(family: &str, rng: &mut Rng, case: u64, i: usize, w: &mut Wire, intended: &mut Intended) -> OpResult {
    let payload_len = rng.urange(1, 40);
    let payload = keystream(case.wrapping_mul(16).wrapping_add(i as u64) ^ 0x5555, 0, payload_len);
    match family {
        "cl_te" => {
            w.strip_framing();
            if intended.method == b"HEAD" || intended.method == b"get" {
                // keep the method, the point is the framing conflict
            }
            let smug = smuggled(case);
            let ch = chunked(rng, &payload, &[], true);
            let variant = rng.below(7);
            let (name, cl, body): (&str, usize, Vec<u8>) = match variant {
                // CL covers chunked body + smuggled request (CL-reader: one request; TE-reader: two)
                0 => ("cl_covers_smuggle", ch.len() + smug.len(), [ch.clone(), smug.clone()].concat()),
                // CL covers exactly the chunked body (both agree on the boundary)
                1 => ("cl_equals_chunked", ch.len(), ch.clone()),
                // CL = 0: CL-reader sees the chunked bytes as the next request
                2 => ("cl_zero", 0, ch.clone()),
                // CL short: cuts inside the chunked body
                3 => ("cl_short", 3.min(ch.len()), ch.clone()),
                // TE.CL: the chunk data holds a request; CL points after the first chunk-size line
                4 => {
                    let inner = smug.clone();
                    let mut b = format!("{:x}\r\n", inner.len()).into_bytes();
                    let cl = b.len();
                    b.extend_from_slice(&inner);
                    b.extend_from_slice(b"\r\n0\r\n\r\n");
                    ("te_cl_chunk_holds_request", cl, b)
                }
                // body is not chunked at all: TE-reader fails, CL-reader fine
                5 => ("cl_plain_body", payload.len(), payload.clone()),
                // "0\r\n\r\n" + smuggled, CL covers all (the classic CL.TE)
                _ => {
                    let b = [b"0\r\n\r\n".to_vec(), smug.clone()].concat();
                    ("classic_cl_te", b.len(), b)
                }
            };
            let te_line: &[u8] = if rng.chance(1, 3) { TE_OBF[rng.usize_below(TE_OBF.len())].1 } else { b"Transfer-Encoding: chunked" };
            let cl_line = format!("Content-Length: {cl}").into_bytes();
            let at = w.hdr_pos(rng);
            let order = rng.bool();
            if order {
                w.insert(at, &cl_line);
                w.insert(at + 1, te_line);
            } else {
                w.insert(at, te_line);
                w.insert(at + 1, &cl_line);
            }
            w.body = body.clone();
            intended.body = body;
            let te_plain = te_line == b"Transfer-Encoding: chunked";
            let mut r = res(format!("{name}/{}{}", if order { "cl_first" } else { "te_first" }, if te_plain { "" } else { "/obf" }), te_line);
            r.body_override = Some(vec![]);
            r
        }
        "te_obf" => {
            w.strip_framing();
            let (name, line, valid) = TE_OBF[rng.usize_below(TE_OBF.len())];
            let at = w.hdr_pos(rng);
            let dup = rng.below(5);
            let ch = chunked(rng, &payload, &[], true);
            let mut name = name.to_string();
            let mut valid = valid;
            match dup {
                0 => {
                    // duplicated TE: a plain chunked next to the obfuscated one
                    w.insert(at, b"Transfer-Encoding: chunked");
                    w.insert(at + rng.urange(0, 1), line);
                    name = format!("dup_with_chunked/{name}");
                    valid = false;
                }
                1 => {
                    // accompanied by a Content-Length covering the chunked bytes
                    w.insert(at, line);
                    let p = w.hdr_pos(rng);
                    w.insert(p, format!("Content-Length: {}", ch.len()).as_bytes());
                    name = format!("with_cl/{name}");
                    valid = name.ends_with("x_prefix_name");
                }
                _ => w.insert(at, line),
            }
            if name == "x_prefix_name" {
                // no framing header at all: the chunked bytes would be a second (garbage) request
                w.body.clear();
                intended.body = vec![];
            } else if name.ends_with("x_prefix_name") {
                w.body = ch.clone();
                intended.body = ch;
            } else {
                w.body = ch;
                intended.body = payload;
            }
            let mut r = res(name, line);
            r.still_valid = valid && dup > 1;
            if valid && dup == 1 && r.name.ends_with("x_prefix_name") {
                r.still_valid = true;
            }
            r
        }
        "cl_value" => {
            w.strip_framing();
            let n = payload.len();
            let m = n + rng.urange(1, 9);
            let at = w.hdr_pos(rng);
            let body_extra = rng.bool();
            match rng.below(5) {
                0 => {
                    // duplicate fields
                    let same = rng.bool();
                    let second = if same { n } else { m };
                    let rev = rng.bool();
                    let (a, b) = if rev { (second, n) } else { (n, second) };
                    w.insert(at, format!("Content-Length: {a}").as_bytes());
                    let p = w.hdr_pos(rng);
                    w.insert(p, format!("Content-Length: {b}").as_bytes());
                    w.body = payload.clone();
                    if body_extra {
                        w.body.extend_from_slice(&smuggled(case)[..m - n]);
                    }
                    intended.body = payload;
                    res(format!("dup_{}", if same { "same" } else if rev { "diff_rev" } else { "diff" }), format!("Content-Length: {b}").as_bytes())
                }
                1 => {
                    // declared length vs actual bytes (valid framing; the pipeline shifts)
                    let short = rng.bool();
                    let decl = if short { n.saturating_sub(rng.urange(1, n)) } else { n };
                    w.insert(at, format!("Content-Length: {decl}").as_bytes());
                    w.body = payload.clone();
                    intended.body = payload[..decl].to_vec();
                    let mut r = res(if short { "declared_shorter_than_sent" } else { "exact" }, b"");
                    r.still_valid = !short;
                    r.body_override = if short { Some(vec![]) } else { None };
                    r
                }
                _ => {
                    let (name, tpl, valid) = CL_VALUES[rng.usize_below(CL_VALUES.len())];
                    let v = subst(tpl, n, m);
                    let mut line = b"Content-Length: ".to_vec();
                    line.extend_from_slice(&v);
                    w.insert(at, &line);
                    w.body = payload.clone();
                    if body_extra && !valid {
                        w.body.extend_from_slice(&smuggled(case));
                    }
                    intended.body = payload;
                    let mut r = res(name, &line);
                    r.still_valid = valid;
                    r
                }
            }
        }
        "chunk" => {
            w.strip_framing();
            let at = w.hdr_pos(rng);
            w.insert(at, b"Transfer-Encoding: chunked");
            let n = payload.len();
            let hx = format!("{n:x}");
            const V: &[(&str, &str, bool)] = &[
                ("plus", "+H", false),
                ("minus", "-H", false),
                ("0x", "0xH", false),
                ("trail_sp", "H ", false),
                ("lead_sp", " H", false),
                ("trail_tab", "H\t", false),
                ("upper", "U", true),
                ("lead_zeros", "0000H", true),
                ("lead_zeros_20", "00000000000000000000H", true),
                ("ext", "H;a=b", true),
                ("ext_noval", "H;a", true),
                ("ext_quoted", "H;a=\"b c\"", true),
                ("ext_quoted_crlf", "H;a=\"b\r\nc\"", false),
                ("ext_bws", "H ; a=b", false),
                ("ext_empty", "H;", false),
                ("ext_lf", "H;a=b\nX", false),
                ("ext_nul", "H;a=\x00", false),
                ("overflow17", "1000000000000000H", false),
                ("usize_max", "ffffffffffffffff", false),
                ("usize_max_minus", "fffffffffffffff0", false),
                ("neg_wrap", "ffffffffffffffffH", false),
                ("underscore", "H_0", false),
                ("nul", "H\x00", false),
                ("empty", "", false),
                ("g", "g", false),
            ];
            let variant = rng.below(10);
            if variant < 6 {
                let (name, tpl, valid) = V[rng.usize_below(V.len())];
                let size_line = tpl.replace('H', &hx).replace('U', &hx.to_ascii_uppercase());
                let mut b = size_line.clone().into_bytes();
                b.extend_from_slice(b"\r\n");
                b.extend_from_slice(&payload);
                b.extend_from_slice(b"\r\n0\r\n\r\n");
                if !valid && rng.bool() {
                    b.extend_from_slice(&smuggled(case));
                }
                w.body = b;
                intended.body = payload;
                let mut r = res(format!("size_{name}"), &[b"\r\n\r\n".as_ref(), size_line.as_bytes(), b"\r\n"].concat());
                r.still_valid = valid;
                r
            } else {
                let (name, b, valid): (&str, Vec<u8>, bool) = match variant {
                    6 => ("size_bare_lf", [hx.as_bytes(), b"\n", &payload, b"\r\n0\r\n\r\n"].concat(), false),
                    7 => ("data_no_crlf", [hx.as_bytes(), b"\r\n", &payload, b"0\r\n\r\n"].concat(), false),
                    8 => ("data_longer_than_size", [hx.as_bytes(), b"\r\n", &payload, b"XX\r\n0\r\n\r\n"].concat(), false),
                    _ => match rng.below(4) {
                        0 => ("last_chunk_ext", [hx.as_bytes(), b"\r\n", &payload, b"\r\n0;x=y\r\n\r\n"].concat(), true),
                        1 => ("last_chunk_bare_lf", [hx.as_bytes(), b"\r\n", &payload, b"\r\n0\n\n"].concat(), false),
                        2 => ("last_chunk_no_final_crlf", [hx.as_bytes(), b"\r\n", &payload, b"\r\n0\r\n"].concat(), false),
                        _ => ("data_lf_only", [hx.as_bytes(), b"\r\n", &payload, b"\n0\r\n\r\n"].concat(), false),
                    },
                };
                w.body = b;
                intended.body = payload;
                let mut r = res(name, b"");
                r.still_valid = valid;
                if name == "last_chunk_no_final_crlf" {
                    r.body_override = Some(vec![]);
                }
                r
            }
        }
        "line_ending" => {
            let k = rng.below(14);
            let hl = w.lines.len();
            let idx = rng.urange(0, hl - 1);
            match k {
                0 => {
                    w.eols[idx] = b"\n".to_vec();
                    res(if idx == 0 { "bare_lf_request_line" } else { "bare_lf_header" }, b"")
                }
                1 => {
                    w.head_end = b"\n".to_vec();
                    res("bare_lf_head_end", b"")
                }
                2 => {
                    for e in w.eols.iter_mut() {
                        *e = b"\n".to_vec();
                    }
                    w.head_end = b"\n".to_vec();
                    res("all_bare_lf", b"")
                }
                3 => {
                    w.eols[idx] = b"\n\r".to_vec();
                    res("lf_cr", b"")
                }
                4 => {
                    w.eols[idx] = b"\r".to_vec();
                    res("bare_cr", b"")
                }
                5 => {
                    w.eols[idx] = b"\r\r\n".to_vec();
                    res("cr_cr_lf", b"")
                }
                6 => {
                    let at = w.hdr_pos(rng);
                    let tab = rng.bool();
                    w.insert(at.max(2), if tab { b"\tfolded: x" } else { b" folded: x" });
                    res(if tab { "obs_fold_tab" } else { "obs_fold_sp" }, b"folded: x")
                }
                7 => {
                    let at = w.hdr_pos(rng);
                    w.insert(at, b"X-Sp : v");
                    res("ws_before_colon", b"X-Sp : v")
                }
                8 => {
                    let at = w.hdr_pos(rng);
                    w.insert(at, b": v");
                    res("empty_name", b": v")
                }
                9 => {
                    let at = w.hdr_pos(rng);
                    w.insert(at, b"NoColonHere");
                    res("no_colon", b"NoColonHere")
                }
                10 => {
                    let n = rng.urange(1, 3);
                    let mut raw = b"\r\n".repeat(n);
                    raw.extend_from_slice(&w.render());
                    let mut r = res("leading_crlf", b"");
                    r.raw = Some(raw);
                    r
                }
                11 => {
                    let mut raw = b"\n".to_vec();
                    raw.extend_from_slice(&w.render());
                    let mut r = res("leading_lf", b"");
                    r.raw = Some(raw);
                    r
                }
                12 => {
                    // first header line starts with whitespace (fold of the request line)
                    w.insert(1, b" X-First-Fold: v");
                    res("fold_after_request_line", b" X-First-Fold: v")
                }
                _ => {
                    w.head_end = b"\r\r\n".to_vec();
                    res("head_end_cr_cr_lf", b"")
                }
            }
        }
        "bytes" => {
            const BAD: &[u8] = &[0x00, 0x01, 0x07, 0x08, 0x0b, 0x0c, 0x1b, 0x1f, 0x7f, 0x80, 0xa0, 0xc3, 0xff, b'\r', b'\n'];
            let b = *rng.pick(BAD);
            let at = w.hdr_pos(rng);
            let place = rng.below(6);
            let (name, line): (&str, Vec<u8>) = match place {
                0 => ("in_name", [b"X-Na".as_ref(), &[b], b"me: v"].concat()),
                1 => ("in_value", [b"X-Val: a".as_ref(), &[b], b"b"].concat()),
                2 => ("value_start", [b"X-Val: ".as_ref(), &[b], b"b"].concat()),
                3 => ("value_end", [b"X-Val: a".as_ref(), &[b]].concat()),
                4 => ("in_target", vec![]),
                _ => ("in_method", vec![]),
            };
            let tag = match b {
                0 => "nul".to_string(),
                b'\r' => "cr".to_string(),
                b'\n' => "lf".to_string(),
                0x7f => "del".to_string(),
                x if x >= 0x80 => "high".to_string(),
                _ => "ctl".to_string(),
            };
            if place == 4 {
                let rl = w.lines[0].clone();
                let sp = rl.iter().position(|c| *c == b' ').unwrap_or(0);
                let mut n = rl[..sp + 2.min(rl.len() - sp)].to_vec();
                n.push(b);
                n.extend_from_slice(&rl[sp + 2.min(rl.len() - sp)..]);
                w.lines[0] = n.clone();
                res(format!("{name}/{tag}"), &n)
            } else if place == 5 {
                let mut n = vec![w.lines[0][0], b];
                n.extend_from_slice(&w.lines[0][1..]);
                w.lines[0] = n.clone();
                res(format!("{name}/{tag}"), &n)
            } else {
                // CR / LF inside a value followed by something that looks like a header
                let line = if (b == b'\r' || b == b'\n') && place == 1 { [b"X-Val: a".as_ref(), &[b], b"X-Injected: 1"].concat() } else { line };
                w.insert(at, &line);
                let mut r = res(format!("{name}/{tag}"), &line);
                // obs-text in a field value is allowed by the grammar
                r.still_valid = b >= 0x80 && place != 0;
                r
            }
        }
        "host" => {
            let k = rng.below(16);
            let at = w.hdr_pos(rng);
            match k {
                0 => {
                    w.insert(at, format!("Host: {HOST}").as_bytes());
                    res("dup_same", b"")
                }
                1 => {
                    w.insert(at, format!("Host: {EVIL}").as_bytes());
                    res("dup_conflict", format!("Host: {EVIL}").as_bytes())
                }
                2 => {
                    w.remove("host");
                    w.insert(1, format!("Host: {EVIL}").as_bytes());
                    w.insert(2, format!("Host: {HOST}").as_bytes());
                    res("dup_conflict_evil_first", format!("Host: {EVIL}").as_bytes())
                }
                3 => {
                    w.remove("host");
                    res("absent_11", b"")
                }
                4 => {
                    w.remove("host");
                    let rl = String::from_utf8_lossy(&w.lines[0]).replace("HTTP/1.1", "HTTP/1.0");
                    w.lines[0] = rl.into_bytes();
                    res("absent_10", b"")
                }
                5 => {
                    w.remove("host");
                    w.insert(1, b"Host:");
                    res("empty", b"Host:")
                }
                6 => {
                    w.remove("host");
                    w.insert(1, format!("Host: {HOST}:8080").as_bytes());
                    intended.host = format!("{HOST}:8080").into_bytes();
                    let mut r = res("with_port", b"");
                    r.still_valid = true;
                    r
                }
                7 => {
                    w.remove("host");
                    w.insert(1, format!("Host: {HOST}, {EVIL}").as_bytes());
                    res("list", b"")
                }
                8 => {
                    w.remove("host");
                    w.insert(1, format!("Host: {HOST} {EVIL}").as_bytes());
                    res("two_tokens", b"")
                }
                9 | 10 => {
                    // absolute-form vs Host disagreement
                    let path = String::from_utf8_lossy(&intended.target).into_owned();
                    let path = if path.starts_with('/') { path } else { format!("/c{case}-r{i}") };
                    let (uri_host, hdr_host, name) = if k == 9 { (HOST, EVIL, "absolute_vs_host/uri_ours") } else { (EVIL, HOST, "absolute_vs_host/uri_evil") };
                    let m = String::from_utf8_lossy(&intended.method).into_owned();
                    w.lines[0] = format!("{m} http://{uri_host}{path} HTTP/1.1").into_bytes();
                    w.remove("host");
                    w.insert(1, format!("Host: {hdr_host}").as_bytes());
                    intended.target = format!("http://{uri_host}{path}").into_bytes();
                    intended.host = uri_host.as_bytes().to_vec();
                    res(name, format!("Host: {hdr_host}").as_bytes())
                }
                11 => {
                    let path = format!("/c{case}-r{i}");
                    let m = String::from_utf8_lossy(&intended.method).into_owned();
                    w.lines[0] = format!("{m} http://{HOST}{path} HTTP/1.1").into_bytes();
                    w.remove("host");
                    intended.target = format!("http://{HOST}{path}").into_bytes();
                    res("absolute_without_host", b"")
                }
                12 => {
                    let path = format!("/c{case}-r{i}");
                    let m = String::from_utf8_lossy(&intended.method).into_owned();
                    w.lines[0] = format!("{m} http://{EVIL}@{HOST}{path} HTTP/1.1").into_bytes();
                    intended.target = format!("http://{EVIL}@{HOST}{path}").into_bytes();
                    let mut r = res("absolute_userinfo", b"");
                    r.still_valid = false;
                    r
                }
                13 => {
                    w.remove("host");
                    w.insert(1, b"Host: H.TEST");
                    intended.host = b"H.TEST".to_vec();
                    let mut r = res("uppercase", b"");
                    r.still_valid = true;
                    r
                }
                14 => {
                    w.remove("host");
                    w.insert(1, format!("Host: {HOST}\t").as_bytes());
                    let mut r = res("trailing_tab", b"");
                    r.still_valid = true;
                    r
                }
                _ => {
                    w.remove("host");
                    w.insert(1, format!("Host : {HOST}").as_bytes());
                    res("name_sp_colon", b"")
                }
            }
        }
        "start_line" => {
            let k = rng.below(20);
            let rl = String::from_utf8_lossy(&w.lines[0]).into_owned();
            let path = format!("/c{case}-r{i}");
            let (name, new, valid): (&str, Vec<u8>, bool) = match k {
                0 => {
                    // HTTP/1.0 + TE
                    w.strip_framing();
                    w.insert(1, b"Transfer-Encoding: chunked");
                    w.body = chunked(rng, &payload, &[], true);
                    intended.body = payload.clone();
                    ("http10_te", rl.replace("HTTP/1.1", "HTTP/1.0").into_bytes(), false)
                }
                1 => {
                    // HTTP/1.0 with Host (valid); sozu closes after the response
                    ("http10_valid", rl.replace("HTTP/1.1", "HTTP/1.0").into_bytes(), true)
                }
                2 => ("http09", format!("GET {path}").into_bytes(), false),
                3 => ("http20", rl.replace("HTTP/1.1", "HTTP/2.0").into_bytes(), false),
                4 => ("http12", rl.replace("HTTP/1.1", "HTTP/1.2").into_bytes(), false),
                5 => ("version_lower", rl.replace("HTTP/1.1", "http/1.1").into_bytes(), false),
                6 => ("version_trailing_sp", format!("{rl} ").into_bytes(), false),
                7 => ("double_space", rl.replacen(' ', "  ", 1).into_bytes(), false),
                8 => ("tab_separators", rl.replace(' ', "\t").into_bytes(), false),
                9 => {
                    let n = rng.urange(1, 40);
                    ("garbage", rng.bytes(n), false)
                }
                10 => ("long_method", format!("{} {path} HTTP/1.1", "M".repeat(rng.urange(200, 3000))).into_bytes(), true),
                11 => ("empty_method", format!(" {path} HTTP/1.1").into_bytes(), false),
                12 => ("get_asterisk", b"GET * HTTP/1.1".to_vec(), false),
                13 => ("get_authority_form", format!("GET {HOST}:80 HTTP/1.1").into_bytes(), false),
                14 => ("connect", format!("CONNECT {HOST}:80 HTTP/1.1").into_bytes(), true),
                15 => ("target_with_space", format!("GET {path} x HTTP/1.1").into_bytes(), false),
                16 => ("target_no_slash", format!("GET c{case}-r{i} HTTP/1.1").into_bytes(), false),
                17 => ("target_empty", b"GET  HTTP/1.1".to_vec(), false),
                18 => ("version_11_extra", rl.replace("HTTP/1.1", "HTTP/1.10").into_bytes(), false),
                _ => ("target_fragment", format!("GET {path}#frag HTTP/1.1").into_bytes(), false),
            };
            if k >= 9 && k != 19 || k == 2 {
                // the request line was replaced wholesale: the intended reading follows it
                if let Ok(s) = std::str::from_utf8(&new) {
                    let mut it = s.split(' ');
                    intended.method = it.next().unwrap_or("").as_bytes().to_vec();
                    intended.target = it.next().unwrap_or("").as_bytes().to_vec();
                }
                if k == 14 || k == 10 {
                    w.strip_framing();
                    intended.body = vec![];
                }
            }
            if k == 19 {
                intended.target = format!("{path}#frag").into_bytes();
                intended.method = b"GET".to_vec();
                w.strip_framing();
                intended.body = vec![];
            }
            w.lines[0] = new.clone();
            let mut r = res(name, &new);
            r.still_valid = valid;
            r
        }
        "oversize" => {
            let k = rng.below(4);
            let at = w.hdr_pos(rng);
            match k {
                0 => {
                    let n = *rng.pick(&[8000usize, 16000, 16300, 16393, 17000, 40000, 70000]);
                    w.insert(at, format!("X-Big: {}", "b".repeat(n)).as_bytes());
                    let mut r = res(format!("big_value_{n}"), b"");
                    r.still_valid = true;
                    r
                }
                1 => {
                    let n = *rng.pick(&[100usize, 500, 2000]);
                    for j in 0..n {
                        w.insert(at, format!("X-Many-{j}: v").as_bytes());
                    }
                    let mut r = res(format!("many_headers_{n}"), b"");
                    r.still_valid = true;
                    r
                }
                2 => {
                    let n = *rng.pick(&[8000usize, 16393, 20000, 70000]);
                    let t = format!("/c{case}-r{i}/{}", "t".repeat(n));
                    let m = String::from_utf8_lossy(&intended.method).into_owned();
                    w.lines[0] = format!("{m} {t} HTTP/1.1").into_bytes();
                    intended.target = t.into_bytes();
                    let mut r = res(format!("big_target_{n}"), b"");
                    r.still_valid = true;
                    r
                }
                _ => {
                    let n = *rng.pick(&[5000usize, 17000]);
                    w.insert(at, format!("{}: v", "N".repeat(n)).as_bytes());
                    let mut r = res(format!("big_name_{n}"), b"");
                    r.still_valid = true;
                    r
                }
            }
        }
        "misc_header" => {
            let k = rng.below(16);
            let at = w.hdr_pos(rng);
            let mut valid = true;
            let name: &str = match k {
                0 => {
                    w.insert(at, b"Upgrade: h2c");
                    w.insert(at, b"HTTP2-Settings: AAMAAABkAAQAAP__");
                    w.insert(at, b"Connection: Upgrade, HTTP2-Settings");
                    "upgrade_h2c"
                }
                1 => {
                    w.insert(at, b"Expect: 100-continue");
                    "expect_100"
                }
                2 => {
                    w.insert(at, b"Connection: close");
                    "connection_close"
                }
                3 => {
                    w.insert(at, b"Connection: Content-Length");
                    "connection_names_content_length"
                }
                4 => {
                    w.insert(at, b"Connection: Transfer-Encoding");
                    "connection_names_transfer_encoding"
                }
                5 => {
                    w.insert(at, b"Connection: Host");
                    "connection_names_host"
                }
                6 => {
                    w.insert(at, b"Connection: keep-alive, close");
                    "connection_keepalive_close"
                }
                7 => {
                    w.insert(at, b"Connection: keep-alive");
                    w.insert(at, b"Keep-Alive: timeout=5, max=2");
                    "keep_alive"
                }
                8 => {
                    w.insert(at, b"Proxy-Connection: close");
                    "proxy_connection"
                }
                9 => {
                    w.insert(at, b"X-Forwarded-For: 1.2.3.4, 5.6.7.8");
                    w.insert(at, b"Forwarded: for=1.2.3.4;proto=https");
                    "client_forwarded"
                }
                10 => {
                    w.insert(at, b"Sozu-Id: 01ARZ3NDEKTSV4RRFFQ69G5FAV");
                    w.insert(at, b"X-Request-Id: client-supplied");
                    "client_sozu_id"
                }
                11 => {
                    w.insert(at, b"Connection: close");
                    w.insert(at, b"Connection: keep-alive");
                    "connection_dup"
                }
                12 => {
                    w.insert(at, b"Upgrade: websocket");
                    w.insert(at, b"Connection: Upgrade");
                    w.insert(at, b"Sec-WebSocket-Key: dGhlIHNhbXBsZSBub25jZQ==");
                    w.insert(at, b"Sec-WebSocket-Version: 13");
                    "upgrade_websocket"
                }
                13 => {
                    w.insert(at, b"Content-Length : 3");
                    valid = false;
                    "cl_name_sp_colon"
                }
                14 => {
                    w.insert(at, b"Content_Length: 3");
                    "cl_underscore"
                }
                _ => {
                    w.insert(at, b"X-Forwarded-For: 1.2.3.4\r\n\tcontinued");
                    valid = false;
                    "xff_folded"
                }
            };
            let mut r = res(name, b"");
            r.still_valid = valid;
            r
        }
        "trailer" => {
            w.strip_framing();
            let at = w.hdr_pos(rng);
            w.insert(at, b"Transfer-Encoding: chunked");
            const T: &[(&str, &[(&str, &str)], bool)] = &[
                ("content_length", &[("Content-Length", "50")], true),
                ("transfer_encoding", &[("Transfer-Encoding", "chunked")], true),
                ("host", &[("Host", "evil.test")], true),
                ("plain", &[("X-T", "v")], true),
                ("connection", &[("Connection", "close")], true),
                ("many", &[("A", "1"), ("B", "2"), ("Content-Length", "0"), ("Host", "h.test")], true),
            ];
            let k = rng.below(9);
            if k < 6 {
                let (name, tr, valid) = T[k as usize];
                w.body = chunked(rng, &payload, tr, true);
                if rng.bool() {
                    w.insert(at, format!("Trailer: {}", tr[0].0).as_bytes());
                }
                intended.body = payload;
                let mut r = res(name, format!("{}: {}", tr[0].0, tr[0].1).as_bytes());
                r.still_valid = valid;
                r
            } else {
                let (name, tail): (&str, &[u8]) = match k {
                    6 => ("bare_lf", b"0\r\nX-T: v\n\r\n"),
                    7 => ("obs_fold", b"0\r\nX-T: v\r\n more\r\n\r\n"),
                    _ => ("name_sp_colon", b"0\r\nX-T : v\r\n\r\n"),
                };
                let mut b = format!("{:x}\r\n", payload.len()).into_bytes();
                b.extend_from_slice(&payload);
                b.extend_from_slice(b"\r\n");
                b.extend_from_slice(tail);
                w.body = b;
                intended.body = payload;
                res(name, tail)
            }
        }
        _ => res("none", b""),
    }
}

/// build the input of case `case`
/// A keep-alive request whose backend answers (complete response, keep-alive allowed) as soon as
/// it has the head, while the client has only sent a part of the declared body. The rest of the
/// body, sent after the response arrived, is shaped like a full request. Everything is valid
/// HTTP/1.1: the client's script contains `n_before + 1` requests plus the sentinel.
fn build_early_response(rng: &mut Rng, case: u64) -> CaseInput {
    let n_before = rng.urange(0, 2);
    let mut bytes = Vec::new();
    let mut intended = Vec::new();
    for i in 0..n_before {
        let (w, it) = valid_request(rng, case, i, None);
        bytes.extend_from_slice(&w.render());
        intended.push(it);
    }
    let part_a = keystream(case.wrapping_mul(16) ^ 0xea71, 0, rng.urange(0, 40));
    let smug = smuggled(case);
    let method = *rng.pick(&["POST", "PUT", "PATCH"]);
    let target = format!("/c{case}-early");
    let chunked_framing = rng.bool();
    let mut head = format!("{method} {target} HTTP/1.1\r\nHost: {HOST}\r\nX-Early-Answer: 1\r\n").into_bytes();
    let (body, cut_in_body, op): (Vec<u8>, usize, &str) = if chunked_framing {
        // one chunk holding part A then the request-shaped remainder; the pause is inside the chunk
        let data = [part_a.clone(), smug.clone()].concat();
        let size_line = format!("{:x}\r\n", data.len()).into_bytes();
        let cut = size_line.len() + part_a.len();
        (
            [size_line, data, b"\r\n0\r\n\r\n".to_vec()].concat(),
            cut,
            "chunked",
        )
    } else {
        let data = [part_a.clone(), smug.clone()].concat();
        (data, part_a.len(), "content_length")
    };
    if chunked_framing {
        head.extend_from_slice(b"Transfer-Encoding: chunked\r\n\r\n");
    } else {
        head.extend_from_slice(format!("Content-Length: {}\r\n\r\n", body.len()).as_bytes());
    }
    bytes.extend_from_slice(&head);
    let wait_at = bytes.len() + cut_in_body;
    bytes.extend_from_slice(&body);
    intended.push(Intended { method: method.as_bytes().to_vec(), target: target.into_bytes(), host: HOST.as_bytes().to_vec(), body: [part_a, smug.clone()].concat(), sentinel: false });
    let with_sentinel = rng.chance(2, 3);
    if with_sentinel {
        let (b, it) = sentinel(case);
        bytes.extend_from_slice(&b);
        intended.push(it);
    }
    let len = bytes.len();
    CaseInput {
        case,
        family: "early_response",
        op: op.to_string(),
        pos: if n_before == 0 { 3 } else { 2 },
        bytes,
        cuts: vec![(wait_at, 0), (len, 0)],
        seg_kind: "two_phase",
        built_valid: true,
        intended,
        mutated_index: Some(n_before),
        marker: smug,
        sentinel: with_sentinel,
        keep_open: rng.bool(),
        wait_response_at: Some(wait_at),
        wait_responses: n_before + 1,
    }
}

pub fn build(seed: u64, case: u64) -> CaseInput {
    let mut rng = Rng::for_case(seed, 3, case);
    let early_family = FAMILIES[(case % FAMILIES.len() as u64) as usize] == "early_response";
    if early_family && !rng.chance(1, 8) {
        return build_early_response(&mut rng, case);
    }
    let n = rng.urange(1, 4);
    let mutate = !rng.chance(1, 8) && !early_family;
    let family = if mutate { FAMILIES[(case % FAMILIES.len() as u64) as usize] } else { "valid" };
    let pos_req = if !mutate {
        usize::MAX
    } else {
        match rng.below(3) {
            0 => 0,
            1 => n / 2,
            _ => n - 1,
        }
    };
    let mut bytes = Vec::new();
    let mut intended = Vec::new();
    let mut built_valid = true;
    let mut op = "valid".to_string();
    let mut marker = Vec::new();
    let mut mutated_index = None;
    for i in 0..n {
        let (mut w, mut it) = valid_request(&mut rng, case, i, None);
        if i == pos_req {
            let r = apply(family, &mut rng, case, i, &mut w, &mut it);
            op = r.name;
            marker = r.marker;
            built_valid &= r.still_valid;
            mutated_index = Some(i);
            match r.raw {
                Some(raw) => bytes.extend_from_slice(&raw),
                None => bytes.extend_from_slice(&w.render()),
            }
        } else {
            bytes.extend_from_slice(&w.render());
        }
        intended.push(it);
    }
    let with_sentinel = !rng.chance(1, 6);
    if with_sentinel {
        let (b, it) = sentinel(case);
        bytes.extend_from_slice(&b);
        intended.push(it);
    }
    let pos = if !mutate {
        3
    } else if n == 1 {
        3
    } else if pos_req == 0 {
        0
    } else if pos_req == n - 1 {
        2
    } else {
        1
    };
    let (cuts, seg_kind) = segmentation(&mut rng, &bytes);
    CaseInput {
        case,
        family,
        op,
        pos,
        bytes,
        cuts,
        seg_kind,
        built_valid,
        intended,
        mutated_index,
        marker,
        sentinel: with_sentinel,
        keep_open: rng.bool(),
        wait_response_at: None,
        wait_responses: 0,
    }
}

pub fn segmentation(rng: &mut Rng, bytes: &[u8]) -> (Vec<(usize, u32)>, &'static str) {
    let len = bytes.len();
    if len < 2 || rng.chance(7, 20) {
        return (vec![(len, 0)], "whole");
    }
    if len <= 160 && rng.chance(1, 25) {
        return ((1..=len).map(|e| (e, 80)).collect(), "byte_by_byte");
    }
    // interesting offsets: inside CRLF, inside CRLFCRLF, inside short lines (chunk sizes)
    let mut hot: Vec<usize> = Vec::new();
    for i in 0..len.saturating_sub(1) {
        if bytes[i] == b'\r' && bytes[i + 1] == b'\n' {
            hot.push(i + 1); // between CR and LF
            hot.push(i + 2);
            hot.push(i);
            if i >= 1 {
                hot.push(i - 1);
            }
        }
    }
    let k = rng.urange(1, 4);
    let mut offs: Vec<usize> = Vec::new();
    let mut kind = "random";
    for _ in 0..k {
        let o = if !hot.is_empty() && rng.chance(3, 5) {
            kind = "crlf_biased";
            *rng.pick(&hot)
        } else {
            rng.urange(1, len - 1)
        };
        if o > 0 && o < len {
            offs.push(o);
        }
    }
    offs.sort_unstable();
    offs.dedup();
    let mut cuts: Vec<(usize, u32)> = offs.into_iter().map(|o| (o, rng.range(150, 1500) as u32)).collect();
    cuts.push((len, 0));
    (cuts, kind)
}
