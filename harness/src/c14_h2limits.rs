//! C14 — sozu respects every HTTP/2 peer limit and keeps transfers moving.
//!
//! One *cell* = a live worker (HTTPS listener, ALPN h2) + a scripted backend (HTTP/1.1, or
//! prior-knowledge h2c made of `peers::h2`) + a few scripted H2 client connections over TLS. Every
//! frame sozu emits towards the client (responses) and towards the h2c backend (requests) goes
//! through the codec's online ledger; the ledger is the oracle. Bounded progress: the scripted
//! receivers follow a WINDOW_UPDATE schedule and finally grant exactly what is missing; from then
//! on the transfer must complete.

use std::{
    collections::BTreeMap,
    io::{Read, Write},
    net::SocketAddr,
    sync::{
        Arc, Mutex,
        atomic::{AtomicBool, Ordering},
    },
    time::{Duration, Instant},
};

use serde_json::{Value, json};
use sozu_command_lib::proto::command::Cluster;

use crate::{
    common::{
        Ctx, Report, Rng, par_cases,
        rng::{keystream, keystream_mismatch},
    },
    lab::{self, Worker, WorkerOpts},
    peers::{
        self, BackendServer, IoProgram, h1,
        h2::{self, Event, Frame, H2Conn, H2Error, Replenish, Role, Transport},
        tls,
    },
};

const HOST: &str = "c14.test";
const DOWN_ID: u64 = 1 << 40;
const SIZES: [usize; 11] = [0, 1, 9, 16_383, 16_384, 16_385, 16_393, 65_535, 65_536, 65_537, 1 << 20];
const IWS_SET: [u32; 6] = [0, 1, 9, 16_383, 65_535, 0x7fff_ffff];
const FRAME_SET: [u32; 3] = [16_384, 16_385, 0x00ff_ffff];
const TABLE_SET: [u32; 4] = [0, 1, 4_096, 65_536];

/// ledger kinds that refute C14 (the others are reported as inconclusive: not this property's)
const C14_KINDS: [&str; 10] = [
    h2::LV_STREAM_WINDOW,
    h2::LV_STREAM_WINDOW_AFTER_ACK,
    h2::LV_CONN_WINDOW,
    h2::LV_FRAME_SIZE,
    h2::LV_FRAME_SIZE_AFTER_ACK,
    h2::LV_CONCURRENT,
    h2::LV_STREAM_ID,
    h2::LV_CLOSED_STREAM,
    h2::LV_HPACK_SIZE,
    h2::LV_HPACK_NOT_REDUCED,
];

// ================================================================================================
// Plans
// ================================================================================================

#[derive(Clone, Debug, PartialEq)]
enum Grant {
    /// give every octet back at once; full top-up on a stall
    Burst,
    /// n octets to whatever is blocked, `steps` times, then everything
    Drip { n: u32, steps: u32 },
    /// stream windows first (connection starved), connection afterwards
    StreamThenConn,
    ConnThenStream,
    /// c octets to the streams, then c octets to the connection, alternating
    Alternate { c: u32 },
    /// exactly what is missing, on streams and connection
    ExactFit,
}

impl Grant {
    fn name(&self) -> &'static str {
        match self {
            Grant::Burst => "burst",
            Grant::Drip { n: 1, .. } => "drip1",
            Grant::Drip { .. } => "chunk",
            Grant::StreamThenConn => "stream_then_conn",
            Grant::ConnThenStream => "conn_then_stream",
            Grant::Alternate { .. } => "alternate",
            Grant::ExactFit => "exact_fit",
        }
    }
}

#[derive(Clone, Debug)]
struct Change {
    /// fires once this many flow-controlled octets were received on the connection
    after_flow: u64,
    values: Vec<(u16, u32)>,
}

#[derive(Clone, Debug)]
struct PeerPlan {
    settings: Vec<(u16, u32)>,
    grant: Grant,
    changes: Vec<Change>,
    io: IoProgram,
    quiet_ms: u64,
    literal_hpack: bool,
}

#[derive(Clone, Debug)]
struct Xfer {
    id: u64,
    up: usize,
    down: usize,
    pad: Option<u8>,
    content_length: bool,
    /// the h2c backend sends the response as PADDED DATA: (content octets per frame, padding)
    down_pad: Option<(usize, u8)>,
}

#[derive(Clone, Debug)]
struct ConnPlan {
    /// plain HTTP/1.1 client (keep-alive, sequential) instead of H2/TLS: isolates the backend leg
    front_h1: bool,
    front: PeerPlan,
    xfers: Vec<Xfer>,
    max_inflight: usize,
    up_quantum: usize,
    /// heavy-padding class: every upload frame carries `up_quantum` content octets and the
    /// transfer's padding, whatever the body size (the frame count is bounded by the plan)
    padded_class: bool,
}

#[derive(Clone, Debug)]
struct CellPlan {
    case: u64,
    back_h2c: bool,
    back: Vec<PeerPlan>,
    h1_io: IoProgram,
    conns: Vec<ConnPlan>,
    front_sndbuf: Option<i64>,
    back_sndbuf: Option<i64>,
    own_conn_window: Option<u32>,
    buffer_size: u64,
}

fn gen_io(rng: &mut Rng) -> IoProgram {
    let mut p = IoProgram::fast();
    match rng.below(6) {
        0 => {
            p.read_chunk = *rng.pick(&[1usize, 9, 100, 4096]);
            p.rcvbuf = 4096;
        }
        1 => {
            p.write_seg = *rng.pick(&[1usize, 9, 10, 100, 1000]);
        }
        2 => {
            p.read_chunk = 1000;
            p.read_pause_us = 200;
            p.rcvbuf = 2048;
        }
        _ => {}
    }
    p
}

fn gen_peer(rng: &mut Rng, back: bool, expected_flow: u64) -> PeerPlan {
    let mut settings = Vec::new();
    let iws = if rng.chance(4, 5) { *rng.pick(&IWS_SET) } else { rng.range(0, 200_000) as u32 };
    if iws != 65_535 || rng.bool() {
        settings.push((h2::SET_INITIAL_WINDOW_SIZE, iws));
    }
    if rng.chance(2, 3) {
        let f = if rng.chance(5, 6) { *rng.pick(&FRAME_SET) } else { rng.range(16_384, 0x00ff_ffff) as u32 };
        settings.push((h2::SET_MAX_FRAME_SIZE, f));
    }
    if rng.chance(2, 3) {
        let choices: &[u32] = if back { &[0, 1, 2, 100] } else { &[1, 2, 100] };
        settings.push((h2::SET_MAX_CONCURRENT_STREAMS, *rng.pick(choices)));
    }
    if rng.chance(2, 3) {
        settings.push((h2::SET_HEADER_TABLE_SIZE, *rng.pick(&TABLE_SET)));
    }
    if !back {
        settings.push((h2::SET_ENABLE_PUSH, 0));
    }
    rng.shuffle(&mut settings);
    let grant = match rng.below(12) {
        0 => Grant::Drip { n: 1, steps: rng.range(5, 40) as u32 },
        1 | 2 => Grant::Drip { n: *rng.pick(&[9u32, 100, 16_383, 16_384, 16_385, 65_535]), steps: rng.range(3, 60) as u32 },
        3 | 4 => Grant::StreamThenConn,
        5 | 6 => Grant::ConnThenStream,
        7 | 8 => Grant::Alternate { c: *rng.pick(&[1u32, 9, 1000, 16_384, 65_535, 1 << 20]) },
        9 => Grant::ExactFit,
        _ => Grant::Burst,
    };
    let mut changes = Vec::new();
    let n_changes = *rng.pick(&[0usize, 0, 1, 1, 2, 3]);
    for _ in 0..n_changes {
        let mut values = Vec::new();
        // never raise to 2^31-1 mid-connection: a stream that already got WINDOW_UPDATEs would
        // legitimately overflow (RFC 9113 6.9.2), which is not what is being tested
        if rng.chance(4, 5) {
            values.push((h2::SET_INITIAL_WINDOW_SIZE, *rng.pick(&[0u32, 0, 1, 9, 16_383, 65_535, 100_000])));
        }
        if rng.chance(1, 2) {
            values.push((h2::SET_MAX_FRAME_SIZE, *rng.pick(&FRAME_SET)));
        }
        if rng.chance(1, 3) {
            values.push((h2::SET_HEADER_TABLE_SIZE, *rng.pick(&TABLE_SET)));
        }
        if rng.chance(1, 3) {
            let choices: &[u32] = if back { &[0, 1, 2, 100] } else { &[1, 2, 100] };
            values.push((h2::SET_MAX_CONCURRENT_STREAMS, *rng.pick(choices)));
        }
        if values.is_empty() {
            values.push((h2::SET_INITIAL_WINDOW_SIZE, 0));
        }
        let after_flow = if expected_flow == 0 { 0 } else { rng.below(expected_flow.max(1)) };
        changes.push(Change { after_flow, values });
    }
    changes.sort_by_key(|c| c.after_flow);
    PeerPlan {
        settings,
        grant,
        changes,
        io: gen_io(rng),
        quiet_ms: *rng.pick(&[2u64, 3, 5, 10]),
        literal_hpack: rng.chance(1, 4),
    }
}

fn gen_size(rng: &mut Rng, budget: &mut usize) -> usize {
    let mut s = if rng.chance(3, 5) {
        let b = *rng.pick(&SIZES);
        if b == 1 << 20 && !rng.chance(1, 3) { 65_537 } else { b }
    } else if rng.chance(1, 2) {
        rng.range(0, 400) as usize
    } else {
        rng.boundary_size(&SIZES, 300_000)
    };
    if s > *budget {
        s = *budget;
    }
    *budget -= s;
    s
}


/// Every 6th cell is a *heavy padding* cell: PADDED DATA with small content and 200..255 octets of
/// padding, enough frames on ONE connection for the padding alone to exceed sozu's advertised
/// connection window several times (RFC 9113 6.1/6.9.1: pad length octet and padding are
/// flow-controlled, so sozu has to give them back too). Connection 0 uploads padded DATA through
/// the front; with an h2c backend connection 1 downloads a body the backend sends as PADDED DATA
/// (sozu is then the receiver on its backend connection).
fn gen_padded_cell(seed: u64, case: u64, force_back: Option<bool>) -> CellPlan {
    let mut rng = Rng::for_case(seed, 1414, case);
    let back_h2c = force_back.unwrap_or((case / PADDED_CELL_EVERY) % 3 != 2);
    // sozu's own connection window: 65 535 (few frames needed) or the 1 MiB default
    let own_conn_window = if rng.chance(3, 4) { Some(65_535u32) } else { None };
    let window = own_conn_window.unwrap_or(1 << 20) as usize;
    let plain_peer = |settings: Vec<(u16, u32)>| PeerPlan {
        settings,
        grant: Grant::Burst,
        changes: Vec::new(),
        io: IoProgram::fast(),
        quiet_ms: 3,
        literal_hpack: false,
    };
    let mut next_id = 1u64;
    let mut conns = Vec::new();
    let n_conns = if back_h2c { 2 } else { 1 };
    for ci in 0..n_conns {
        let download = ci == 1;
        let pad = rng.range(200, 255) as u8;
        let content = if window > 65_535 { *rng.pick(&[9usize, 100]) } else { *rng.pick(&[1usize, 9, 100, 1000]) };
        // padding volume = times x window
        let times_x10 = if window > 65_535 { rng.range(13, 16) } else { rng.range(30, 50) } as usize;
        let frames = (window * times_x10 / 10).div_ceil(pad as usize + 1);
        let n_streams = rng.urange(2, 5);
        let mut xfers = Vec::new();
        for k in 0..n_streams {
            let f = frames / n_streams + usize::from(k == 0) * (frames % n_streams);
            let body = f * content;
            xfers.push(Xfer {
                id: next_id,
                up: if download { 0 } else { body },
                down: if download { body } else { *rng.pick(&[0usize, 1, 9]) },
                pad: if download { None } else { Some(pad) },
                content_length: rng.bool(),
                down_pad: download.then_some((content, pad)),
            });
            next_id += 1;
        }
        conns.push(ConnPlan {
            front_h1: false,
            front: plain_peer(vec![(h2::SET_ENABLE_PUSH, 0), (h2::SET_INITIAL_WINDOW_SIZE, 1 << 20)]),
            xfers,
            max_inflight: rng.urange(1, 2),
            up_quantum: content,
            padded_class: true,
        });
    }
    CellPlan {
        case,
        back_h2c,
        back: vec![plain_peer(vec![(h2::SET_INITIAL_WINDOW_SIZE, 1 << 20), (h2::SET_MAX_CONCURRENT_STREAMS, 100)])],
        h1_io: IoProgram::fast(),
        conns,
        front_sndbuf: None,
        back_sndbuf: None,
        own_conn_window,
        buffer_size: 16_393,
    }
}

const PADDED_CELL_EVERY: u64 = 6;

/// `force_back` / `force_front`: restrict the pairing (options `backend=h1|h2c`, `front=h1|h2`)
fn gen_cell(seed: u64, case: u64, thorough: bool, force_back: Option<bool>, force_front_h1: Option<bool>) -> CellPlan {
    if case % PADDED_CELL_EVERY == PADDED_CELL_EVERY - 1 && force_front_h1 != Some(true) {
        return gen_padded_cell(seed, case, force_back);
    }
    let mut rng = Rng::for_case(seed, 14, case);
    let drawn = rng.chance(3, 5);
    let back_h2c = force_back.unwrap_or(drawn);
    let n_conns = rng.urange(2, 4);
    let mut next_id = 1u64;
    let mut conns = Vec::new();
    let mut total_up = 0u64;
    for _ in 0..n_conns {
        let n = match rng.below(10) {
            0..=3 => 1,
            4..=6 => rng.urange(2, 4),
            7 | 8 => rng.urange(5, 12),
            _ => rng.urange(13, 32),
        };
        // per-connection byte budget keeps the quick tier quick
        let mut budget = if thorough { 6 << 20 } else { 3 << 19 };
        let mut xfers = Vec::new();
        let shape = rng.below(4);
        for _ in 0..n {
            let (up, down) = match shape {
                0 => (0, gen_size(&mut rng, &mut budget)),
                1 => (gen_size(&mut rng, &mut budget), *rng.pick(&[0usize, 1, 9, 100])),
                _ => (gen_size(&mut rng, &mut budget), gen_size(&mut rng, &mut budget)),
            };
            total_up += up as u64;
            xfers.push(Xfer {
                id: next_id,
                up,
                down,
                pad: if rng.chance(1, 6) { Some(rng.range(0, 32) as u8) } else { None },
                content_length: rng.bool(),
                down_pad: None,
            });
            next_id += 1;
        }
        let down_total: u64 = xfers.iter().map(|x| x.down as u64).sum();
        conns.push(ConnPlan {
            front_h1: {
                let drawn = rng.chance(1, 3);
                back_h2c && force_front_h1.unwrap_or(drawn)
            },
            front: gen_peer(&mut rng, false, down_total),
            max_inflight: if rng.chance(2, 3) { n } else { rng.urange(1, n) },
            up_quantum: *rng.pick(&[1usize << 20, 16_384, 16_385, 1000, 9]),
            padded_class: false,
            xfers,
        });
    }
    let back: Vec<PeerPlan> = (0..2).map(|_| gen_peer(&mut rng, true, total_up / 2)).collect();
    let h1_io = gen_io(&mut rng);
    // byte-at-a-time I/O programs are for boundary splitting, not for bulk: keep their cells small
    let tiny = |io: &IoProgram| (1..=10).contains(&io.write_seg) || (1..=9).contains(&io.read_chunk);
    let cell_tiny = (back_h2c && back.iter().any(|b| tiny(&b.io))) || (!back_h2c && tiny(&h1_io));
    for c in conns.iter_mut() {
        if cell_tiny || tiny(&c.front.io) {
            let mut left = 100_000usize;
            for x in c.xfers.iter_mut() {
                x.up = x.up.min(20_000).min(left);
                left -= x.up;
                x.down = x.down.min(20_000).min(left);
                left -= x.down;
            }
        }
    }
    CellPlan {
        case,
        back_h2c,
        back,
        h1_io,
        conns,
        front_sndbuf: if rng.chance(1, 3) { Some(*rng.pick(&[4096i64, 16_384, 65_536])) } else { None },
        back_sndbuf: if rng.chance(1, 3) { Some(*rng.pick(&[4096i64, 16_384, 65_536])) } else { None },
        own_conn_window: if rng.bool() { Some(65_535) } else { None },
        buffer_size: *rng.pick(&[16_393u64, 16_393, 32_768]),
    }
}

fn settings_json(s: &[(u16, u32)]) -> Value {
    Value::Array(s.iter().map(|(k, v)| json!([k, v])).collect())
}

fn peer_json(p: &PeerPlan) -> Value {
    json!({
        "settings": settings_json(&p.settings),
        "grant": format!("{:?}", p.grant),
        "changes": p.changes.iter().map(|c| json!({"after_flow": c.after_flow, "values": settings_json(&c.values)})).collect::<Vec<_>>(),
        "io": p.io.describe(),
        "quiet_ms": p.quiet_ms,
        "literal_hpack": p.literal_hpack,
    })
}

fn plan_json(p: &CellPlan) -> Value {
    json!({
        "backend": if p.back_h2c { "h2c" } else { "h1" },
        "back_peers": p.back.iter().map(peer_json).collect::<Vec<_>>(),
        "h1_io": p.h1_io.describe(),
        "front_sndbuf": p.front_sndbuf, "back_sndbuf": p.back_sndbuf,
        "own_conn_window": p.own_conn_window, "buffer_size": p.buffer_size,
        "conns": p.conns.iter().map(|c| json!({
            "front": if c.front_h1 { "h1" } else { "h2" },
            "front_peer": peer_json(&c.front),
            "max_inflight": c.max_inflight, "up_quantum": c.up_quantum, "padded_class": c.padded_class,
            "xfers": c.xfers.iter().map(|x| json!([x.id, x.up, x.down, x.pad, x.content_length, x.down_pad])).collect::<Vec<_>>(),
        })).collect::<Vec<_>>(),
    })
}

// ================================================================================================
// Receiver side: window granting schedule + SETTINGS changes
// ================================================================================================

#[derive(Default, Debug, Clone)]
struct SideStats {
    conns: u64,
    streams: u64,
    data_frames: u64,
    flow_bytes: u64,
    /// times the granter found sozu unable to send (no credit) while data was still due
    window_stalls: u64,
    ledger_stalls: u64,
    settings_changes: u64,
    shrink_negative: u64,
    grants: u64,
    max_frame_seen: u64,
    max_frame_allowed: u64,
    max_open: u64,
    goaways: u64,
    adv: BTreeMap<String, u64>,
}

impl SideStats {
    fn publish(&self, side: &str, rep: &mut Report) {
        rep.obs(&format!("{side}.connections"), self.conns);
        rep.obs(&format!("{side}.streams"), self.streams);
        rep.obs(&format!("{side}.data_frames_checked"), self.data_frames);
        rep.obs(&format!("{side}.bytes_ledgered"), self.flow_bytes);
        rep.obs(&format!("{side}.window_stalls"), self.window_stalls);
        rep.obs(&format!("{side}.ledger_window_exhausted"), self.ledger_stalls);
        rep.obs(&format!("{side}.settings_changes_mid_connection"), self.settings_changes);
        rep.obs(&format!("{side}.shrink_below_inflight"), self.shrink_negative);
        rep.obs(&format!("{side}.window_updates_sent"), self.grants);
        rep.obs(&format!("{side}.goaway_received"), self.goaways);
        rep.obs_max(&format!("{side}.max_frame_len_seen"), self.max_frame_seen);
        rep.obs_max(&format!("{side}.max_frame_size_advertised"), self.max_frame_allowed);
        rep.obs_max(&format!("{side}.max_concurrent_open_seen"), self.max_open);
        for (k, v) in &self.adv {
            rep.obs(&format!("{side}.{k}"), *v);
        }
    }
    fn note_settings(&mut self, values: &[(u16, u32)], change: bool) {
        for (id, v) in values {
            let name = match *id {
                h2::SET_INITIAL_WINDOW_SIZE => "iws",
                h2::SET_MAX_FRAME_SIZE => "max_frame",
                h2::SET_MAX_CONCURRENT_STREAMS => "max_concurrent",
                h2::SET_HEADER_TABLE_SIZE => "header_table",
                _ => continue,
            };
            let known = IWS_SET.contains(v) || FRAME_SET.contains(v) || TABLE_SET.contains(v) || [2u32, 100].contains(v);
            let val = if known { v.to_string() } else { "other".to_owned() };
            *self.adv.entry(format!("adv.{}{name}.{val}", if change { "change." } else { "" })).or_insert(0) += 1;
            if *id == h2::SET_MAX_FRAME_SIZE {
                self.max_frame_allowed = self.max_frame_allowed.max(*v as u64);
            }
        }
    }
    fn absorb<S: Transport>(&mut self, c: &H2Conn<S>) {
        self.conns += 1;
        self.data_frames += c.data_frames_in;
        self.flow_bytes += c.conn_recv_flow;
        self.ledger_stalls += c.conn_stalls + c.streams.values().map(|s| s.stalls).sum::<u64>();
        self.max_frame_seen = self.max_frame_seen.max(c.max_frame_len_seen as u64);
        if c.max_frame_len_seen > 16_384 {
            *self.adv.entry("connections_with_frames_longer_than_16384".to_owned()).or_insert(0) += 1;
        }
        self.max_open = self.max_open.max(c.max_remote_open as u64);
        if c.goaway_in.is_some() {
            self.goaways += 1;
        }
    }
}

struct Receiver {
    plan: PeerPlan,
    quiet: Duration,
    last_rx: Instant,
    steps: u32,
    next_change: usize,
    stats: SideStats,
    /// set once the schedule reached "grant everything that is missing"
    flooded: bool,
    /// index of the first inbound frame whose payload was not the expected keystream
    corrupt_at: Option<usize>,
}

impl Receiver {
    fn new(plan: &PeerPlan) -> Receiver {
        let mut stats = SideStats::default();
        stats.note_settings(&plan.settings, false);
        if !plan.settings.iter().any(|(k, _)| *k == h2::SET_MAX_FRAME_SIZE) {
            stats.max_frame_allowed = 16_384;
        }
        *stats.adv.entry(format!("policy.{}", plan.grant.name())).or_insert(0) += 1;
        Receiver {
            quiet: Duration::from_millis(plan.quiet_ms),
            plan: plan.clone(),
            last_rx: Instant::now(),
            steps: 0,
            next_change: 0,
            stats,
            flooded: false,
            corrupt_at: None,
        }
    }

    fn setup<S: Transport>(&self, c: &mut H2Conn<S>) {
        c.auto_ack = true;
        c.auto_pong = true;
        c.obey_windows = true;
        c.replenish = Replenish::Manual;
        c.io_prog = self.plan.io.clone();
        c.write_timeout = Duration::from_secs(20);
        if self.plan.literal_hpack {
            c.enc.mode = h2::HpackMode::LiteralOnly;
        }
    }

    /// DATA arrived: Burst gives it back at once
    fn after_data<S: Transport>(&mut self, c: &mut H2Conn<S>, sid: u32, flow_len: usize, end_stream: bool) -> Result<(), H2Error> {
        self.last_rx = Instant::now();
        if self.plan.grant == Grant::Burst && flow_len > 0 {
            let mut frames = vec![Frame::window_update(0, flow_len as u32)];
            if !end_stream {
                frames.push(Frame::window_update(sid, flow_len as u32));
            }
            self.stats.grants += frames.len() as u64;
            c.send_frames(&frames)?;
        }
        Ok(())
    }

    fn on_settings_ack<S: Transport>(&mut self, c: &H2Conn<S>) {
        if c.streams.values().any(|s| s.recv_window < 0 && !s.remote_end && s.remote_rst.is_none()) {
            self.stats.shrink_negative += 1;
        }
    }

    /// mid-connection SETTINGS changes due by now
    fn changes<S: Transport>(&mut self, c: &mut H2Conn<S>) -> Result<(), H2Error> {
        while let Some(ch) = self.plan.changes.get(self.next_change) {
            if c.conn_recv_flow < ch.after_flow {
                break;
            }
            let mut values = ch.values.clone();
            // a raise of INITIAL_WINDOW_SIZE must not push an existing stream window over 2^31-1
            let cur = c.local_settings.initial_window_size as i64;
            for (id, v) in values.iter_mut() {
                if *id == h2::SET_INITIAL_WINDOW_SIZE {
                    let max_w = c.streams.values().map(|s| s.recv_window).max().unwrap_or(0).max(0);
                    let pending_max = c.local_pending.iter().flatten().filter(|(i, _)| *i == h2::SET_INITIAL_WINDOW_SIZE).map(|(_, v)| *v as i64).max().unwrap_or(cur);
                    let headroom = h2::MAX_WINDOW - max_w - (pending_max - cur).max(0);
                    if (*v as i64 - cur.min(pending_max)) > headroom {
                        *v = cur.min(pending_max).max(0) as u32;
                    }
                }
            }
            self.stats.note_settings(&values, true);
            self.stats.settings_changes += 1;
            c.send_settings(&values)?;
            self.next_change += 1;
        }
        Ok(())
    }

    /// `needs` = (stream, payload octets still due on it); runs the WINDOW_UPDATE schedule
    fn tick<S: Transport>(&mut self, c: &mut H2Conn<S>, needs: &[(u32, u64)]) -> Result<(), H2Error> {
        self.changes(c)?;
        let mut active: Vec<(u32, i64, i64)> = Vec::new();
        for (sid, rem) in needs {
            if *rem == 0 {
                continue;
            }
            if let Some(s) = c.streams.get(sid) {
                if !s.remote_end && s.remote_rst.is_none() && s.local_rst.is_none() {
                    active.push((*sid, *rem as i64, s.recv_window));
                }
            }
        }
        if active.is_empty() {
            return Ok(());
        }
        let conn_w = c.conn_recv_window;
        let total: i64 = active.iter().map(|a| a.1).sum();
        let conn_blocked = conn_w <= 0;
        let any_stream_blocked = active.iter().any(|a| a.2 <= 0);
        let can_progress = !conn_blocked && active.iter().any(|a| a.2 > 0);
        if !(conn_blocked || any_stream_blocked) || self.last_rx.elapsed() < self.quiet {
            return Ok(());
        }
        if !can_progress {
            self.stats.window_stalls += 1;
        }
        let mut frames: Vec<Frame> = Vec::new();
        let cap = |w: i64, inc: i64| -> u32 { inc.min(h2::MAX_WINDOW - w).clamp(0, h2::MAX_WINDOW) as u32 };
        let all_streams = |frames: &mut Vec<Frame>| {
            for (sid, rem, w) in &active {
                let inc = cap(*w, rem - w);
                if inc > 0 {
                    frames.push(Frame::window_update(*sid, inc));
                }
            }
        };
        let conn_all = |frames: &mut Vec<Frame>| {
            let inc = cap(conn_w, total - conn_w);
            if inc > 0 {
                frames.push(Frame::window_update(0, inc));
            }
        };
        let some = |frames: &mut Vec<Frame>, n: u32, streams: bool, conn: bool| {
            if streams {
                for (sid, rem, w) in &active {
                    if *w <= 0 {
                        let inc = cap(*w, (n as i64).min(rem - w));
                        if inc > 0 {
                            frames.push(Frame::window_update(*sid, inc));
                        }
                    }
                }
            }
            if conn && conn_blocked {
                let inc = cap(conn_w, (n as i64).min(total - conn_w));
                if inc > 0 {
                    frames.push(Frame::window_update(0, inc));
                }
            }
        };
        let limit = match self.plan.grant {
            Grant::Drip { steps, .. } => steps,
            Grant::Alternate { .. } => 60,
            Grant::StreamThenConn | Grant::ConnThenStream => 40,
            Grant::Burst | Grant::ExactFit => 0,
        };
        if self.steps >= limit {
            self.flooded = true;
            all_streams(&mut frames);
            conn_all(&mut frames);
        } else {
            match self.plan.grant.clone() {
                Grant::Drip { n, .. } => some(&mut frames, n, true, true),
                Grant::Alternate { c: n } => {
                    if self.steps % 2 == 0 {
                        some(&mut frames, n, true, false)
                    } else {
                        some(&mut frames, n, false, true)
                    }
                }
                Grant::StreamThenConn => {
                    if any_stream_blocked {
                        all_streams(&mut frames)
                    } else {
                        conn_all(&mut frames)
                    }
                }
                Grant::ConnThenStream => {
                    if conn_blocked {
                        conn_all(&mut frames)
                    } else {
                        all_streams(&mut frames)
                    }
                }
                Grant::Burst | Grant::ExactFit => unreachable!(),
            }
        }
        self.steps += 1;
        self.last_rx = Instant::now();
        if !frames.is_empty() {
            self.stats.grants += frames.len() as u64;
            c.send_frames(&frames)?;
        }
        Ok(())
    }
}

// ================================================================================================
// Shared view of the backend's progress (the client thread is the judge of a stall)
// ================================================================================================

#[derive(Clone, Debug, Default)]
struct BackProg {
    conn: usize,
    up_recv: u64,
    up_done: bool,
    down_sent: u64,
    down_done: bool,
    /// h2c only: sozu's remaining credit on the request stream / connection as granted by the backend
    stream_window: i64,
    conn_window: i64,
    /// h2c only: the backend's credit from sozu for the response
    send_credit: i64,
    flooded: bool,
    reset: Option<u32>,
    /// h2c only: the backend cannot send one more octet of this response because of sozu's
    /// connection window (stream credit is there), and how many PING barriers completed in that state
    conn_starved: bool,
    barriers: u64,
    conn_credit: i64,
    stream_credit: i64,
}

#[derive(Default)]
struct Shared {
    prog: Mutex<BTreeMap<u64, BackProg>>,
    /// (kind, detail, trace) from backend-side ledgers
    back_violations: Mutex<Vec<(String, String, Vec<String>, usize)>>,
    back_other: Mutex<Vec<String>>,
    back_stats: Mutex<SideStats>,
    corrupt: Mutex<Vec<String>>,
    stop: AtomicBool,
    live_conns: std::sync::atomic::AtomicUsize,
    back_after_corruption: std::sync::atomic::AtomicUsize,
    /// header of a frame a backend connection was still waiting to complete when it ended
    back_pending_headers: Mutex<Vec<String>>,
}

fn parse_path(path: &str) -> Option<(u64, usize, usize)> {
    let mut it = path.trim_start_matches("/t/").split('/');
    Some((it.next()?.parse().ok()?, it.next()?.parse().ok()?, it.next()?.parse().ok()?))
}


fn parse_down_pad(path: &str) -> Option<(usize, u8)> {
    let (_, rest) = path.split_once("/dp/")?;
    let (content, pad) = rest.split_once('/')?;
    Some((content.parse().ok()?, pad.parse().ok()?))
}

/// Logical "sozu had its chance" barrier, on the wire only: two PING round trips, one after the
/// other. sozu answers a PING from its write path, after the reads that preceded it and after the
/// control frames it had queued (WINDOW_UPDATE included) on the earlier pass; once the second
/// answer is here, every WINDOW_UPDATE sozu decided to send before the first PING has arrived.
#[derive(Default)]
struct Barrier {
    token: u64,
    acked: u32,
    active: bool,
    completed: u64,
    /// no new barrier before this instant (keeps a long starvation from becoming a PING flood)
    rest_until: Option<Instant>,
    /// our connection send window when the barrier started: any WINDOW_UPDATE on stream 0 cancels it
    credit_at_start: i64,
}

impl Barrier {
    fn token_bytes(&self) -> [u8; 8] {
        (0xC14_0000_0000_0000u64 | self.token).to_be_bytes()
    }
    /// `starving` = the sender cannot send a single octet because of the connection window and the
    /// preconditions hold. Returns true once a full barrier went by while it stayed true.
    fn step<S: Transport>(&mut self, c: &mut H2Conn<S>, starving: bool) -> Result<bool, H2Error> {
        if !starving {
            self.active = false;
            self.acked = 0;
            return Ok(false);
        }
        if !self.active {
            if self.rest_until.is_some_and(|t| Instant::now() < t) {
                return Ok(false);
            }
            self.active = true;
            self.acked = 0;
            self.token += 1;
            self.credit_at_start = c.conn_send_window;
            c.send_ping(false, self.token_bytes())?;
            return Ok(false);
        }
        Ok(self.acked >= 2)
    }
    fn on_ping_ack<S: Transport>(&mut self, c: &mut H2Conn<S>, data: [u8; 8]) -> Result<(), H2Error> {
        if self.active && data == self.token_bytes() {
            // events are handled in wire order: if connection credit came in before this answer,
            // the starvation is over and this barrier must not count
            if c.conn_send_window > self.credit_at_start {
                self.active = false;
                self.acked = 0;
                return Ok(());
            }
            self.acked += 1;
            if self.acked < 2 {
                self.token += 1;
                c.send_ping(false, self.token_bytes())?;
            } else {
                self.completed += 1;
                self.rest_until = Some(Instant::now() + Duration::from_millis(2));
            }
        }
        Ok(())
    }
}

fn trace_around<S: Transport>(c: &H2Conn<S>, frame_index: usize) -> Vec<String> {
    // position of the inbound frame `frame_index` in the combined trace
    let mut seen = 0usize;
    let mut pos = c.trace.len();
    for (i, t) in c.trace.iter().enumerate() {
        if t.inbound {
            if seen == frame_index {
                pos = i;
                break;
            }
            seen += 1;
        }
    }
    let from = pos.saturating_sub(30);
    let to = (pos + 3).min(c.trace.len());
    c.trace[from..to].iter().map(|t| t.describe()).collect()
}


/// where do the bytes after a mismatch come from? (same transfer at another offset, or another transfer)
fn locate(ids: &[u64], probe: &[u8], max_len: usize) -> String {
    if probe.len() < 12 {
        return "too few bytes left to localise".to_owned();
    }
    let probe = &probe[..probe.len().min(16)];
    for id in ids {
        for dir in [*id | DOWN_ID, *id] {
            let ks = keystream(dir, 0, max_len + 16);
            if let Some(pos) = ks.windows(probe.len()).position(|w| w == probe) {
                return format!("these octets are offset {pos} of the {} body of transfer {id}", if dir & DOWN_ID != 0 { "response" } else { "request" });
            }
        }
    }
    "these octets match no transfer of the connection".to_owned()
}

/// class of a body mismatch, from the octets found where the keystream was expected
fn corruption_class(ids: &[u64], probe: &[u8], max_len: usize) -> (&'static str, String) {
    // a 9-octet header of a connection-level or small control frame sitting in the payload
    if probe.len() >= 9
        && probe[0] == 0
        && probe[1] == 0
        && probe[2] < 64
        && matches!(probe[3], 3 | 4 | 6 | 7 | 8)
        && probe[5] & 0x80 == 0
        && (probe[3] == 3 || probe[3] == 8 || probe[5..9] == [0, 0, 0, 0])
    {
        let name = h2::frame_type_name(probe[3]);
        return ("body_spliced_control_frame", format!("a {name} frame header ({}) sits inside the DATA payload", hex::encode(&probe[..9])));
    }
    let where_from = locate(ids, probe, max_len);
    if where_from.starts_with("these octets are offset") {
        ("body_reordered", where_from)
    } else {
        ("body_corrupted", where_from)
    }
}

// ---- HTTP/1.1 backend --------------------------------------------------------------------------

fn h1_backend(addr: SocketAddr, prog: IoProgram, shared: Arc<Shared>) -> std::io::Result<BackendServer> {
    let io = prog.clone();
    BackendServer::start(addr, prog, move |mut s, conn| {
        let mut p = h1::Parser::new(h1::Kind::Request, false);
        let mut buf = vec![0u8; 65536];
        let mut cur: Option<(u64, usize, usize)> = None;
        let mut got = 0u64;
        loop {
            if shared.stop.load(Ordering::SeqCst) {
                return;
            }
            let n = match peers::paced_read(&mut s, &mut buf, &io, Duration::from_millis(200)) {
                Ok(0) => return,
                Ok(n) => n,
                Err(e) if e.kind() == std::io::ErrorKind::TimedOut => continue,
                Err(_) => return,
            };
            let Ok(events) = p.feed(&buf[..n]) else {
                shared.corrupt.lock().unwrap().push("body_corrupted|h1 backend: unparsable request from sozu".to_owned());
                return;
            };
            for e in events {
                match e {
                    h1::Event::Head(h) => {
                        cur = parse_path(&h.second);
                        got = 0;
                        if let Some((id, _, _)) = cur {
                            shared.prog.lock().unwrap().insert(id, BackProg { conn, stream_window: i64::MAX, conn_window: i64::MAX, send_credit: i64::MAX, ..Default::default() });
                        }
                    }
                    h1::Event::Body(b) => {
                        if let Some((id, _, _)) = cur {
                            if let Some(k) = keystream_mismatch(id, got, &b) {
                                shared.corrupt.lock().unwrap().push(format!("body_corrupted|request body of transfer {id} differs from its keystream at offset {}", got + k as u64));
                            }
                            got += b.len() as u64;
                            if let Some(pr) = shared.prog.lock().unwrap().get_mut(&id) {
                                pr.up_recv = got;
                            }
                        }
                    }
                    h1::Event::End(_) => {
                        let Some((id, up, down)) = cur.take() else { continue };
                        if got != up as u64 {
                            shared.corrupt.lock().unwrap().push(format!("body_truncated|request body of transfer {id} ended after {got} of {up} octets"));
                        }
                        if let Some(pr) = shared.prog.lock().unwrap().get_mut(&id) {
                            pr.up_done = true;
                        }
                        let head = format!("HTTP/1.1 200 OK\r\nContent-Length: {down}\r\n\r\n");
                        let deadline = Instant::now() + Duration::from_secs(120);
                        if peers::paced_write(&mut s, head.as_bytes(), &io, deadline).is_err() {
                            return;
                        }
                        let _ = s.set_write_timeout(Some(Duration::from_millis(200)));
                        let seg = if io.write_seg == 0 { 16_384 } else { io.write_seg };
                        let mut off = 0usize;
                        let mut chunk: Vec<u8> = Vec::new();
                        let mut chunk_off = 0usize;
                        while off < down {
                            if shared.stop.load(Ordering::SeqCst) {
                                return;
                            }
                            if chunk_off == chunk.len() {
                                chunk = keystream(id | DOWN_ID, off as u64, (down - off).min(seg));
                                chunk_off = 0;
                            }
                            match s.write(&chunk[chunk_off..]) {
                                Ok(0) => return,
                                Ok(n) => {
                                    chunk_off += n;
                                    off += n;
                                    if io.write_pause_us > 0 {
                                        std::thread::sleep(Duration::from_micros(io.write_pause_us));
                                    }
                                }
                                Err(e) if matches!(e.kind(), std::io::ErrorKind::WouldBlock | std::io::ErrorKind::TimedOut | std::io::ErrorKind::Interrupted) => {}
                                Err(_) => return,
                            }
                            if let Some(pr) = shared.prog.lock().unwrap().get_mut(&id) {
                                pr.down_sent = off as u64;
                            }
                        }
                        if let Some(pr) = shared.prog.lock().unwrap().get_mut(&id) {
                            pr.down_sent = down as u64;
                            pr.down_done = true;
                        }
                    }
                }
            }
        }
    })
}

// ---- h2c backend -------------------------------------------------------------------------------

struct BackX {
    id: u64,
    up: usize,
    down: usize,
    got: u64,
    up_done: bool,
    resp_started: bool,
    sent: usize,
    done: bool,
    down_pad: Option<(usize, u8)>,
}

fn h2c_backend(addr: SocketAddr, plans: Vec<PeerPlan>, shared: Arc<Shared>) -> std::io::Result<BackendServer> {
    let mut listen_io = IoProgram::fast();
    listen_io.rcvbuf = plans.iter().map(|p| p.io.rcvbuf).max().unwrap_or(0);
    BackendServer::start(addr, listen_io, move |s, conn| {
        shared.live_conns.fetch_add(1, Ordering::SeqCst);
        let plan = &plans[conn % plans.len()];
        let mut rx = Receiver::new(plan);
        let mut c = H2Conn::new(s, Role::Server);
        rx.setup(&mut c);
        c.read_timeout = paced(Duration::from_secs(5));
        let r = h2c_serve(&mut c, &mut rx, conn, &shared);
        if let Err(e) = r {
            if !shared.stop.load(Ordering::SeqCst) && e != H2Error::Closed {
                shared.back_other.lock().unwrap().push(format!("h2c backend conn {conn}: {e}"));
            }
        }
        rx.stats.absorb(&c);
        rx.stats.streams = c.streams.len() as u64;
        if let Some(h) = c.pending_header() {
            shared.back_pending_headers.lock().unwrap().push(format!("conn {conn}: {}", h.describe()));
        }
        for v in &c.ledger_violations {
            if rx.corrupt_at.is_some_and(|at| v.frame_index >= at) {
                shared.back_after_corruption.fetch_add(1, Ordering::SeqCst);
            } else if C14_KINDS.contains(&v.kind) {
                shared.back_violations.lock().unwrap().push((v.kind.to_owned(), v.detail.clone(), trace_around(&c, v.frame_index), conn));
            } else {
                shared.back_other.lock().unwrap().push(format!("{}: {}", v.kind, v.detail));
            }
        }
        merge_stats(&mut shared.back_stats.lock().unwrap(), &rx.stats);
        shared.live_conns.fetch_sub(1, Ordering::SeqCst);
    })
}

fn merge_stats(into: &mut SideStats, s: &SideStats) {
    into.conns += s.conns;
    into.streams += s.streams;
    into.data_frames += s.data_frames;
    into.flow_bytes += s.flow_bytes;
    into.window_stalls += s.window_stalls;
    into.ledger_stalls += s.ledger_stalls;
    into.settings_changes += s.settings_changes;
    into.shrink_negative += s.shrink_negative;
    into.grants += s.grants;
    into.goaways += s.goaways;
    into.max_frame_seen = into.max_frame_seen.max(s.max_frame_seen);
    into.max_frame_allowed = into.max_frame_allowed.max(s.max_frame_allowed);
    into.max_open = into.max_open.max(s.max_open);
    for (k, v) in &s.adv {
        *into.adv.entry(k.clone()).or_insert(0) += v;
    }
}

fn h2c_serve(c: &mut H2Conn<std::net::TcpStream>, rx: &mut Receiver, conn: usize, shared: &Shared) -> Result<(), H2Error> {
    c.handshake_server(&rx.plan.settings)?;
    let mut xs: BTreeMap<u32, BackX> = BTreeMap::new();
    let mut barrier = Barrier::default();
    loop {
        if shared.stop.load(Ordering::SeqCst) {
            return Ok(());
        }
        // responses, obeying sozu's windows, round robin
        let mut could_send = false;
        let mut starving_sid: Option<u32> = None;
        let mut starving_credit = (0i64, 0i64);
        let sids: Vec<u32> = xs.iter().filter(|(_, x)| x.up_done && !x.done).map(|(s, _)| *s).collect();
        for sid in sids {
            let x = xs.get_mut(&sid).expect("present");
            if !x.resp_started {
                x.resp_started = true;
                let end = x.down == 0 && x.id % 2 == 0;
                c.send_headers(sid, &h2::response_headers(200, &[("x-c14", "h2c")]), end)?;
                if end {
                    x.done = true;
                    continue;
                }
            }
            let (frame_content, pad) = match x.down_pad {
                Some((content, pad)) => (content.max(1), Some(pad)),
                None => (32_768, None),
            };
            let overhead = pad.map(|p| p as i64 + 1).unwrap_or(0);
            let credit = c.send_credit(sid) - overhead;
            if x.down == 0 {
                c.send_data_avail(sid, &[], true, None)?;
                x.done = true;
            } else if credit > 0 {
                let n = (x.down - x.sent).min(frame_content).min(credit as usize);
                let chunk = keystream(x.id | DOWN_ID, x.sent as u64, n);
                let sent = c.send_data_avail(sid, &chunk, x.sent + n == x.down, pad)?;
                x.sent += sent;
                if sent > 0 && pad.is_some() {
                    *rx.stats.adv.entry("padded_download_frames".to_owned()).or_insert(0) += 1;
                    *rx.stats.adv.entry("padding_octets_sent".to_owned()).or_insert(0) += overhead as u64;
                }
                if x.sent == x.down {
                    x.done = true;
                }
                could_send |= sent > 0 && !x.done;
            } else if x.sent < x.down {
                // no credit for even one octet: is it the connection window alone?
                let stream_credit = c.streams.get(&sid).map(|s| s.send_window).unwrap_or(0) - overhead;
                if c.conn_send_window - overhead <= 0 && stream_credit > 0 {
                    starving_sid = Some(sid);
                    starving_credit = (c.conn_send_window, stream_credit + overhead);
                }
            }
        }
        // connection-window starvation of the backend as a sender: keep running PING barriers while
        // it lasts (the client thread judges, it knows what reached the client)
        if barrier.step(c, starving_sid.is_some())? {
            barrier.active = false; // start the next one on the next turn
        }
        let mut wait = if could_send { Duration::ZERO } else { Duration::from_millis(2) };
        while let Some(ev) = c.poll(wait)? {
            wait = Duration::ZERO;
            match ev {
                Event::Ping { ack: true, data } => barrier.on_ping_ack(c, data)?,
                Event::Headers { stream, headers, end_stream } => {
                    if let Some(x) = xs.get_mut(&stream) {
                        if end_stream {
                            x.up_done = true;
                        }
                    } else {
                        let path = h2::header_str(&headers, ":path").unwrap_or_default();
                        let Some((id, up, down)) = parse_path(&path) else {
                            shared.corrupt.lock().unwrap().push(format!("body_corrupted|h2c backend: request with unexpected path {path:?}"));
                            continue;
                        };
                        let down_pad = parse_down_pad(&path);
                        if down_pad.is_some() {
                            *rx.stats.adv.entry("padded_download_streams".to_owned()).or_insert(0) += 1;
                        }
                        xs.insert(stream, BackX { id, up, down, got: 0, up_done: end_stream, resp_started: false, sent: 0, done: false, down_pad });
                        shared.prog.lock().unwrap().insert(id, BackProg { conn, ..Default::default() });
                    }
                }
                Event::Data { stream, data, flow_len, end_stream } => {
                    if let Some(x) = xs.get_mut(&stream) {
                        if let Some(k) = keystream_mismatch(x.id, x.got, &data) {
                            if rx.corrupt_at.is_none() {
                                rx.corrupt_at = Some(c.frames_in.len().saturating_sub(1));
                                let lo = k.saturating_sub(8);
                                let hi = (k + 40).min(data.len());
                                let (class, why) = corruption_class(&[x.id], &data[k..], x.up.max(x.down));
                                shared.corrupt.lock().unwrap().push(format!(
                                    "{class}|request body of transfer {} differs from its keystream at offset {} (frame of {} octets, mismatch at +{k}): {why}; received[{lo}..{hi}]={} expected={}",
                                    x.id,
                                    x.got + k as u64,
                                    data.len(),
                                    hex::encode(&data[lo..hi]),
                                    hex::encode(keystream(x.id, x.got + lo as u64, hi - lo))
                                ));
                            }
                        }
                        x.got += data.len() as u64;
                        if end_stream {
                            x.up_done = true;
                            if x.got != x.up as u64 {
                                shared.corrupt.lock().unwrap().push(format!("body_truncated|request body of transfer {} ended after {} of {} octets", x.id, x.got, x.up));
                            }
                        }
                    }
                    rx.after_data(c, stream, flow_len, end_stream)?;
                }
                Event::RstStream { stream, code } => {
                    if let Some(x) = xs.get_mut(&stream) {
                        x.done = true;
                        if let Some(p) = shared.prog.lock().unwrap().get_mut(&x.id) {
                            p.reset = Some(code);
                        }
                    }
                }
                Event::Settings { ack: true, .. } => rx.on_settings_ack(c),
                Event::Closed => return Ok(()),
                _ => {}
            }
        }
        let needs: Vec<(u32, u64)> = xs.iter().filter(|(_, x)| !x.up_done).map(|(s, x)| (*s, (x.up as u64).saturating_sub(x.got))).collect();
        rx.tick(c, &needs)?;
        {
            let mut prog = shared.prog.lock().unwrap();
            for (sid, x) in &xs {
                if let Some(p) = prog.get_mut(&x.id) {
                    p.up_recv = x.got;
                    p.up_done = x.up_done;
                    p.down_sent = x.sent as u64;
                    p.down_done = x.done;
                    p.stream_window = c.streams.get(sid).map(|s| s.recv_window).unwrap_or(0);
                    p.conn_window = c.conn_recv_window;
                    p.send_credit = c.send_credit(*sid);
                    p.flooded = rx.flooded;
                    p.conn_starved = starving_sid == Some(*sid);
                    p.barriers = barrier.completed;
                    if p.conn_starved {
                        (p.conn_credit, p.stream_credit) = starving_credit;
                    } else {
                        p.conn_credit = c.conn_send_window;
                        p.stream_credit = c.streams.get(sid).map(|s| s.send_window).unwrap_or(0);
                    }
                }
            }
        }
        xs.retain(|_, x| !(x.done && x.up_done) || x.got < x.up as u64);
    }
}

// ================================================================================================
// Client side
// ================================================================================================

#[derive(Clone, Debug, Default)]
struct XState {
    id: u64,
    sid: u32,
    up: usize,
    down: usize,
    up_sent: usize,
    status: Option<String>,
    down_recv: usize,
    done: bool,
    exempt: bool,
    failed: Option<String>,
    corrupt_seen: bool,
}

#[derive(Default)]
struct ConnOutcome {
    violations: Vec<(String, String, Vec<String>)>,
    other: Vec<String>,
    stats: SideStats,
    xfers: Vec<XState>,
    /// (class, detail) when the watchdog fired
    stuck: Option<(String, String)>,
    aborted: Vec<(String, String)>,
    corrupt: Vec<String>,
    corrupt_hex: Option<String>,
    /// index (in frames_in) of the first frame whose payload was not the expected keystream
    corrupt_at: Option<usize>,
    harness_error: Option<String>,
    trace_tail: Vec<String>,
    own_window_waits: u64,
    padded_frames: u64,
    padding_octets: u64,
    barriers_run: u64,
    /// (side, detail): connection-window starvation decided by the PING barrier
    starved: Option<(String, String)>,
    after_corruption: u64,
    pending_header: Option<String>,
    uploaded: u64,
    peer_iws: u32,
}

/// `all_consumed`: every octet uploaded on this client connection, on any stream, reached the
/// backend; `all_delivered`: every octet the backend sent on its connection reached this client.
/// A connection window is shared by the streams: while other streams' octets are still inside
/// sozu it is legitimately in use, and a transfer blocked by it alone is not judged on its own.
fn classify_stuck(x: &XState, bp: Option<&BackProg>, c: &H2Conn<tls::TlsClient>, back_h2c: bool, pad: usize, all_consumed: bool, all_delivered: bool) -> (String, String) {
    let Some(bp) = bp else {
        return ("no_backend_stream".to_owned(), format!("transfer {} never reached the backend", x.id));
    };
    let s = c.streams.get(&x.sid);
    if !bp.up_done {
        let (uc, ub) = (x.up_sent as u64, bp.up_recv);
        if ub < uc {
            if !back_h2c || (bp.stream_window > 0 && bp.conn_window > 0) {
                return ("back".to_owned(), format!(
                    "upload of transfer {}: client sent {uc}, backend received {ub}; backend credit stream {} connection {} (flooded {})",
                    x.id, bp.stream_window, bp.conn_window, bp.flooded));
            }
            return ("harness_back_credit".to_owned(), format!("backend windows {} / {} with {} octets held by sozu", bp.stream_window, bp.conn_window, uc - ub));
        }
        if x.up_sent < x.up {
            let credit = c.send_credit(x.sid) - pad as i64;
            let stream_credit = s.map(|s| s.send_window).unwrap_or(0) - pad as i64;
            if credit <= 0 && stream_credit > 0 && !all_consumed {
                return ("shared_window_in_use".to_owned(), format!(
                    "upload of transfer {}: blocked by the connection window ({}) while octets of other streams are still inside sozu", x.id, c.conn_send_window));
            }
            if credit <= 0 {
                return ("own_window_front".to_owned(), format!(
                    "upload of transfer {}: all {uc} octets sent so far reached the backend, sozu's windows towards the client stay closed (stream {} connection {})",
                    x.id, s.map(|s| s.send_window).unwrap_or(0), c.conn_send_window));
            }
            return ("harness_client".to_owned(), format!("client had credit {credit} but did not send"));
        }
        return ("back".to_owned(), format!("upload of transfer {}: all {uc} octets reached the backend but not the end of the request", x.id));
    }
    let (db, dc) = (bp.down_sent, x.down_recv as u64);
    if dc < db {
        let (sw, cw) = (s.map(|s| s.recv_window).unwrap_or(0), c.conn_recv_window);
        if sw > 0 && cw > 0 {
            return ("front".to_owned(), format!(
                "download of transfer {}: backend sent {db}, client received {dc}; client credit stream {sw} connection {cw}", x.id));
        }
        return ("harness_front_credit".to_owned(), format!("client windows {sw} / {cw} with {} octets held by sozu", db - dc));
    }
    if db < x.down as u64 {
        if back_h2c && bp.send_credit <= 0 && bp.stream_credit > 0 && !all_delivered {
            return ("shared_window_in_use".to_owned(), format!(
                "download of transfer {}: the backend is blocked by sozu's connection window ({}) while octets of other streams are still inside sozu", x.id, bp.conn_credit));
        }
        if back_h2c && bp.send_credit <= 0 {
            return ("own_window_back".to_owned(), format!(
                "download of transfer {}: all {db} octets the backend could send reached the client, sozu's windows towards the backend stay closed (credit {})",
                x.id, bp.send_credit));
        }
        return ("harness_backend".to_owned(), format!("backend sent {db} of {} and is not blocked by windows", x.down));
    }
    if x.status.is_none() && x.down == 0 && !bp.down_done {
        return ("harness_backend".to_owned(), "backend did not answer".to_owned());
    }
    ("front".to_owned(), format!("download of transfer {}: all {db} octets reached the client but not the end of the response (status {:?})", x.id, x.status))
}

fn run_conn(plan: &ConnPlan, front: SocketAddr, shared: &Shared, back_h2c: bool, watchdog: Duration) -> ConnOutcome {
    let mut out = ConnOutcome::default();
    let mut rx = Receiver::new(&plan.front);
    let mut cio = plan.front.io.clone();
    cio.sndbuf = 0;
    let tcp = match peers::connect(front, None, &cio, paced(Duration::from_secs(3))) {
        Ok(t) => t,
        Err(e) => {
            out.harness_error = Some(format!("connect: {e}"));
            return out;
        }
    };
    let t = match tls::TlsClient::handshake(tcp, HOST, tls::client_config(&["h2"]), paced(Duration::from_secs(5))) {
        Ok((t, info)) if info.alpn.as_deref() == Some(b"h2") => t,
        Ok(_) => {
            out.harness_error = Some("ALPN h2 not selected".to_owned());
            return out;
        }
        Err(e) => {
            out.harness_error = Some(format!("tls: {e}"));
            return out;
        }
    };
    let mut c = H2Conn::new(t, Role::Client);
    rx.setup(&mut c);
    let mut xs: Vec<XState> = plan.xfers.iter().map(|x| XState { id: x.id, up: x.up, down: x.down, ..Default::default() }).collect();
    let r = client_loop(&mut c, &mut rx, plan, &mut xs, shared, back_h2c, watchdog, &mut out);
    if let Err(e) = r {
        // an I/O error while transfers are pending = the connection went away under us
        for x in xs.iter_mut().filter(|x| !x.done && x.failed.is_none()) {
            x.failed = Some(format!("connection error: {e}"));
        }
    }
    let _ = c.send_goaway(0, h2::ERR_NO_ERROR, b"");
    if c.peer_settings_frames == 0 && c.is_closed() {
        // sozu closed before even sending its SETTINGS: no H2 connection ever existed, nothing of
        // this property can be judged on it
        out.harness_error = Some("closed before sozu's SETTINGS".to_owned());
        out.trace_tail = c.trace_tail(20);
        return out;
    }
    rx.stats.absorb(&c);
    rx.stats.streams = xs.iter().filter(|x| x.sid != 0).count() as u64;
    for v in &c.ledger_violations {
        if out.corrupt_at.is_some_and(|at| v.frame_index >= at) {
            out.after_corruption += 1; // the byte stream is desynchronised from there on
        } else if C14_KINDS.contains(&v.kind) {
            out.violations.push((v.kind.to_owned(), v.detail.clone(), trace_around(&c, v.frame_index)));
        } else {
            out.other.push(format!("{}: {}", v.kind, v.detail));
        }
    }
    out.pending_header = c.pending_header().map(|h| h.describe());
    for x in &xs {
        if let Some(f) = &x.failed {
            if !x.exempt {
                let phase = if shared.prog.lock().unwrap().get(&x.id).is_some_and(|b| b.up_done) { "front" } else { "back" };
                out.aborted.push((phase.to_owned(), format!("transfer {} (stream {}, up {}/{} down {}/{} status {:?}): {f}", x.id, x.sid, x.up_sent, x.up, x.down_recv, x.down, x.status)));
            }
        }
    }
    out.trace_tail = c.trace_tail(ctx_trace_len());
    out.peer_iws = c.peer_settings.initial_window_size;
    out.stats = rx.stats.clone();
    out.xfers = xs;
    out
}


/// HTTP/1.1 keep-alive client over plain TCP: sequential transfers; only the backend leg is H2
fn run_conn_h1(plan: &ConnPlan, front: SocketAddr, shared: &Shared, watchdog: Duration) -> ConnOutcome {
    let mut out = ConnOutcome::default();
    let mut xs: Vec<XState> = plan.xfers.iter().map(|x| XState { id: x.id, up: x.up, down: x.down, ..Default::default() }).collect();
    let io = IoProgram::fast();
    let mut buf = vec![0u8; 65536];
    let soft = |e: &std::io::Error| matches!(e.kind(), std::io::ErrorKind::WouldBlock | std::io::ErrorKind::TimedOut | std::io::ErrorKind::Interrupted);
    // one TCP connection per transfer: sozu answers 502 to every second request of a keep-alive
    // HTTP/1.1 connection towards an H2 backend (not this property's business)
    'xfers: for (i, x) in xs.iter_mut().enumerate() {
        let mut s = match peers::connect(front, None, &io, paced(Duration::from_secs(3))) {
            Ok(s) => s,
            Err(e) => {
                out.harness_error = Some(format!("connect: {e}"));
                return out;
            }
        };
        let _ = s.set_write_timeout(Some(Duration::from_millis(50)));
        let _ = s.set_read_timeout(Some(Duration::from_millis(50)));
        let mut parser = h1::Parser::new(h1::Kind::Response, false);
        let mut write_failed: Option<String> = None;
        x.sid = (i + 1) as u32;
        let xp = &plan.xfers[i];
        let method = if xp.up > 0 { "POST" } else { "GET" };
        let head = format!("{method} /t/{}/{}/{} HTTP/1.1\r\nHost: {HOST}\r\nConnection: close\r\nContent-Length: {}\r\n\r\n", xp.id, xp.up, xp.down, xp.up);
        let mut pending: Vec<u8> = head.into_bytes();
        let mut pending_off = 0usize;
        let mut body_off = 0usize;
        let mut last_progress = Instant::now();
        // request
        loop {
            if pending_off == pending.len() {
                if body_off == xp.up {
                    break;
                }
                let n = (xp.up - body_off).min(plan.up_quantum).min(65_536);
                pending = keystream(xp.id, body_off as u64, n);
                pending_off = 0;
                body_off += n;
            }
            match s.write(&pending[pending_off..]) {
                Ok(0) => {
                    write_failed = Some("connection closed while sending the request".to_owned());
                    break;
                }
                Ok(n) => {
                    pending_off += n;
                    last_progress = Instant::now();
                    x.up_sent = (body_off - (pending.len() - pending_off)).min(xp.up);
                    out.uploaded += n as u64;
                }
                Err(e) if soft(&e) => {}
                Err(e) => {
                    // sozu may have answered early (e.g. 503) and closed: look at the response
                    write_failed = Some(format!("write: {e}"));
                    break;
                }
            }
            if last_progress.elapsed() > watchdog {
                let prog = shared.prog.lock().unwrap();
                out.stuck = Some(match prog.get(&x.id) {
                    Some(bp) if bp.stream_window > 0 && bp.conn_window > 0 => (
                        "back".to_owned(),
                        format!("upload of transfer {} (HTTP/1.1 client): client wrote {}, backend received {}; backend credit stream {} connection {}", x.id, x.up_sent, bp.up_recv, bp.stream_window, bp.conn_window),
                    ),
                    Some(bp) => ("harness_back_credit".to_owned(), format!("backend windows {} / {}", bp.stream_window, bp.conn_window)),
                    None => ("no_backend_stream".to_owned(), format!("transfer {} never reached the backend", x.id)),
                });
                break 'xfers;
            }
        }
        if write_failed.is_none() {
            x.up_sent = xp.up;
        }
        // response
        let mut last_progress = Instant::now();
        loop {
            match s.read(&mut buf) {
                Ok(0) => {
                    if !x.exempt {
                        x.failed = Some(write_failed.clone().unwrap_or_else(|| "connection closed before the end of the response".to_owned()));
                    }
                    continue 'xfers;
                }
                Ok(n) => {
                    last_progress = Instant::now();
                    let Ok(events) = parser.feed(&buf[..n]) else {
                        x.failed = Some("unparsable HTTP/1.1 response".to_owned());
                        continue 'xfers;
                    };
                    for e in events {
                        match e {
                            h1::Event::Head(h) => {
                                x.status = h.status().map(|s| s.to_string());
                                x.exempt = x.status.as_deref() != Some("200");
                            }
                            h1::Event::Body(b) => {
                                if !x.exempt {
                                    if let Some(k) = keystream_mismatch(x.id | DOWN_ID, x.down_recv as u64, &b) {
                                        out.corrupt.push(format!("body_corrupted|response body of transfer {} differs from its keystream at offset {}", x.id, x.down_recv + k));
                                    }
                                }
                                x.down_recv += b.len();
                            }
                            h1::Event::End(_) => {
                                x.done = true;
                                if !x.exempt && x.down_recv != x.down {
                                    out.corrupt.push(format!("body_truncated|response of transfer {} ended after {} of {} octets", x.id, x.down_recv, x.down));
                                }
                            }
                        }
                    }
                    if x.done {
                        break;
                    }
                }
                Err(e) if soft(&e) => {}
                Err(e) => {
                    if !x.exempt {
                        x.failed = Some(write_failed.clone().unwrap_or_else(|| format!("read: {e}")));
                    }
                    continue 'xfers;
                }
            }
            if write_failed.is_some() && last_progress.elapsed() > Duration::from_secs(2) {
                x.failed = write_failed.clone();
                continue 'xfers;
            }
            if last_progress.elapsed() > watchdog {
                let prog = shared.prog.lock().unwrap();
                out.stuck = Some(match prog.get(&x.id) {
                    Some(bp) if !bp.up_done && bp.stream_window > 0 && bp.conn_window > 0 => (
                        "back".to_owned(),
                        format!("upload of transfer {} (HTTP/1.1 client): all {} octets written, backend received {} (end seen: false); backend credit stream {} connection {}", x.id, xp.up, bp.up_recv, bp.stream_window, bp.conn_window),
                    ),
                    Some(bp) if bp.up_done && bp.down_sent == x.down_recv as u64 && bp.down_sent < x.down as u64 && bp.send_credit <= 0 => (
                        "own_window_back".to_owned(),
                        format!("download of transfer {} (HTTP/1.1 client): all {} octets the backend could send reached the client, sozu's windows towards the backend stay closed (credit {})", x.id, bp.down_sent, bp.send_credit),
                    ),
                    Some(bp) => ("h1_front_leg".to_owned(), format!("backend {bp:?}, client received {}", x.down_recv)),
                    None => ("no_backend_stream".to_owned(), format!("transfer {} never reached the backend", x.id)),
                });
                break 'xfers;
            }
        }
    }
    for x in &xs {
        if let Some(f) = &x.failed {
            if !x.exempt {
                let phase = if shared.prog.lock().unwrap().get(&x.id).is_some_and(|b| b.up_done) { "front_h1" } else { "back" };
                out.aborted.push((phase.to_owned(), format!("transfer {} (HTTP/1.1 client, up {}/{} down {}/{} status {:?}): {f}", x.id, x.up_sent, x.up, x.down_recv, x.down, x.status)));
            }
        }
    }
    out.stats.adv.insert("h1_client_connections".to_owned(), 1);
    out.xfers = xs;
    out
}

#[allow(clippy::too_many_arguments)]
fn client_loop(
    c: &mut H2Conn<tls::TlsClient>,
    rx: &mut Receiver,
    plan: &ConnPlan,
    xs: &mut [XState],
    shared: &Shared,
    back_h2c: bool,
    watchdog: Duration,
    out: &mut ConnOutcome,
) -> Result<(), H2Error> {
    c.handshake_client(&plan.front.settings)?;
    let started = Instant::now();
    let mut last_progress = Instant::now();
    let mut next_open = 0usize;
    let mut barrier = Barrier::default();
    // backend-side starvation: barriers the backend had completed when this client first held
    // everything the backend had sent
    let mut back_starved_since: BTreeMap<u64, u64> = BTreeMap::new();
    loop {
        // open streams
        let inflight = xs.iter().filter(|x| x.sid != 0 && !x.done && x.failed.is_none()).count();
        let limit = plan.max_inflight.min(c.peer_settings.max_concurrent_streams as usize);
        let mut room = limit.saturating_sub(inflight);
        while room > 0 && next_open < xs.len() {
            let xp = &plan.xfers[next_open];
            let sid = c.next_stream_id();
            let mut path = format!("/t/{}/{}/{}", xp.id, xp.up, xp.down);
            if let Some((content, pad)) = xp.down_pad {
                path.push_str(&format!("/dp/{content}/{pad}"));
            }
            let cl = xp.up.to_string();
            let mut extra: Vec<(&str, &str)> = vec![("x-c14", "1")];
            if xp.content_length && xp.up > 0 {
                extra.push(("content-length", &cl));
            }
            let method = if xp.up > 0 { "POST" } else { "GET" };
            c.send_headers(sid, &h2::request_headers(method, "https", HOST, &path, &extra), xp.up == 0)?;
            xs[next_open].sid = sid;
            next_open += 1;
            room -= 1;
            last_progress = Instant::now();
        }
        // uploads, obeying sozu's windows, round robin in quanta
        let mut could_send = false;
        for (i, x) in xs.iter_mut().enumerate() {
            if x.sid == 0 || x.up_sent >= x.up || x.failed.is_some() || x.done {
                continue;
            }
            let pad = plan.xfers[i].pad;
            let overhead = pad.map(|p| p as i64 + 1).unwrap_or(0);
            let credit = c.send_credit(x.sid) - overhead;
            if credit <= 0 {
                out.own_window_waits += 1;
                continue;
            }
            // tiny DATA frames only for small bodies: a burst of > 10 000 frames trips sozu's event-loop
            // budget (MAX_LOOP_ITERATIONS), a defence that has nothing to do with the peer's limits
            let quantum = if plan.padded_class || x.up <= 4096 { plan.up_quantum } else { plan.up_quantum.max(16_384) };
            let n = (x.up - x.up_sent).min(quantum).min(credit as usize).min(1 << 18);
            let chunk = keystream(x.id, x.up_sent as u64, n);
            let sent = c.send_data_avail(x.sid, &chunk, x.up_sent + n == x.up, pad)?;
            x.up_sent += sent;
            out.uploaded += sent as u64;
            if sent > 0 && plan.padded_class {
                out.padded_frames += 1;
                out.padding_octets += overhead as u64;
            }
            if sent > 0 {
                last_progress = Instant::now();
                could_send |= x.up_sent < x.up;
            }
        }
        let mut wait = if could_send { Duration::ZERO } else { Duration::from_millis(2) };
        while let Some(ev) = c.poll(wait)? {
            wait = Duration::ZERO;
            match ev {
                Event::Headers { stream, headers, end_stream } => {
                    if let Some(x) = xs.iter_mut().find(|x| x.sid == stream) {
                        last_progress = Instant::now();
                        if let Some(st) = h2::header_str(&headers, ":status") {
                            if !st.starts_with('1') {
                                x.exempt |= st != "200";
                                x.status = Some(st);
                            }
                        }
                        if end_stream {
                            x.done = true;
                            if !x.exempt && x.down_recv != x.down {
                                out.corrupt.push(format!("body_truncated|response of transfer {} ended after {} of {} octets", x.id, x.down_recv, x.down));
                            }
                        }
                    }
                }
                Event::Data { stream, data, flow_len, end_stream } => {
                    if let Some(x) = xs.iter_mut().find(|x| x.sid == stream) {
                        last_progress = Instant::now();
                        if !x.exempt {
                            if let Some(k) = keystream_mismatch(x.id | DOWN_ID, x.down_recv as u64, &data) {
                                if !x.corrupt_seen {
                                    x.corrupt_seen = true;
                                    out.corrupt_at.get_or_insert(c.frames_in.len().saturating_sub(1));
                                    let ids: Vec<u64> = plan.xfers.iter().map(|p| p.id).collect();
                                    let max_len = plan.xfers.iter().map(|p| p.up.max(p.down)).max().unwrap_or(0);
                                    let (class, why) = corruption_class(&ids, &data[k..], max_len);
                                    out.corrupt.push(format!(
                                        "{class}|response body of transfer {} differs from its keystream at offset {} (frame of {} octets, mismatch at +{k}): {why}",
                                        x.id, x.down_recv + k, data.len()
                                    ));
                                    let lo = k.saturating_sub(8);
                                    let hi = (k + 40).min(data.len());
                                    out.corrupt_hex = Some(format!(
                                        "received[{lo}..{hi}]={} expected={}",
                                        hex::encode(&data[lo..hi]),
                                        hex::encode(keystream(x.id | DOWN_ID, (x.down_recv + lo) as u64, hi - lo))
                                    ));
                                }
                            }
                        }
                        x.down_recv += data.len();
                        if end_stream {
                            x.done = true;
                            if !x.exempt && x.down_recv != x.down {
                                out.corrupt.push(format!("body_truncated|response of transfer {} ended after {} of {} octets", x.id, x.down_recv, x.down));
                            }
                        }
                    }
                    rx.after_data(c, stream, flow_len, end_stream)?;
                }
                Event::RstStream { stream, code } => {
                    if let Some(x) = xs.iter_mut().find(|x| x.sid == stream) {
                        if !x.done {
                            x.failed = Some(format!("RST_STREAM code {code}"));
                        }
                    }
                }
                Event::GoAway { last, code, debug } => {
                    if code != h2::ERR_NO_ERROR {
                        for x in xs.iter_mut().filter(|x| x.sid != 0 && !x.done && x.failed.is_none()) {
                            x.failed = Some(format!("GOAWAY code {code} last {last} debug {:?}", String::from_utf8_lossy(&debug)));
                        }
                    }
                }
                Event::Settings { ack: true, .. } => rx.on_settings_ack(c),
                Event::Ping { ack: true, data } => barrier.on_ping_ack(c, data)?,
                Event::Closed => {
                    for x in xs.iter_mut().filter(|x| !x.done && x.failed.is_none()) {
                        x.failed = Some(format!("connection closed by sozu ({:?})", c.close_kind));
                    }
                    return Ok(());
                }
                _ => {}
            }
        }
        let needs: Vec<(u32, u64)> = xs
            .iter()
            .filter(|x| x.sid != 0 && !x.done && x.failed.is_none() && !x.exempt)
            .map(|x| (x.sid, (x.down as u64).saturating_sub(x.down_recv as u64)))
            .collect();
        rx.tick(c, &needs)?;
        // exempt (non-200) streams still need credit for their error bodies
        if xs.iter().any(|x| x.exempt && !x.done && x.failed.is_none()) {
            let mut frames = Vec::new();
            if c.conn_recv_window < 65_535 {
                frames.push(Frame::window_update(0, 1 << 20));
            }
            for x in xs.iter().filter(|x| x.exempt && !x.done && x.failed.is_none()) {
                if c.streams.get(&x.sid).is_some_and(|s| s.recv_window < 65_535 && !s.remote_end) {
                    frames.push(Frame::window_update(x.sid, 1 << 20));
                }
            }
            if !frames.is_empty() {
                c.send_frames(&frames)?;
            }
        }
        // ---- sozu's own connection window must not starve a compliant sender -------------------
        // front: an upload cannot send one more octet because of the connection window alone, and
        // every octet sent so far (on all uploads of the connection) has reached the backend
        {
            let mut starving: Option<String> = None;
            let uploading: Vec<usize> = (0..xs.len()).filter(|i| xs[*i].sid != 0 && xs[*i].up_sent < xs[*i].up && xs[*i].failed.is_none() && !xs[*i].done).collect();
            if !uploading.is_empty() {
                let blocked_by_conn = uploading.iter().all(|i| {
                    let overhead = plan.xfers[*i].pad.map(|p| p as i64 + 1).unwrap_or(0);
                    let stream_w = c.streams.get(&xs[*i].sid).map(|s| s.send_window).unwrap_or(0);
                    c.conn_send_window - overhead <= 0 && stream_w - overhead > 0
                });
                if blocked_by_conn {
                    let prog = shared.prog.lock().unwrap();
                    let all_consumed = xs.iter().filter(|x| x.sid != 0 && x.up > 0).all(|x| prog.get(&x.id).is_some_and(|b| b.up_recv == x.up_sent as u64));
                    if all_consumed {
                        let x = &xs[uploading[0]];
                        starving = Some(format!(
                            "upload of transfer {} (stream {}): {} of {} octets sent and all of them received by the backend; connection credit left {} (a frame needs {} + 1), stream credit {}; {} flow-controlled octets sent on the connection so far",
                            x.id, x.sid, x.up_sent, x.up, c.conn_send_window,
                            plan.xfers[uploading[0]].pad.map(|p| p as i64 + 1).unwrap_or(0),
                            c.streams.get(&x.sid).map(|s| s.send_window).unwrap_or(0),
                            c.trace.iter().filter(|t| !t.inbound && t.frame.typ == h2::FT_DATA).map(|t| t.frame.len as u64).sum::<u64>()
                        ));
                    }
                }
            }
            let was_active = barrier.active;
            if barrier.step(c, starving.is_some())? {
                out.barriers_run += 1;
                out.starved = Some(("front".to_owned(), starving.unwrap_or_default()));
                return Ok(());
            }
            if !was_active && barrier.active {
                out.barriers_run += 1;
            }
        }
        // back: the h2c backend reports that it is starved of connection credit by sozu; it counts
        // once this client holds every octet the backend sent and a whole barrier went by after that
        {
            let prog = shared.prog.lock().unwrap();
            for x in xs.iter().filter(|x| x.sid != 0 && !x.done && x.failed.is_none()) {
                let Some(b) = prog.get(&x.id) else { continue };
                // the connection window is shared: every octet the backend sent on that backend
                // connection, on any stream, must have reached this client
                let all_delivered = xs.iter().filter(|y| y.sid != 0).all(|y| prog.get(&y.id).is_none_or(|bb| bb.conn != b.conn || bb.down_sent == y.down_recv as u64));
                if b.conn_starved && all_delivered && b.down_sent < x.down as u64 {
                    let since = *back_starved_since.entry(x.id).or_insert(b.barriers);
                    if b.barriers >= since + 2 {
                        out.starved = Some((
                            "back".to_owned(),
                            format!(
                                "download of transfer {}: the backend sent {} of {} octets and everything it sent on this connection reached the client; the backend's connection credit from sozu is {} (stream credit {}), not enough for one more frame over {} PING barriers",
                                x.id, b.down_sent, x.down, b.conn_credit, b.stream_credit, b.barriers - since
                            ),
                        ));
                    }
                } else {
                    back_starved_since.remove(&x.id);
                }
            }
        }
        if out.starved.is_some() {
            return Ok(());
        }
        if next_open == xs.len() && xs.iter().all(|x| x.done || x.failed.is_some()) {
            return Ok(());
        }
        let connection_deadline = paced(Duration::from_secs(CONNECTION_DEADLINE_S.load(Ordering::SeqCst)));
        if started.elapsed() > connection_deadline {
            out.stuck = Some(("connection_deadline".to_owned(), format!("still progressing after {connection_deadline:?}")));
            return Ok(());
        }
        if last_progress.elapsed() > watchdog {
            let prog = shared.prog.lock().unwrap();
            let all_consumed = xs.iter().filter(|y| y.sid != 0 && y.up_sent > 0).all(|y| prog.get(&y.id).is_some_and(|b| b.up_recv == y.up_sent as u64));
            let all_delivered = xs.iter().filter(|y| y.sid != 0).all(|y| prog.get(&y.id).is_none_or(|b| b.down_sent == y.down_recv as u64));
            let mut best: Option<(String, String)> = None;
            for (i, x) in xs.iter().enumerate() {
                if x.sid == 0 || x.done || x.failed.is_some() {
                    continue;
                }
                if x.exempt {
                    best.get_or_insert(("exempt_status".to_owned(), format!("transfer {} answered {:?}", x.id, x.status)));
                    continue;
                }
                let pad = plan.xfers[i].pad.map(|p| p as usize + 1).unwrap_or(0);
                let cls = classify_stuck(x, prog.get(&x.id), c, back_h2c, pad, all_consumed, all_delivered);
                let decisive = !cls.0.starts_with("harness") && cls.0 != "no_backend_stream" && cls.0 != "shared_window_in_use";
                if decisive {
                    best = Some(cls);
                    break;
                }
                best.get_or_insert(cls);
            }
            out.stuck = best.or(Some(("unopened".to_owned(), "streams could not be opened".to_owned())));
            return Ok(());
        }
    }
}


// ================================================================================================
// Pace: how slow is this machine right now? A calibration cell (fixed plan, run alone before the
// generated cells) is timed; every wall-clock allowance of the check (watchdogs, connect and
// handshake timeouts, the per-connection deadline) is multiplied by the measured slowdown, and the
// number of cells run side by side shrinks with it. Clocks never decide a verdict here: an expired
// watchdog only makes a candidate, and candidates are decided by re-running the cell alone.
// ================================================================================================

static PACE_X100: std::sync::atomic::AtomicU64 = std::sync::atomic::AtomicU64::new(100);
/// a connection that still makes progress after this long (times the pace) is given up (not judged)
static CONNECTION_DEADLINE_S: std::sync::atomic::AtomicU64 = std::sync::atomic::AtomicU64::new(90);

/// what the calibration cell takes on an idle 16-core machine (worker start, 8 configuration
/// calls, TLS handshake, 1 MiB through sozu): 25-35 ms
const CALIBRATION_REFERENCE_MS: u64 = 50;

fn pace() -> f64 {
    PACE_X100.load(Ordering::SeqCst) as f64 / 100.0
}

fn paced(d: Duration) -> Duration {
    d.mul_f64(pace())
}

fn calibration_plan() -> CellPlan {
    let peer = |settings: Vec<(u16, u32)>| PeerPlan {
        settings,
        grant: Grant::Burst,
        changes: Vec::new(),
        io: IoProgram::fast(),
        quiet_ms: 3,
        literal_hpack: false,
    };
    let xfers = (1..=2u64)
        .map(|id| Xfer { id, up: 262_144, down: 262_144, pad: None, content_length: true, down_pad: None })
        .collect();
    CellPlan {
        case: u64::MAX,
        back_h2c: false,
        back: vec![peer(Vec::new())],
        h1_io: IoProgram::fast(),
        conns: vec![ConnPlan {
            front_h1: false,
            front: peer(vec![(h2::SET_ENABLE_PUSH, 0), (h2::SET_INITIAL_WINDOW_SIZE, 1 << 20)]),
            xfers,
            max_inflight: 2,
            up_quantum: 16_384,
            padded_class: false,
        }],
        front_sndbuf: None,
        back_sndbuf: None,
        own_conn_window: None,
        buffer_size: 16_393,
    }
}

/// run the calibration cell (twice, the faster one counts) and set the pace; returns (ms, pace)
fn calibrate(ctx: &Ctx, force: Force) -> (u64, f64) {
    let mut best = u64::MAX;
    for _ in 0..2 {
        let mut scratch = Report::new("exploration", "calibration");
        let t0 = Instant::now();
        let r = run_plan(ctx, force, ctx.seed, calibration_plan(), &mut scratch, true);
        if r.clean {
            best = best.min(t0.elapsed().as_millis() as u64);
        }
    }
    if best == u64::MAX {
        // could not even complete the calibration transfer: assume the slowest pace
        best = CALIBRATION_REFERENCE_MS * 8;
    }
    let pace_x100 = (best * 100 / CALIBRATION_REFERENCE_MS).clamp(100, 800);
    PACE_X100.store(ctx.opt_u64("pace_x100", pace_x100), Ordering::SeqCst);
    (best, pace())
}

// ================================================================================================
// Cell
// ================================================================================================

struct Stuck {
    case: u64,
    class: String,
    detail: String,
    witness: Value,
    /// a class that can never become a violation (harness-side or unattributable); re-running the
    /// cell alone can still decide it: if everything completes there, the first run was a load artefact
    soft: bool,
}

/// what one execution of a cell produced besides the entries in the report
struct CellResult {
    stuck: Vec<Stuck>,
    /// every planned connection ran and every transfer on it ended (done or exempt): nothing
    /// stuck, aborted, refused or lost
    clean: bool,
}

fn fingerprint(plan: &CellPlan, cp: &ConnPlan) -> u64 {
    let bucket = |n: usize| -> usize { if n == 0 { 0 } else { 64 - (n as u64).leading_zeros() as usize } };
    let mut s = format!("{}{}{}|{:?}|{}|{}|", cp.front_h1, cp.padded_class, plan.back_h2c, cp.front.settings, cp.front.grant.name(), cp.front.changes.len());
    if cp.padded_class {
        s.push_str(&format!("{}|{:?}|{:?}|", cp.up_quantum, cp.xfers[0].pad, cp.xfers[0].down_pad));
    }
    s.push_str(&format!("{:?}|{}|", plan.back.iter().map(|b| (b.settings.clone(), b.grant.name())).collect::<Vec<_>>(), bucket(cp.xfers.len())));
    for x in &cp.xfers {
        s.push_str(&format!("{}.{},", bucket(x.up), bucket(x.down)));
    }
    crate::common::rng::fnv1a(s.as_bytes())
}

/// pairing restriction from `--opt backend=h1|h2c` / `--opt front=h1|h2` (stored in every witness so
/// that a replay regenerates the same cell)
#[derive(Clone, Copy, Debug, Default)]
struct Force {
    back_h2c: Option<bool>,
    front_h1: Option<bool>,
    thorough: bool,
}

impl Force {
    fn from_ctx(ctx: &Ctx) -> Force {
        Force {
            back_h2c: ctx.opt("backend").map(|b| b == "h2c"),
            front_h1: ctx.opt("front").map(|f| f == "h1"),
            thorough: ctx.tier == crate::common::Tier::Thorough,
        }
    }
    fn json(&self) -> Value {
        json!({"backend_h2c": self.back_h2c, "front_h1": self.front_h1, "thorough_sizes": self.thorough})
    }
    fn from_json(v: &Value, fallback: Force) -> Force {
        if !v.is_object() {
            return fallback;
        }
        Force {
            back_h2c: v["backend_h2c"].as_bool(),
            front_h1: v["front_h1"].as_bool(),
            thorough: v["thorough_sizes"].as_bool().unwrap_or(fallback.thorough),
        }
    }
}

fn run_cell(ctx: &Ctx, force: Force, seed: u64, case: u64, rep: &mut Report, solo: bool) -> CellResult {
    let plan = gen_cell(seed, case, force.thorough, force.back_h2c, force.front_h1);
    run_plan(ctx, force, seed, plan, rep, solo)
}

fn run_plan(ctx: &Ctx, force: Force, seed: u64, plan: CellPlan, rep: &mut Report, solo: bool) -> CellResult {
    let case = plan.case;
    let mut stuck_out = Vec::new();
    let mut clean = true;
    // an execution that could not be judged: decided later by running the cell alone
    let soft = |class: &str, detail: String, witness: Value| Stuck { case, class: class.to_owned(), detail, witness, soft: true };
    let ip = lab::fresh_ip();
    let front = lab::sa(ip, 8443);
    let front_plain = lab::sa(ip, 8080);
    let back = lab::sa(ip, 9000);
    let shared = Arc::new(Shared::default());
    let backend = if plan.back_h2c { h2c_backend(back, plan.back.clone(), shared.clone()) } else { h1_backend(back, plan.h1_io.clone(), shared.clone()) };
    let mut backend = match backend {
        Ok(b) => b,
        Err(e) => {
            stuck_out.push(soft("backend_bind", format!("{}", e.kind()), json!({"case": case, "seed": seed, "generator": force.json()})));
            return CellResult { stuck: stuck_out, clean: false };
        }
    };
    let mut opts = WorkerOpts {
        front_timeout: 600,
        back_timeout: 600,
        request_timeout: 600,
        connect_timeout: 5,
        buffer_size: plan.buffer_size,
        ..WorkerOpts::default()
    };
    if let Some(v) = plan.front_sndbuf {
        opts.knobs.push(("front_sndbuf".to_owned(), v));
    }
    if let Some(v) = plan.back_sndbuf {
        opts.knobs.push(("back_sndbuf".to_owned(), v));
    }
    let mut w = Worker::start(opts);
    let cert = std::fs::read_to_string("/repo/lib/assets/certificate.pem").unwrap_or_default();
    let key = std::fs::read_to_string("/repo/lib/assets/key.pem").unwrap_or_default();
    let own = plan.own_conn_window;
    let ok = w.add_https_listener(front, |b| {
        // documented defences that legitimately cancel slow peers / chatty peers: out of the way
        b.h2_stream_idle_timeout_seconds = Some(3600);
        b.h2_max_window_update_stream0_per_window = Some(1_000_000);
        b.h2_max_settings_per_window = Some(100_000);
        b.h2_max_ping_per_window = Some(100_000);
        b.h2_max_glitch_count = Some(1_000_000);
        b.h2_max_empty_data_per_window = Some(100_000);
        b.h2_initial_connection_window = own;
        b.front_timeout = Some(600);
        b.back_timeout = Some(600);
        b.request_timeout = Some(600);
        b.connect_timeout = Some(5);
    }) && w.add_http_listener(front_plain, |b| {
        b.h2_stream_idle_timeout_seconds = Some(3600);
        b.h2_max_window_update_stream0_per_window = Some(1_000_000);
        b.h2_max_settings_per_window = Some(100_000);
        b.h2_max_ping_per_window = Some(100_000);
        b.h2_max_glitch_count = Some(1_000_000);
        b.h2_max_empty_data_per_window = Some(100_000);
        b.h2_initial_connection_window = own;
        b.front_timeout = Some(600);
        b.back_timeout = Some(600);
        b.request_timeout = Some(600);
        b.connect_timeout = Some(5);
    }) && w.add_http_frontend(Worker::http_frontend("c", front_plain, HOST, "/"))
        && w.add_cluster(Cluster { cluster_id: "c".into(), http2: plan.back_h2c.then_some(true), ..Default::default() })
        && w.add_https_frontend(Worker::http_frontend("c", front, HOST, "/"))
        && w.add_backend("c", "b0", back)
        && w.add_certificate(front, &cert, vec![], &key, vec![HOST.into()]);
    if !ok {
        stuck_out.push(soft("configuration_not_applied", "a configuration request was not answered Ok in time".to_owned(), json!({"case": case, "seed": seed, "generator": force.json()})));
        w.stop();
        backend.stop();
        return CellResult { stuck: stuck_out, clean: false };
    }
    // no-progress allowance; side by side the cells also slow each other down, hence twice the pace
    let watchdog = match ctx.opts.get("watchdog_ms").and_then(|v| v.parse().ok()) {
        Some(ms) => Duration::from_millis(ms),
        None if solo => paced(Duration::from_secs(8)).min(Duration::from_secs(40)),
        None => paced(Duration::from_secs(4)).mul_f64(if pace() > 1.5 { 2.0 } else { 1.0 }).min(Duration::from_secs(30)),
    };
    let mut front_stats = SideStats::default();
    let back_zero = plan.back_h2c
        && plan.back.iter().any(|b| {
            b.settings.iter().chain(b.changes.iter().flat_map(|c| c.values.iter())).any(|(k, v)| *k == h2::SET_MAX_CONCURRENT_STREAMS && *v == 0)
        });
    for (ci, cp) in plan.conns.iter().enumerate() {
        let o = if cp.front_h1 { run_conn_h1(cp, front_plain, &shared, watchdog) } else { run_conn(cp, front, &shared, plan.back_h2c, watchdog) };
        rep.obs(if cp.front_h1 { "connections.h1_front" } else { "connections.h2_front" }, 1);
        let nontrivial = cp.xfers.iter().any(|x| x.up + x.down > 0);
        rep.case(fingerprint(&plan, cp), nontrivial);
        if rep.samples.is_empty() && nontrivial && ci == 0 {
            rep.sample(json!({"case": case, "conn": ci, "plan": plan_json(&plan)}));
        }
        merge_stats(&mut front_stats, &o.stats);
        rep.obs("front.own_window_waits", o.own_window_waits);
        rep.obs("front.bytes_uploaded_under_sozu_windows", o.uploaded);
        rep.obs("connection_window_starvation_barriers_started", o.barriers_run);
        if cp.padded_class && o.harness_error.is_none() {
            let window = plan.own_conn_window.unwrap_or(1 << 20) as u64;
            if cp.xfers.iter().any(|x| x.pad.is_some()) {
                rep.obs("front.padded_upload_connections", 1);
                rep.obs("front.padded_upload_frames", o.padded_frames);
                rep.obs("front.padding_octets_sent", o.padding_octets);
                rep.obs_max("front.padding_over_own_connection_window_x10", o.padding_octets * 10 / window);
                if o.padding_octets >= 2 * window {
                    rep.obs("front.padded_upload_connections_with_padding_over_twice_the_window", 1);
                }
            }
            if cp.xfers.iter().any(|x| x.down_pad.is_some()) {
                rep.obs("back.padded_download_connections", 1);
                let got: u64 = o.xfers.iter().filter(|x| x.done && !x.exempt).map(|x| x.down_recv as u64).sum();
                let (content, pad) = cp.xfers.iter().find_map(|x| x.down_pad).unwrap_or((1, 0));
                // padding the backend had to send for what arrived (one pad length octet + padding per frame)
                let padding = got.div_ceil(content.max(1) as u64) * (pad as u64 + 1);
                rep.obs("back.padding_octets_received_by_sozu", padding);
                rep.obs_max("back.padding_over_own_connection_window_x10", padding * 10 / window);
                if padding >= 2 * window {
                    rep.obs("back.padded_download_connections_with_padding_over_twice_the_window", 1);
                }
            }
        }
        let base = json!({"case": case, "seed": seed, "generator": force.json(), "conn": ci, "plan": plan_json(&plan)});
        let with = |extra: Value| -> Value {
            let mut b = base.clone();
            if let (Some(m), Some(e)) = (b.as_object_mut(), extra.as_object()) {
                for (k, v) in e {
                    m.insert(k.clone(), v.clone());
                }
            }
            b
        };
        if let Some(e) = &o.harness_error {
            clean = false;
            stuck_out.push(soft(
                "no_h2_connection",
                e.split(':').next().unwrap_or("").to_owned(),
                with(json!({"no_h2_connection": e, "client_io": cp.front.io.describe(), "frame_trace": o.trace_tail})),
            ));
            continue;
        }
        for (kind, detail, trace) in &o.violations {
            rep.violation(
                &format!("h2limits/{kind}/front"),
                &format!("towards the H2 client: {detail}"),
                with(json!({"expected": "every frame within the limits the client advertised", "observed": detail, "frame_trace": trace})),
            );
        }
        // (limit violations seen by the ledger are verdicts of their own and do not keep the
        // transfers from completing: they do not make an execution "not completed")
        if o.starved.is_some() || !o.corrupt.is_empty() {
            clean = false;
        }
        if let Some((side, detail)) = &o.starved {
            rep.violation(
                &format!("h2limits/own_connection_window_not_replenished/{side}"),
                &format!("sozu's own connection-level receive window starves a compliant sender: {detail}"),
                with(json!({"expected": "after sozu consumed everything it was sent, a WINDOW_UPDATE on stream 0 gives the flow-controlled octets back (pad length octet and padding included, RFC 9113 6.1 / 6.9.1) before two PING round trips complete",
                    "observed": detail, "frame_trace": o.trace_tail,
                    "backend_view": format!("{:?}", shared.prog.lock().unwrap().iter().filter(|(_, b)| !b.down_done || !b.up_done).take(4).collect::<Vec<_>>())})),
            );
        }
        for d in &o.other {
            rep.obs("front.other_ledger_findings", 1);
            rep.sample(json!({"case": case, "conn": ci, "other_ledger_finding_front": d}));
        }
        rep.obs("front.ledger_findings_after_corruption_ignored", o.after_corruption);
        for d in &o.corrupt {
            let (class, d) = d.split_once('|').unwrap_or(("body_corrupted", d));
            rep.violation(
                &format!("h2limits/{class}/front"),
                d,
                with(json!({"expected": "response body == keystream, END_STREAM after the last octet", "observed": d, "bytes": o.corrupt_hex, "frame_trace": o.trace_tail})),
            );
        }
        let mut completed = 0u64;
        for x in &o.xfers {
            if x.done && !x.exempt && x.failed.is_none() {
                completed += 1;
                if x.up > 65_535 {
                    rep.obs("front.uploads_larger_than_sozu_initial_window_completed", 1);
                }
            }
            if x.exempt {
                rep.obs(&format!("exempt.status_{}", x.status.clone().unwrap_or_default()), 1);
            }
        }
        rep.obs("transfers_completed", completed);
        for (phase, d) in &o.aborted {
            if back_zero {
                rep.obs("exempt.aborted_with_backend_max_concurrent_0", 1);
                continue;
            }
            if !o.corrupt.is_empty() || !shared.corrupt.lock().unwrap().is_empty() {
                rep.obs("aborted_after_corruption", 1); // consequence of the desynchronised stream
                clean = false;
                continue;
            }
            // an abort counts only when it happens again alone (load / close races are not verdicts)
            clean = false;
            stuck_out.push(Stuck {
                case,
                class: format!("aborted_{phase}"),
                detail: d.clone(),
                witness: with(json!({"expected": "transfer completes", "observed": d, "frame_trace": o.trace_tail,
                    "backend": format!("{:?}", shared.prog.lock().unwrap())})),
                soft: false,
            });
        }
        if let Some((class, detail)) = &o.stuck {
            clean = false;
            let decisive = matches!(class.as_str(), "front" | "back" | "own_window_front" | "own_window_back");
            let unfinished: Vec<u64> = o.xfers.iter().filter(|x| x.sid != 0 && !x.done).map(|x| x.id).collect();
            let xfers_txt = format!("{:?}", o.xfers.iter().filter(|x| x.sid != 0 && !x.done).take(8).collect::<Vec<_>>());
            let back_txt = format!("{:?}", shared.prog.lock().unwrap().iter().filter(|(k, _)| unfinished.contains(k)).take(8).collect::<Vec<_>>());
            if !o.corrupt.is_empty() || !shared.corrupt.lock().unwrap().is_empty() {
                // the byte stream was corrupted earlier: the receiver is desynchronised, a stall follows
                rep.obs("stuck_after_corruption", 1);
            } else if decisive && !(back_zero && class == "back") {
                stuck_out.push(Stuck {
                    case,
                    class: class.clone(),
                    detail: detail.clone(),
                    witness: with(json!({"expected": "transfer completes once credit >= remaining body was granted",
                        "observed": detail, "frame_trace": o.trace_tail, "client_incomplete_frame": o.pending_header,
                        "unfinished_transfers": xfers_txt, "backend_view_of_them": back_txt,
                        "backend_incomplete_frames": format!("{:?}", shared.back_pending_headers.lock().unwrap())})),
                    soft: false,
                });
            } else if back_zero {
                rep.obs("exempt.stuck_with_backend_max_concurrent_0", 1);
            } else {
                stuck_out.push(soft(class, detail.clone(), with(json!({"watchdog": class, "detail": detail, "frame_trace": o.trace_tail}))));
            }
            break; // the worker is in an unknown state for the following connections
        }
    }
    // collect the backend side
    shared.stop.store(true, Ordering::SeqCst);
    let t0 = Instant::now();
    while shared.live_conns.load(Ordering::SeqCst) > 0 && t0.elapsed() < Duration::from_secs(3) {
        std::thread::sleep(Duration::from_millis(5));
    }
    let counters = w.probe.counters();
    let panics = w.stop();
    backend.stop();
    for p in panics {
        if p.in_sozu() {
            clean = false;
            rep.violation(&p.signature(), &format!("sozu panicked: {} at {}", p.message, p.location), json!({"case": case, "seed": seed, "generator": force.json(), "plan": plan_json(&plan)}));
        } else {
            // e.g. kawa-0.6.8 storage/repr.rs:612 `amount - data.len() + index`: an intermediate
            // underflow that only the verif profile's overflow-checks turn into a panic (the release
            // build wraps back to the right value). Not sozu's code, not a verdict; the cell is lost.
            clean = false;
            stuck_out.push(soft(
                "dependency_panic",
                format!("{} at {}", p.message, p.location),
                json!({"case": case, "seed": seed, "generator": force.json(), "worker_panic_outside_repo": p.location, "message": p.message}),
            ));
        }
    }
    for (kind, detail, trace, conn) in shared.back_violations.lock().unwrap().iter() {
        rep.violation(
            &format!("h2limits/{kind}/back"),
            &format!("towards the h2c backend: {detail}"),
            json!({"case": case, "seed": seed, "generator": force.json(), "backend_conn": conn, "plan": plan_json(&plan),
                "expected": "every frame within the limits the backend advertised", "observed": detail, "frame_trace": trace}),
        );
    }
    rep.obs("back.ledger_findings_after_corruption_ignored", shared.back_after_corruption.load(Ordering::SeqCst) as u64);
    for d in shared.back_other.lock().unwrap().iter() {
        rep.obs("back.other_ledger_findings", 1);
        rep.sample(json!({"case": case, "other_ledger_finding_back": d}));
    }
    for d in shared.corrupt.lock().unwrap().iter() {
        let (class, d) = d.split_once('|').unwrap_or(("body_corrupted", d));
        rep.violation(
            &format!("h2limits/{class}/back"),
            d,
            json!({"case": case, "seed": seed, "generator": force.json(), "plan": plan_json(&plan), "expected": "request body == keystream", "observed": d}),
        );
    }
    front_stats.publish("front", rep);
    if plan.back_h2c {
        shared.back_stats.lock().unwrap().publish("back", rep);
        rep.obs("cells.h2c_backend", 1);
    } else {
        rep.obs("cells.h1_backend", 1);
    }
    for (k, v) in counters {
        if k.ends_with(".wouldblock") || k.ends_with(".partial") {
            rep.obs(&format!("sozu.{k}"), v);
            if v > 0 {
                rep.obs(&format!("cells_with.sozu.{k}"), 1);
            }
        }
    }
    if !shared.corrupt.lock().unwrap().is_empty() {
        clean = false;
    }
    CellResult { stuck: stuck_out, clean }
}


// ================================================================================================
// Deterministic reproduction: sozu's H2 client side loses sync on valid frames from an h2c backend
// (`vh C14 --opt repro=zero`). Scenario A: HEADERS + empty DATA(END_STREAM) + WINDOW_UPDATE in one
// write; scenario B: a body sent as many DATA frames of 1/9/100 octets written in 4-octet segments.
// ================================================================================================

fn repro_zero(rep: &mut Report) {
    let ip = lab::fresh_ip();
    let front = lab::sa(ip, 8443);
    let back = lab::sa(ip, 9000);
    let goaways: Arc<Mutex<Vec<String>>> = Arc::new(Mutex::new(Vec::new()));
    let g2 = goaways.clone();
    let backend = BackendServer::start(back, IoProgram::fast(), move |s, conn| {
        let mut c = H2Conn::new(s, Role::Server);
        c.auto_ack = true;
        c.replenish = Replenish::Immediately;
        c.read_timeout = Duration::from_secs(5);
        if c.handshake_server(&[]).is_err() {
            return;
        }
        let mut uploads = std::collections::BTreeSet::new();
        loop {
            match c.poll(Duration::from_secs(10)) {
                Ok(Some(Event::Headers { stream, end_stream: false, .. })) => {
                    uploads.insert(stream);
                }
                Ok(Some(Event::Data { stream, end_stream: true, .. })) if uploads.contains(&stream) => {
                    let block = c.enc.encode(&h2::response_headers(200, &[]));
                    if c.send_frames(&[Frame::headers(stream, &block, true, true)]).is_err() {
                        break;
                    }
                }
                Ok(Some(Event::Headers { stream, headers, end_stream: true })) => {
                    let path = h2::header_str(&headers, ":path").unwrap_or_default();
                    let block = c.enc.encode(&h2::response_headers(200, &[]));
                    let r = if path.starts_with("/a") {
                        c.io_prog.write_seg = 5;
                        c.io_prog.write_pause_us = 150;
                        let r = c.send_frames(&[
                            Frame::headers(stream, &block, false, true),
                            Frame::data(stream, &[], true, None),
                            Frame::window_update(stream, 512),
                        ]);
                        c.io_prog.write_seg = 0;
                        c.io_prog.write_pause_us = 0;
                        r
                    } else {
                        // scenario B: 3000 octets in DATA frames of 1, 9, 100 octets, 4-octet TCP segments
                        let body = keystream(7, 0, 3000);
                        let mut frames = vec![Frame::headers(stream, &block, false, true)];
                        let mut off = 0;
                        let mut k = 0;
                        while off < body.len() {
                            let n = [1usize, 9, 100][k % 3].min(body.len() - off);
                            frames.push(Frame::data(stream, &body[off..off + n], off + n == body.len(), None));
                            off += n;
                            k += 1;
                        }
                        c.io_prog.write_seg = 4;
                        c.io_prog.write_pause_us = 150;
                        let r = c.send_frames(&frames);
                        c.io_prog.write_seg = 0;
                        c.io_prog.write_pause_us = 0;
                        r
                    };
                    if r.is_err() {
                        break;
                    }
                }
                Ok(Some(Event::GoAway { last, code, debug })) => {
                    g2.lock().unwrap().push(format!("backend conn {conn}: GOAWAY from sozu code {code} last {last} {:?}; last frames {:?}", String::from_utf8_lossy(&debug), c.trace_tail(8)));
                }
                Ok(Some(Event::Closed)) | Ok(None) | Err(_) => break,
                Ok(Some(_)) => {}
            }
        }
    });
    let Ok(mut backend) = backend else {
        rep.broken("repro: backend bind failed");
        return;
    };
    let mut w = Worker::start(WorkerOpts { knobs: vec![("back_sndbuf".to_owned(), 4096)], ..WorkerOpts::default() });
    let cert = std::fs::read_to_string("/repo/lib/assets/certificate.pem").unwrap_or_default();
    let key = std::fs::read_to_string("/repo/lib/assets/key.pem").unwrap_or_default();
    let ok = w.add_https_listener(front, |b| {
        b.h2_max_glitch_count = Some(1_000_000);
    }) && w.add_cluster(Cluster { cluster_id: "c".into(), http2: Some(true), ..Default::default() })
        && w.add_https_frontend(Worker::http_frontend("c", front, HOST, "/"))
        && w.add_backend("c", "b0", back)
        && w.add_certificate(front, &cert, vec![], &key, vec![HOST.into()]);
    if !ok {
        rep.broken("repro: configuration refused");
        return;
    }
    for (scenario, path, expect_len) in [("A_empty_data_then_window_update", "/a", 0usize), ("B_small_data_frames", "/b", 3000)] {
        let mut failures = Vec::new();
        let mut good = 0u64;
        let tcp = peers::connect(front, None, &IoProgram::fast(), Duration::from_secs(3));
        let Ok(tcp) = tcp else { continue };
        let Ok((t, _)) = tls::TlsClient::handshake(tcp, HOST, tls::client_config(&["h2"]), Duration::from_secs(5)) else { continue };
        let mut c = H2Conn::new(t, Role::Client);
        c.auto_ack = true;
        // no per-frame WINDOW_UPDATE from the client (it would trip sozu's glitch counter on closed
        // streams): one big connection grant, 3000-octet bodies fit the default stream window
        c.replenish = Replenish::Never;
        let _ = c.handshake_client(&[(h2::SET_ENABLE_PUSH, 0)]);
        let _ = c.send_window_update(0, 1 << 24);
        'req: for i in 0..12 {
            let sid = c.next_stream_id();
            if c.send_headers(sid, &h2::request_headers("GET", "https", HOST, &format!("{path}/{i}"), &[]), true).is_err() {
                failures.push(format!("request {i}: cannot send"));
                break;
            }
            let mut status = None;
            let mut got = 0usize;
            let deadline = Instant::now() + Duration::from_secs(5);
            loop {
                match c.poll(Duration::from_millis(200)) {
                    Ok(Some(Event::Headers { stream, headers, end_stream })) if stream == sid => {
                        status = h2::header_str(&headers, ":status");
                        if end_stream {
                            break;
                        }
                    }
                    Ok(Some(Event::Data { stream, data, end_stream, .. })) if stream == sid => {
                        if keystream_mismatch(7, got as u64, &data).is_some() {
                            failures.push(format!("request {i}: body differs at {got}"));
                        }
                        got += data.len();
                        if end_stream {
                            break;
                        }
                    }
                    Ok(Some(Event::RstStream { stream, code })) if stream == sid => {
                        failures.push(format!("request {i}: RST_STREAM code {code} (status {status:?}, {got} octets)"));
                        continue 'req;
                    }
                    Ok(Some(Event::Closed)) | Err(_) => {
                        failures.push(format!("request {i}: connection closed"));
                        break 'req;
                    }
                    _ => {}
                }
                if Instant::now() > deadline {
                    failures.push(format!("request {i}: no complete answer in 5 s (status {status:?}, {got} octets)"));
                    continue 'req;
                }
            }
            if status.as_deref() == Some("200") && got == expect_len {
                good += 1;
            } else {
                failures.push(format!("request {i}: status {status:?}, {got}/{expect_len} octets"));
            }
        }
        rep.obs(&format!("repro.{scenario}.ok"), good);
        rep.obs(&format!("repro.{scenario}.failed"), failures.len() as u64);
        rep.sample(json!({"scenario": scenario, "ok": good, "failures": failures.iter().take(5).collect::<Vec<_>>()}));
        rep.case(crate::common::rng::fnv1a(scenario.as_bytes()), true);
    }
    // scenario C: the same small-frame download while a 1 MB upload keeps sozu's writes towards the
    // backend blocked half-way through DATA frames (back_sndbuf 4096, backend busy writing)
    {
        let mut failures = Vec::new();
        let mut good = 0u64;
        for round in 0..6 {
            let Ok(tcp) = peers::connect(front, None, &IoProgram::fast(), Duration::from_secs(3)) else { continue };
            let Ok((t, _)) = tls::TlsClient::handshake(tcp, HOST, tls::client_config(&["h2"]), Duration::from_secs(5)) else { continue };
            let mut c = H2Conn::new(t, Role::Client);
            c.auto_ack = true;
            c.replenish = Replenish::Never;
            let _ = c.handshake_client(&[(h2::SET_ENABLE_PUSH, 0)]);
            let _ = c.send_window_update(0, 1 << 24);
            let up = c.next_stream_id();
            let _ = c.send_headers(up, &h2::request_headers("POST", "https", HOST, "/u", &[]), false);
            let body = keystream(9, 0, 1 << 20);
            let mut up_off = 0usize;
            let mut downs: BTreeMap<u32, (Option<String>, usize, bool)> = BTreeMap::new();
            let mut up_done = false;
            let mut opened = 0;
            let deadline = Instant::now() + Duration::from_secs(20);
            let mut dead = None;
            while Instant::now() < deadline {
                if up_off < body.len() {
                    let n = (body.len() - up_off).min(16_384);
                    match c.send_data_avail(up, &body[up_off..up_off + n], up_off + n == body.len(), None) {
                        Ok(k) => up_off += k,
                        Err(e) => {
                            dead = Some(format!("upload: {e}"));
                            break;
                        }
                    }
                }
                if opened < 8 && downs.values().all(|d| d.2) {
                    let sid = c.next_stream_id();
                    let _ = c.send_headers(sid, &h2::request_headers("GET", "https", HOST, &format!("/b/{round}/{opened}"), &[]), true);
                    downs.insert(sid, (None, 0, false));
                    opened += 1;
                }
                match c.poll(Duration::from_millis(2)) {
                    Ok(Some(Event::Headers { stream, headers, end_stream })) => {
                        if stream == up {
                            up_done = true;
                        } else if let Some(d) = downs.get_mut(&stream) {
                            d.0 = h2::header_str(&headers, ":status");
                            d.2 |= end_stream;
                        }
                    }
                    Ok(Some(Event::Data { stream, data, end_stream, .. })) => {
                        if let Some(d) = downs.get_mut(&stream) {
                            if keystream_mismatch(7, d.1 as u64, &data).is_some() {
                                failures.push(format!("round {round}: download stream {stream} differs at {}", d.1));
                            }
                            d.1 += data.len();
                            d.2 |= end_stream;
                        }
                    }
                    Ok(Some(Event::RstStream { stream, code })) => {
                        failures.push(format!("round {round}: RST_STREAM on stream {stream} code {code}"));
                        if let Some(d) = downs.get_mut(&stream) {
                            d.2 = true;
                        }
                        if stream == up {
                            up_done = true;
                            up_off = body.len();
                        }
                    }
                    Ok(Some(Event::GoAway { code, .. })) if code != 0 => {
                        dead = Some(format!("GOAWAY code {code}"));
                        break;
                    }
                    Ok(Some(Event::Closed)) | Err(_) => {
                        dead = Some("connection closed".to_owned());
                        break;
                    }
                    _ => {}
                }
                if up_done && opened == 8 && downs.values().all(|d| d.2) {
                    break;
                }
            }
            if let Some(d) = dead {
                failures.push(format!("round {round}: {d}"));
            }
            for (sid, d) in &downs {
                if d.0.as_deref() == Some("200") && d.1 == 3000 && d.2 {
                    good += 1;
                } else {
                    failures.push(format!("round {round}: download stream {sid}: status {:?}, {}/3000 octets, ended {}", d.0, d.1, d.2));
                }
            }
            if !up_done {
                failures.push(format!("round {round}: upload not answered ({up_off} octets sent)"));
            }
        }
        rep.obs("repro.C_small_frames_during_blocked_upload.ok", good);
        rep.obs("repro.C_small_frames_during_blocked_upload.failed", failures.len() as u64);
        rep.sample(json!({"scenario": "C_small_frames_during_blocked_upload", "ok": good, "failures": failures.iter().take(8).collect::<Vec<_>>()}));
        rep.case(3, true);
    }
    std::thread::sleep(Duration::from_millis(100));
    let g = goaways.lock().unwrap();
    rep.obs("repro.goaway_from_sozu_to_backend", g.len() as u64);
    rep.sample(json!({"goaways_seen_by_backend": g.iter().take(4).collect::<Vec<_>>()}));
    drop(g);
    let panics = w.stop();
    backend.stop();
    rep.obs("repro.worker_panics", panics.len() as u64);
}


pub fn run(ctx: &Ctx) -> Report {
    let mut rep = Report::new(
        "exploration",
        "cells = live worker + scripted H1 or h2c backend + 2..4 scripted H2/TLS client connections; per connection random peer SETTINGS (initial window, max frame, max concurrent, header table) from the boundary sets, mid-connection SETTINGS changes, a WINDOW_UPDATE schedule (burst, 1-byte drip, chunks, stream-then-connection, connection-then-stream, alternating, exact fit), 1..32 concurrent transfers with boundary-biased up/down sizes; evaluation = one client connection; distinct = distinct (settings, schedule, change count, backend peers, stream-count and size buckets)",
    );
    rep.assume("sozu's documented reapers/flood guards are configured out of the way (h2_stream_idle_timeout_seconds=3600, per-window flood thresholds raised, front/back timeouts 600 s)");
    rep.assume("a limit this peer changed counts from the SETTINGS ACK on (RFC 9113 6.5.3); until then the more permissive of old and new value is accepted");
    rep.assume("a stalled or aborted transfer is a violation only when it happens again in an isolated re-run of the same cell; a first sighting whose isolated re-run completes every transfer is decided by that re-run (load artefact); further first sightings of a class already confirmed alone in the same run are counted, not judged");
    rep.assume("wall-clock allowances (watchdogs, connect/handshake timeouts) are multiplied by the slowdown of a calibration cell measured at start; they only ever create candidates for the isolated re-run, never verdicts");
    rep.assume("own-window starvation is decided on the wire, not on the clock: the sender is blocked by the connection window alone, everything it sent has been received by the far side (backend for uploads, client for downloads), and two PING round trips completed without a WINDOW_UPDATE on stream 0");
    rep.assume("transfers answered with a non-200 status, and transfers towards a backend that advertises MAX_CONCURRENT_STREAMS=0, are exempt from the progress oracle");
    lab::raise_fd_limit();
    if ctx.opt("repro") == Some("zero") {
        repro_zero(&mut rep);
        return rep;
    }
    if ctx.opt("selftest").is_some() {
        match h2::selftest() {
            Ok(()) => rep.obs("selftest_ok", 1),
            Err(e) => rep.broken(&format!("h2 selftest: {e}")),
        }
        match h2::selftest_sozu() {
            Ok(s) => {
                rep.obs("selftest_sozu_ok", 1);
                rep.sample(json!({"sozu": s}));
            }
            Err(e) => rep.broken(&format!("h2 selftest_sozu: {e}")),
        }
        rep.case(1, true);
        rep.case(2, true);
        return rep;
    }
    for k in [
        "front.window_stalls",
        "back.window_stalls",
        "front.shrink_below_inflight",
        "back.shrink_below_inflight",
        "front.settings_changes_mid_connection",
        "back.settings_changes_mid_connection",
        "front.data_frames_checked",
        "back.data_frames_checked",
        "front.connections_with_frames_longer_than_16384",
        "back.connections_with_frames_longer_than_16384",
        "front.adv.max_frame.16385",
        "front.adv.max_frame.16777215",
        "back.adv.max_frame.16777215",
        "front.adv.iws.0",
        "back.adv.iws.0",
        "front.adv.iws.2147483647",
        "back.adv.max_concurrent.1",
        "front.policy.drip1",
        "back.policy.drip1",
        "front.policy.exact_fit",
        "front.uploads_larger_than_sozu_initial_window_completed",
        "front.padded_upload_connections",
        "front.padding_octets_sent",
        "front.padded_upload_connections_with_padding_over_twice_the_window",
        "back.padded_download_connections",
        "back.padding_octets_received_by_sozu",
        "back.padded_download_connections_with_padding_over_twice_the_window",
        "transfers_completed",
    ] {
        rep.require(k);
    }
    let stuck: Mutex<Vec<Stuck>> = Mutex::new(Vec::new());
    let force = Force::from_ctx(ctx);
    CONNECTION_DEADLINE_S.store(ctx.opt_u64("connection_deadline_s", ctx.tier.pick(40, 90)), Ordering::SeqCst);
    let (calibration_ms, pace_now) = calibrate(ctx, force);
    rep.set("calibration", json!({"cell_ms": calibration_ms, "reference_ms": CALIBRATION_REFERENCE_MS, "pace": pace_now}));
    rep.obs_max("pace_x100", (pace_now * 100.0) as u64);
    if let Some(path) = &ctx.replay {
        let v: Value = serde_json::from_str(&std::fs::read_to_string(path).unwrap_or_default()).unwrap_or(Value::Null);
        let mut cases: Vec<(u64, u64, Force)> = v["witnesses"]
            .as_array()
            .map(|a| {
                a.iter()
                    .filter_map(|w| Some((w["seed"].as_u64().unwrap_or(ctx.seed), w["case"].as_u64()?, Force::from_json(&w["generator"], force))))
                    .collect()
            })
            .unwrap_or_default();
        cases.dedup_by(|a, b| a.0 == b.0 && a.1 == b.1);
        rep.required.clear();
        for (seed, case, f) in cases {
            let s = run_cell(ctx, f, seed, case, &mut rep, true);
            stuck.lock().unwrap().extend(s.stuck);
        }
    } else {
        let n = ctx.opt_u64("cases", ctx.tier.pick(150, 3_000));
        // leave room for the isolated re-runs inside the tier's wall-clock budget
        let soft = ctx.budget.mul_f64(ctx.tier.pick(0.6, 0.85));
        // a cell is a worker, a backend and a client (5-6 busy threads): never more cells side by
        // side than hardware threads, and fewer when the machine is slow right now
        let cells = if pace_now > 2.0 { (ctx.threads * 2 / 3).max(2) } else { ctx.threads }.min(ctx.threads.max(1));
        rep.obs_max("cells_side_by_side", cells as u64);
        let par_ctx = Ctx { threads: cells, ..ctx.clone() };
        par_cases(&par_ctx, &mut rep, n, |i, r| {
            if ctx.started.elapsed() > soft {
                r.obs("cells_not_started_soft_deadline", 1);
                return;
            }
            let s = run_cell(ctx, force, ctx.seed, i, r, false);
            stuck.lock().unwrap().extend(s.stuck);
        });
    }
    // Candidates (watchdog expiries, aborts, executions that could not be judged) are decided by
    // running their cell again, alone:
    //  * the same decisive class shows again            -> violation (seen twice, once alone);
    //  * the re-run completes every transfer, cleanly   -> the first sighting was a load artefact:
    //    the cell is decided by its isolated execution (counted, not inconclusive);
    //  * anything else                                   -> inconclusive.
    let mut candidates = stuck.into_inner().unwrap();
    candidates.sort_by(|a, b| (a.case, &a.class).cmp(&(b.case, &b.class)));
    candidates.dedup_by(|a, b| a.case == b.case && a.class == b.class);
    rep.obs("rerun_candidates", candidates.len() as u64);
    // order: one case per distinct decisive class first (so every class gets its isolated second
    // look, after which further sightings of it need no re-run), then the other decisive ones, the
    // cases that could not be judged last (their re-runs can be the long ones)
    let mut cases: Vec<u64> = Vec::new();
    let mut seen_class: std::collections::BTreeSet<&str> = std::collections::BTreeSet::new();
    for c in candidates.iter().filter(|c| !c.soft) {
        if seen_class.insert(c.class.as_str()) && !cases.contains(&c.case) {
            cases.push(c.case);
        }
    }
    for c in candidates.iter().filter(|c| !c.soft).chain(candidates.iter().filter(|c| c.soft)) {
        if !cases.contains(&c.case) {
            cases.push(c.case);
        }
    }
    // the re-runs get their own allowance, counted from the end of the side-by-side phase
    let rerun_deadline = ctx.started.elapsed() + Duration::from_secs(ctx.opt_u64("rerun_extra_s", ctx.tier.pick(60, 240)));
    let mut confirmed: std::collections::BTreeSet<String> = std::collections::BTreeSet::new();
    for case in cases.iter() {
        let group: Vec<&Stuck> = candidates.iter().filter(|c| c.case == *case).collect();
        if ctx.replay.is_some() {
            // a replay already runs alone: the candidate itself is the second observation
            for cand in group {
                if cand.soft {
                    rep.inconclusive(&format!("watchdog/{}", cand.class));
                } else {
                    report_confirmed(&mut rep, cand);
                }
            }
            continue;
        }
        // nothing left to learn from this case: all its classes were confirmed alone in this run
        if group.iter().all(|c| !c.soft && confirmed.contains(&c.class)) {
            for cand in group {
                rep.obs(&format!("further_sightings_not_rerun.{}", cand.class), 1);
            }
            continue;
        }
        // a connection that was still moving at its deadline on a machine that is not slow is slow by
        // its own plan (octet-by-octet credit on a large body): running it again alone tells nothing
        if pace_now < 1.5 && group.iter().all(|c| c.class == "connection_deadline") {
            for cand in group {
                rep.inconclusive(&format!("watchdog/{}", cand.class));
            }
            continue;
        }
        if ctx.started.elapsed() > rerun_deadline {
            for cand in group {
                rep.inconclusive(&format!("watchdog/{} (not re-run: out of time)", cand.class));
            }
            continue;
        }
        let seed = group[0].witness["seed"].as_u64().unwrap_or(ctx.seed);
        let f = Force::from_json(&group[0].witness["generator"], force);
        // up to two isolated executions: the second one only when the first neither completed nor
        // showed the class again
        let mut decided = vec![false; group.len()];
        for attempt in 0..2 {
            let mut scratch = rep.fork();
            let again = run_cell(ctx, f, seed, *case, &mut scratch, true);
            rep.obs("isolated_reruns", 1);
            for (k, cand) in group.iter().enumerate() {
                if decided[k] {
                    continue;
                }
                // the same class, or for a decisive one the same family: a cell that deadlocks shows
                // as `front` or as `back` depending on which transfer the watchdog looks at first
                let family = |c: &str| if c.starts_with("aborted_") { "aborted" } else { "stalled" };
                let same = again.stuck.iter().find(|a| a.class == cand.class).or_else(|| {
                    again.stuck.iter().find(|a| !a.soft && !cand.soft && family(&a.class) == family(&cand.class))
                });
                if let Some(a) = same {
                    decided[k] = true;
                    if a.soft {
                        rep.inconclusive(&format!("watchdog/{} (again when run alone)", cand.class));
                        rep.sample(json!({"again_alone": a.witness}));
                    } else {
                        confirmed.insert(a.class.clone());
                        report_confirmed(&mut rep, a);
                    }
                } else if again.clean && scratch.inconclusive == 0 {
                    decided[k] = true;
                    rep.obs(&format!("decided_by_isolated_rerun.completed.{}", cand.class), 1);
                }
            }
            if std::env::var_os("C14_DEBUG").is_some() {
                eprintln!(
                    "C14 re-run case {case} attempt {attempt}: candidates {:?} -> alone: {:?}, clean {}, scratch inconclusive {}",
                    group.iter().map(|c| c.class.as_str()).collect::<Vec<_>>(),
                    again.stuck.iter().map(|a| (a.class.as_str(), a.detail.chars().take(120).collect::<String>())).collect::<Vec<_>>(),
                    again.clean,
                    scratch.inconclusive
                );
            }
            if decided.iter().all(|d| *d) || attempt == 1 {
                break;
            }
        }
        for (k, cand) in group.iter().enumerate() {
            if !decided[k] {
                rep.inconclusive(&format!("watchdog/{} did not reproduce alone, the isolated runs did not complete either", cand.class));
                rep.sample(json!({"not_reproduced": cand.witness}));
            }
        }
    }
    rep
}

fn ctx_trace_len() -> usize {
    std::env::var("C14_TRACE").ok().and_then(|v| v.parse().ok()).unwrap_or(40)
}

fn report_confirmed(rep: &mut Report, a: &Stuck) {
    if a.class.starts_with("aborted_") {
        rep.violation(
            &format!("h2limits/transfer_aborted/{}", a.class.trim_start_matches("aborted_")),
            &format!("sozu aborted a transfer under a legal WINDOW_UPDATE/SETTINGS schedule (seen twice, the second time alone): {}", a.detail),
            a.witness.clone(),
        );
    } else {
        rep.violation(
            &format!("h2limits/stalled_transfer/{}", a.class),
            &format!("transfer stopped although the peer granted enough credit (seen twice, the second time alone): {}", a.detail),
            a.witness.clone(),
        );
    }
}
