//! C07 part (b) — a command a *worker* answers with FAILURE leaves no trace in its live proxies.
//!
//! A real worker (the C08 lab) is brought into a random reachable state; then commands with one
//! invalid field among valid ones, missing targets, duplicates, unparsable templates and
//! certificates, unknown old fingerprints (and generated noise) are sent one at a time. For every
//! command answered FAILURE the proxies are observed before and after, only through what does
//! not go through the worker's `ConfigState` (that copy is the known C08 finding):
//!  * behaviour: which listener addresses accept; per HTTP(S) listener x host x path the status,
//!    Location / WWW-Authenticate, the set of response header names, the body of non-2xx answers
//!    (request id masked), the proxy-added request header names seen by the backend; the leaf
//!    certificate served per SNI; TCP relay outcome; UDP reply;
//!  * proxy-level state: `QueryCertificatesFromWorkers` (answered from the TLS resolver), the live
//!    backend table and base session count (hook H3).
//! Only positive facts are compared (an answer, a refusal, a close); silence is a wildcard. A
//! difference counts when a second observation shows the same new fact.

#[path = "../c08_worker/net.rs"]
mod net;
#[path = "../c08_worker/plan.rs"]
mod plan;

use std::{
    collections::{BTreeMap, BTreeSet},
    io::{Read, Write},
    net::{SocketAddr, TcpStream},
    sync::{
        Arc,
        atomic::{AtomicBool, Ordering},
    },
    thread::JoinHandle,
    time::{Duration, Instant},
};

use serde_json::{Value, json};
use sha2::{Digest, Sha256};
use sozu_command_lib::{
    proto::command::{
        AddCertificate, AlpnProtocols, CertificateAndKey, Cluster, HstsConfig, PathRule,
        QueryCertificatesFilters, RemoveCertificate, ReplaceCertificate, RequestHttpFrontend,
        RequestTcpFrontend, RequestUdpFrontend, ResponseStatus, Status, UpdateHttpListenerConfig,
        UpdateHttpsListenerConfig, request::RequestType, response_content::ContentType,
    },
    state::ConfigState,
};

use self::{
    net::Probe,
    plan::{BACKEND_IDS, BACKEND_PORTS, CLUSTERS, Cell, Gen, HOSTS, HTTPS_PORTS, HTTP_PORTS, LK, TCP_PORTS, UDP_PORTS, certs, describe, req, verb},
};
use crate::{
    common::{Ctx, Report, Rng, par_cases},
    lab::{self, Worker, WorkerOpts},
    peers::tls::{self, TlsClient},
};

const SNIS: [&str; 5] = ["h0.test", "h1.test", "h2.test", "localhost", "lolcatho.st"];
const BAD_TEMPLATE: &str = "%%% this is not an HTTP response {{";
const GOOD_404: &str = "HTTP/1.1 404 Not Found\r\nCache-Control: no-cache\r\nConnection: close\r\nX-C07: custom\r\n\r\nc07 custom 404\n";

// ------------------------------------------------------------------------------------------
// scripted backends: 200 + the proxy-added request header names (so that a listener patch that
// changes what sozu sends upstream is visible), UDP twins answering every datagram

struct Backends {
    addrs: Vec<SocketAddr>,
    stop: Arc<AtomicBool>,
    threads: Vec<JoinHandle<()>>,
}

fn serve(mut s: TcpStream, port: u16) {
    let _ = s.set_read_timeout(Some(Duration::from_secs(30)));
    let _ = s.set_nodelay(true);
    let mut buf: Vec<u8> = Vec::new();
    let mut tmp = [0u8; 4096];
    loop {
        let n = match s.read(&mut tmp) {
            Ok(0) | Err(_) => return,
            Ok(n) => n,
        };
        buf.extend_from_slice(&tmp[..n]);
        while let Some(p) = buf.windows(4).position(|w| w == b"\r\n\r\n") {
            let head = String::from_utf8_lossy(&buf[..p]).into_owned();
            buf.drain(..p + 4);
            let mut names: BTreeSet<String> = BTreeSet::new();
            for line in head.lines().skip(1) {
                if let Some((n, _)) = line.split_once(':') {
                    let n = n.trim().to_ascii_lowercase();
                    if !matches!(n.as_str(), "host" | "connection" | "user-agent" | "accept" | "content-length") {
                        names.insert(n);
                    }
                }
            }
            let body = format!("B{port} upstream-headers={}", names.into_iter().collect::<Vec<_>>().join(","));
            let resp = format!("HTTP/1.1 200 OK\r\nContent-Length: {}\r\n\r\n{}", body.len(), body);
            if s.write_all(resp.as_bytes()).is_err() {
                return;
            }
        }
    }
}

impl Backends {
    fn start(addrs: &[SocketAddr]) -> Result<Backends, String> {
        let stop = Arc::new(AtomicBool::new(false));
        let mut threads = Vec::new();
        for addr in addrs {
            let port = addr.port();
            let sock = socket2::Socket::new(socket2::Domain::IPV4, socket2::Type::STREAM, Some(socket2::Protocol::TCP)).map_err(|e| format!("{e}"))?;
            sock.set_reuse_address(true).map_err(|e| format!("{e}"))?;
            sock.bind(&(*addr).into()).map_err(|e| format!("backend {addr}: {e}"))?;
            sock.listen(256).map_err(|e| format!("{e}"))?;
            let listener: std::net::TcpListener = sock.into();
            let st = stop.clone();
            threads.push(
                std::thread::Builder::new()
                    .name(format!("c07-backend-{port}"))
                    .spawn(move || {
                        loop {
                            match listener.accept() {
                                Ok((stream, _)) => {
                                    if st.load(Ordering::SeqCst) {
                                        return;
                                    }
                                    let _ = std::thread::Builder::new().name(format!("c07-backend-conn-{port}")).spawn(move || serve(stream, port));
                                }
                                Err(_) => {
                                    if st.load(Ordering::SeqCst) {
                                        return;
                                    }
                                    std::thread::sleep(Duration::from_millis(5));
                                }
                            }
                        }
                    })
                    .map_err(|e| format!("{e}"))?,
            );
            let udp = std::net::UdpSocket::bind(addr).map_err(|e| format!("udp backend {addr}: {e}"))?;
            let _ = udp.set_read_timeout(Some(Duration::from_millis(100)));
            let st = stop.clone();
            threads.push(
                std::thread::Builder::new()
                    .name(format!("c07-udp-backend-{port}"))
                    .spawn(move || {
                        let mut buf = [0u8; 2048];
                        while !st.load(Ordering::SeqCst) {
                            if let Ok((_, from)) = udp.recv_from(&mut buf) {
                                let _ = udp.send_to(format!("U{port}").as_bytes(), from);
                            }
                        }
                    })
                    .map_err(|e| format!("{e}"))?,
            );
        }
        Ok(Backends { addrs: addrs.to_vec(), stop, threads })
    }

    fn stop(&mut self) {
        self.stop.store(true, Ordering::SeqCst);
        let mut all_woken = true;
        for a in &self.addrs {
            all_woken &= TcpStream::connect_timeout(a, Duration::from_millis(1000)).is_ok();
        }
        for t in self.threads.drain(..) {
            if all_woken {
                let _ = t.join();
            }
        }
    }
}

// ------------------------------------------------------------------------------------------
// observation

/// aspect -> key -> fact ("?" = nothing positive was observed: matches anything)
type Obs = BTreeMap<&'static str, BTreeMap<String, String>>;

const UNKNOWN: &str = "?";

fn put(o: &mut Obs, aspect: &'static str, key: String, fact: String) {
    o.entry(aspect).or_default().insert(key, fact);
}

struct Resp {
    status: u16,
    headers: Vec<(String, String)>,
    body: Vec<u8>,
    /// the whole body was seen (Content-Length reached, or the peer closed)
    complete: bool,
}

/// one request / one response over an established stream (Content-Length or until close)
fn exchange<S: Read + Write + net::TimedRead>(s: &mut S, request: &str, wait: Duration) -> Result<Resp, &'static str> {
    if s.write_all(request.as_bytes()).is_err() {
        return Err("closed");
    }
    let deadline = Instant::now() + wait;
    let mut buf: Vec<u8> = Vec::new();
    let mut tmp = [0u8; 8192];
    let mut eof = false;
    let mut head_end = None;
    let mut content_length: Option<usize> = None;
    loop {
        if let Some(he) = head_end {
            match content_length {
                Some(cl) if buf.len() >= he + cl => break,
                None if eof => break,
                _ => {}
            }
        }
        if eof {
            break;
        }
        let left = deadline.saturating_duration_since(Instant::now());
        if left.is_zero() {
            break;
        }
        // a body delimited by the close: do not wait long for a close that TLS peers may delay
        s.set_wait(if head_end.is_some() && content_length.is_none() { left.min(Duration::from_millis(40)) } else { left });
        match s.read(&mut tmp) {
            Ok(0) => eof = true,
            Ok(n) => {
                buf.extend_from_slice(&tmp[..n]);
                if head_end.is_none() {
                    if let Some(p) = buf.windows(4).position(|w| w == b"\r\n\r\n") {
                        head_end = Some(p + 4);
                        for line in String::from_utf8_lossy(&buf[..p]).lines() {
                            if let Some(v) = line.to_ascii_lowercase().strip_prefix("content-length:") {
                                content_length = v.trim().parse().ok();
                            }
                        }
                    }
                }
            }
            Err(e) if e.kind() == std::io::ErrorKind::Interrupted => {}
            Err(e) if matches!(e.kind(), std::io::ErrorKind::WouldBlock | std::io::ErrorKind::TimedOut) => {
                if head_end.is_some() && content_length.is_none() {
                    break;
                }
            }
            Err(_) => eof = true,
        }
    }
    let Some(he) = head_end else {
        return Err(if buf.is_empty() && eof { "closed" } else if buf.is_empty() { "silent" } else { "garbage" });
    };
    if let Some(cl) = content_length {
        if buf.len() < he + cl {
            return Err("silent"); // incomplete: no positive fact
        }
    }
    let head = String::from_utf8_lossy(&buf[..he]).into_owned();
    let mut lines = head.lines();
    let status = lines.next().and_then(|l| l.split(' ').nth(1)).and_then(|s| s.parse().ok()).ok_or("garbage")?;
    let headers = lines.filter_map(|l| l.split_once(':')).map(|(n, v)| (n.trim().to_ascii_lowercase(), v.trim().to_owned())).collect();
    let complete = content_length.is_some() || eof;
    Ok(Resp { status, headers, body: buf[he..].to_vec(), complete })
}

/// the facts of one HTTP answer: (routing fact, body fact)
fn resp_facts(r: &Resp) -> (String, Option<String>) {
    let get = |n: &str| r.headers.iter().find(|(k, _)| k == n).map(|(_, v)| v.clone());
    let names: BTreeSet<&str> = r.headers.iter().map(|(k, _)| k.as_str()).collect();
    let mut fact = format!("status={} headers=[{}]", r.status, names.into_iter().collect::<Vec<_>>().join(","));
    for h in ["location", "www-authenticate", "strict-transport-security", "retry-after"] {
        if let Some(v) = get(h) {
            fact.push_str(&format!(" {h}={v:?}"));
        }
    }
    let body = String::from_utf8_lossy(&r.body).into_owned();
    if r.status == 200 && body.starts_with('B') {
        // a backend answered: which one is the load balancer's business; what sozu sent upstream is ours
        let upstream = body.split_once(' ').map(|(_, u)| u.to_owned()).unwrap_or_default();
        fact.push_str(&format!(" backend {upstream}"));
        return (fact, None);
    }
    // an answer of sozu's own: its bytes, the request id masked
    let mut masked = body;
    for h in r.headers.iter().filter(|(k, _)| k.contains("id")) {
        if h.1.len() >= 8 {
            masked = masked.replace(&h.1, "<id>");
        }
    }
    // 5xx bodies name the backend that failed (the load balancer's choice): not a configuration fact
    if !r.complete || r.status >= 500 {
        return (fact, Some(UNKNOWN.to_owned()));
    }
    let digest = Sha256::digest(masked.as_bytes());
    (fact, Some(format!("{} bytes sha256={}", masked.len(), hex::encode(&digest[..6]))))
}

struct Cellw {
    cell: Cell,
    w: Worker,
    base: Duration,
    probes: BTreeMap<&'static str, u64>,
}

impl Cellw {
    fn wait(&self, ms: u64) -> Duration {
        // silence is a wildcard here (never a verdict): modest waits, stretched a little on a slow cell
        Duration::from_millis(ms).max(self.base * 20).min(Duration::from_secs(3).max(Duration::from_millis(ms)))
    }

    fn count(&mut self, aspect: &'static str) {
        *self.probes.entry(aspect).or_insert(0) += 1;
    }

    fn observe(&mut self) -> Obs {
        let mut o = Obs::new();
        let cell = self.cell;
        let wait = self.wait(1500);
        // listening sockets
        for (kind, ports) in [(LK::Http, HTTP_PORTS), (LK::Https, HTTPS_PORTS), (LK::Tcp, TCP_PORTS)] {
            for port in ports {
                let addr = cell.a(port);
                let fact = match net::can_connect(addr) {
                    Ok(_) => "accepts",
                    Err(Probe::Refused(_)) => "refused",
                    Err(_) => UNKNOWN,
                };
                self.count("listening_sockets");
                put(&mut o, "listening_sockets", format!("{} :{port}", kind.name()), fact.to_owned());
                if fact != "accepts" {
                    continue;
                }
                match kind {
                    LK::Http => {
                        for host in HOSTS.iter().copied().chain(["nohost.test"]) {
                            for path in ["/zz", "/api/x"] {
                                let key = format!(":{port} {host}{path}");
                                let fact = match net::can_connect(addr) {
                                    Ok(mut s) => exchange(&mut s, &format!("GET {path} HTTP/1.1\r\nHost: {host}\r\nConnection: close\r\n\r\n"), wait),
                                    Err(_) => Err("silent"),
                                };
                                self.count("http_routing");
                                self.put_http(&mut o, "http_routing", "http_answer_body", key, fact);
                            }
                        }
                    }
                    LK::Https => {
                        for sni in SNIS {
                            let key = format!(":{port} sni={sni}");
                            let Ok(s) = net::can_connect(addr) else { continue };
                            self.count("served_certificate");
                            match TlsClient::handshake(s, sni, tls::client_config(&["http/1.1"]), wait) {
                                Ok((mut t, info)) => {
                                    let leaf = info.chain.first().map(|d| hex::encode(&Sha256::digest(d)[..8])).unwrap_or_else(|| "none".to_owned());
                                    put(&mut o, "served_certificate", key.clone(), leaf);
                                    let paths: &[&str] = if sni.ends_with(".test") { &["/zz", "/api/x"] } else { &["/zz"] };
                                    // one request per connection (sozu's own answers close it)
                                    let first = exchange(&mut t, &format!("GET {} HTTP/1.1\r\nHost: {sni}\r\nConnection: close\r\n\r\n", paths[0]), wait);
                                    self.count("https_routing");
                                    self.put_http(&mut o, "https_routing", "https_answer_body", format!(":{port} {sni}{}", paths[0]), first);
                                    for path in &paths[1..] {
                                        let fact = match net::can_connect(addr).ok().and_then(|s| TlsClient::handshake(s, sni, tls::client_config(&["http/1.1"]), wait).ok()) {
                                            Some((mut t, _)) => exchange(&mut t, &format!("GET {path} HTTP/1.1\r\nHost: {sni}\r\nConnection: close\r\n\r\n"), wait),
                                            None => Err("silent"),
                                        };
                                        self.count("https_routing");
                                        self.put_http(&mut o, "https_routing", "https_answer_body", format!(":{port} {sni}{path}"), fact);
                                    }
                                }
                                Err(e) => {
                                    let fact = match e.kind() {
                                        std::io::ErrorKind::WouldBlock | std::io::ErrorKind::TimedOut => UNKNOWN.to_owned(),
                                        std::io::ErrorKind::UnexpectedEof | std::io::ErrorKind::ConnectionReset | std::io::ErrorKind::BrokenPipe => "handshake: connection closed".to_owned(),
                                        _ => format!("handshake fails: {e}"),
                                    };
                                    put(&mut o, "served_certificate", key, fact);
                                }
                            }
                        }
                    }
                    LK::Tcp => {
                        let fact = match net::can_connect(addr) {
                            Ok(mut s) => match exchange(&mut s, "GET /c07 HTTP/1.1\r\nHost: tcp.test\r\nConnection: close\r\n\r\n", wait) {
                                Ok(r) if r.status == 200 => "relayed to a backend".to_owned(),
                                Ok(r) => format!("answered {}", r.status),
                                Err("closed") => "closed".to_owned(),
                                Err(_) => UNKNOWN.to_owned(),
                            },
                            Err(_) => UNKNOWN.to_owned(),
                        };
                        self.count("tcp_forwarding");
                        put(&mut o, "tcp_forwarding", format!(":{port}"), fact);
                    }
                    LK::Udp => {}
                }
            }
        }
        for port in UDP_PORTS {
            // silence is not a fact (no refusal exists for datagrams)
            let fact = match net::udp_probe(cell.a(port), self.wait(250)) {
                Some(tag) if tag.starts_with('U') => "relayed to a backend and answered".to_owned(),
                Some(other) => format!("answered {other:?}"),
                None => UNKNOWN.to_owned(),
            };
            self.count("udp_forwarding");
            put(&mut o, "udp_forwarding", format!(":{port}"), fact);
        }
        // proxy-level state that does not come from the worker's ConfigState
        self.count("resolver_certificates");
        match self.w.call(RequestType::QueryCertificatesFromWorkers(QueryCertificatesFilters { domain: None, fingerprint: None }), self.wait(4000)) {
            Ok(r) => match r.content.and_then(|c| c.content_type) {
                Some(ContentType::CertificatesByAddress(list)) => {
                    for l in list.certificates {
                        let a: SocketAddr = l.address.into();
                        let mut v: Vec<String> = l.certificate_summaries.iter().map(|s| format!("{}={}", s.domain, &s.fingerprint[..s.fingerprint.len().min(16)])).collect();
                        v.sort();
                        put(&mut o, "resolver_certificates", format!(":{}", a.port()), v.join(" "));
                    }
                }
                _ => {}
            },
            Err(_) => {}
        }
        let snap = self.w.probe.snapshot();
        self.count("backend_table");
        let table: Vec<String> = snap.backends.iter().map(|b| format!("{}/{}@:{}", b.cluster_id, b.backend_id, b.address.rsplit(':').next().unwrap_or(""))).collect();
        put(&mut o, "backend_table", "live".to_owned(), table.join(" "));
        put(&mut o, "backend_table", "base_sessions_count".to_owned(), snap.base_sessions_count.to_string());
        o
    }

    fn put_http(&mut self, o: &mut Obs, routing: &'static str, body_aspect: &'static str, key: String, r: Result<Resp, &'static str>) {
        match r {
            Ok(resp) => {
                let (fact, body) = resp_facts(&resp);
                put(o, routing, key.clone(), fact);
                if let Some(b) = body {
                    put(o, body_aspect, key, b);
                }
            }
            Err("closed") => put(o, routing, key, "closed without an answer".to_owned()),
            Err("garbage") => put(o, routing, key, "non-HTTP bytes".to_owned()),
            Err(_) => put(o, routing, key, UNKNOWN.to_owned()),
        }
    }
}

/// (aspect, key, before, after) for every positive fact that changed
fn diff(before: &Obs, after: &Obs) -> Vec<(&'static str, String, String, String)> {
    let mut out = Vec::new();
    for (aspect, b) in before {
        let empty = BTreeMap::new();
        let a = after.get(aspect).unwrap_or(&empty);
        for (key, fb) in b {
            if fb == UNKNOWN {
                continue;
            }
            // a key that vanished because its listener no longer accepts is reported by listening_sockets
            if let Some(fa) = a.get(key) {
                if fa != UNKNOWN && fa != fb {
                    out.push((*aspect, key.clone(), fb.clone(), fa.clone()));
                }
            }
        }
        if *aspect == "resolver_certificates" {
            for (key, fa) in a {
                if !b.contains_key(key) && !fa.is_empty() {
                    out.push((*aspect, key.clone(), "(no entry)".to_owned(), fa.clone()));
                }
            }
        }
    }
    out
}

// ------------------------------------------------------------------------------------------
// commands

struct Step {
    rt: RequestType,
    /// invalid-class of the catalogue entry ("generated" for noise of the C08 generator)
    class: &'static str,
}

fn existing(g: &ConfigState, kind: LK, cell: Cell) -> Vec<SocketAddr> {
    kind.ports().iter().map(|p| cell.a(*p)).filter(|a| match kind {
        LK::Http => g.http_listeners.contains_key(a),
        LK::Https => g.https_listeners.contains_key(a),
        LK::Tcp => g.tcp_listeners.contains_key(a),
        LK::Udp => g.udp_listeners.contains_key(a),
    }).collect()
}

fn cert_and_key(i: usize, names: Vec<String>) -> CertificateAndKey {
    let c = &certs()[i % certs().len()];
    CertificateAndKey { certificate: c.cert.clone(), key: c.key.clone(), names, ..Default::default() }
}

/// one entry of the catalogue of commands with an invalid part among valid ones (None when the
/// prior state offers no target for it)
fn catalogue(rng: &mut Rng, g: &ConfigState, cell: Cell) -> Option<Step> {
    let http = existing(g, LK::Http, cell);
    let https = existing(g, LK::Https, cell);
    let clusters: Vec<String> = g.clusters.keys().cloned().collect();
    let host = |rng: &mut Rng| (*rng.pick(&HOSTS)).to_owned();
    Some(match rng.below(22) {
        0 | 1 => {
            // re-definition of a cluster with an unparsable answer template and other fields changed
            let id = if !clusters.is_empty() && rng.chance(3, 4) { rng.pick(&clusters).clone() } else { (*rng.pick(&CLUSTERS)).to_owned() };
            let mut c = Cluster { cluster_id: id, ..Default::default() };
            match rng.below(4) {
                0 => c.https_redirect = true,
                1 => {
                    c.authorized_hashes = vec!["admin:00".to_owned()];
                    c.www_authenticate = Some("Basic realm=\"c07\"".to_owned());
                }
                2 => {
                    c.https_redirect = true;
                    c.https_redirect_port = Some(8443);
                }
                // a setting of the shared backend map: HTTP/2 towards backends that only speak HTTP/1.1
                _ => c.http2 = Some(true),
            }
            if rng.bool() {
                c.answers.insert("503".to_owned(), BAD_TEMPLATE.to_owned());
            } else {
                c.answer_503 = Some(BAD_TEMPLATE.to_owned());
            }
            Step { rt: RequestType::AddCluster(c), class: "unparsable_answer_template" }
        }
        2 => {
            let id = if !clusters.is_empty() { rng.pick(&clusters).clone() } else { (*rng.pick(&CLUSTERS)).to_owned() };
            let mut c = Cluster { cluster_id: id, https_redirect: true, ..Default::default() };
            c.health_check = Some(sozu_command_lib::proto::command::HealthCheckConfig { uri: "no-leading-slash".to_owned(), interval: 10, timeout: 5, healthy_threshold: 3, unhealthy_threshold: 3, expected_status: 0 });
            Step { rt: RequestType::AddCluster(c), class: "invalid_inline_health_check" }
        }
        3 | 4 => {
            // a new certificate (names: a host of the universe) replacing a fingerprint the listener does not hold
            let a = *rng.pick(&https.is_empty().then(|| vec![cell.a(HTTPS_PORTS[0])]).unwrap_or(https.clone()));
            let held: BTreeSet<String> = g.certificates.get(&a).map(|m| m.keys().map(|f| f.to_string()).collect()).unwrap_or_default();
            let i = rng.usize_below(certs().len());
            let old = match rng.below(3) {
                0 => hex::encode(rng.bytes(32)),
                _ => certs().iter().map(|c| c.fp.clone()).find(|f| !held.contains(f) && *f != certs()[i].fp).unwrap_or_else(|| hex::encode(rng.bytes(32))),
            };
            Step {
                rt: RequestType::ReplaceCertificate(ReplaceCertificate { address: a.into(), new_certificate: cert_and_key(i, vec![host(rng)]), old_fingerprint: old, new_expired_at: None }),
                class: "unknown_old_fingerprint",
            }
        }
        5 => {
            let a = *rng.pick(&https.is_empty().then(|| vec![cell.a(HTTPS_PORTS[0])]).unwrap_or(https.clone()));
            let held: Vec<String> = g.certificates.get(&a).map(|m| m.keys().map(|f| f.to_string()).collect()).unwrap_or_default();
            let old = if held.is_empty() { certs()[0].fp.clone() } else { rng.pick(&held).clone() };
            let (mut ck, class) = (cert_and_key(rng.usize_below(4), vec![host(rng)]), match rng.below(3) { 0 => "unparsable_new_certificate", 1 => "key_does_not_match", _ => "bad_hex_old_fingerprint" });
            let mut old = old;
            match class {
                "unparsable_new_certificate" => ck.certificate = "not a pem".to_owned(),
                "key_does_not_match" => ck.key = certs()[(certs().iter().position(|c| c.cert == ck.certificate).unwrap_or(0) + 1) % certs().len()].key.clone(),
                _ => old = "zz-not-hex".to_owned(),
            }
            Step { rt: RequestType::ReplaceCertificate(ReplaceCertificate { address: a.into(), new_certificate: ck, old_fingerprint: old, new_expired_at: None }), class }
        }
        6 => {
            let a = *rng.pick(&https.is_empty().then(|| vec![cell.a(HTTPS_PORTS[0])]).unwrap_or(https.clone()));
            let (mut ck, class) = (cert_and_key(rng.usize_below(4), vec![host(rng)]), match rng.below(3) { 0 => "unparsable_certificate", 1 => "key_does_not_match", _ => "invalid_name_override" });
            match class {
                "unparsable_certificate" => ck.certificate = "not a pem".to_owned(),
                "key_does_not_match" => ck.key = certs()[(certs().iter().position(|c| c.cert == ck.certificate).unwrap_or(0) + 1) % certs().len()].key.clone(),
                _ => ck.names = vec![host(rng), "bad name with spaces".to_owned()],
            }
            Step { rt: RequestType::AddCertificate(AddCertificate { address: a.into(), certificate: ck, expired_at: None }), class }
        }
        7 => {
            let a = *rng.pick(&https.is_empty().then(|| vec![cell.a(HTTPS_PORTS[0])]).unwrap_or(https.clone()));
            let (fp, class) = if rng.bool() { ("zz-not-hex".to_owned(), "bad_hex_fingerprint") } else { (hex::encode(rng.bytes(32)), "unknown_fingerprint") };
            Step { rt: RequestType::RemoveCertificate(RemoveCertificate { address: a.into(), fingerprint: fp }), class }
        }
        8..=10 => {
            // HTTP listener patch: visible valid fields + one invalid part
            let a = if http.is_empty() { return None } else { *rng.pick(&http) };
            let mut p = UpdateHttpListenerConfig { address: a.into(), front_timeout: Some(rng.range(30, 90) as u32), ..Default::default() };
            match rng.below(3) {
                0 => p.expect_proxy = Some(true),
                1 => p.sozu_id_header = Some("X-C07-Id".to_owned()),
                _ => {
                    p.answers.insert("404".to_owned(), GOOD_404.to_owned());
                }
            }
            let class = match rng.below(4) {
                0 => {
                    p.h2_max_rst_stream_per_window = Some(0);
                    "flood_knob_zero"
                }
                1 => {
                    p.h2_stream_shrink_ratio = Some(1);
                    "shrink_ratio_lt_2"
                }
                2 => {
                    p.answers.insert("503".to_owned(), BAD_TEMPLATE.to_owned());
                    "unparsable_answer_template"
                }
                _ => {
                    p.sozu_id_header = Some("a b".to_owned());
                    "bad_sozu_id_header"
                }
            };
            Step { rt: RequestType::UpdateHttpListener(p), class }
        }
        11..=14 => {
            let a = if https.is_empty() { return None } else { *rng.pick(&https) };
            let mut p = UpdateHttpsListenerConfig { address: a.into(), front_timeout: Some(rng.range(30, 90) as u32), ..Default::default() };
            match rng.below(4) {
                0 => p.expect_proxy = Some(true),
                1 => p.sozu_id_header = Some("X-C07-Id".to_owned()),
                2 => p.disable_http11 = Some(true),
                _ => {
                    p.answers.insert("404".to_owned(), GOOD_404.to_owned());
                }
            }
            let class = match rng.below(6) {
                0 => {
                    p.h2_max_ping_per_window = Some(0);
                    "flood_knob_zero"
                }
                1 => {
                    p.alpn_protocols = Some(AlpnProtocols { values: vec!["spdy/9".to_owned()] });
                    "bad_alpn"
                }
                2 => {
                    p.answers.insert("503".to_owned(), BAD_TEMPLATE.to_owned());
                    "unparsable_answer_template"
                }
                3 => {
                    p.sozu_id_header = Some("a:b".to_owned());
                    "bad_sozu_id_header"
                }
                _ => {
                    p.hsts = Some(HstsConfig { enabled: None, max_age: Some(31_536_000), ..Default::default() });
                    "hsts_without_enabled"
                }
            };
            Step { rt: RequestType::UpdateHttpsListener(p), class }
        }
        15 | 16 => {
            // duplicate of an existing frontend with another cluster and tags
            let https_f = rng.bool();
            let fronts: Vec<RequestHttpFrontend> = if https_f { g.https_fronts.values().cloned().map(Into::into).collect() } else { g.http_fronts.values().cloned().map(Into::into).collect() };
            if fronts.is_empty() {
                return None;
            }
            let mut f = rng.pick(&fronts).clone();
            f.cluster_id = Some((*rng.pick(&CLUSTERS)).to_owned());
            f.tags.insert("c07".to_owned(), "dup".to_owned());
            Step { rt: if https_f { RequestType::AddHttpsFrontend(f) } else { RequestType::AddHttpFrontend(f) }, class: "duplicate_frontend" }
        }
        17 => {
            let https_f = rng.bool();
            let l = if https_f { &https } else { &http };
            let a = if l.is_empty() { return None } else { *rng.pick(l) };
            let mut f = RequestHttpFrontend { cluster_id: Some((*rng.pick(&CLUSTERS)).to_owned()), address: a.into(), hostname: host(rng), path: PathRule::prefix("/".to_owned()), ..Default::default() };
            let class = match rng.below(3) {
                0 => {
                    f.position = 9;
                    "unknown_rule_position"
                }
                1 => {
                    f.path = PathRule::regex("(unclosed".to_owned());
                    "invalid_path_regex"
                }
                _ => {
                    f.hostname = "*.*.bad host".to_owned();
                    "invalid_hostname"
                }
            };
            Step { rt: if https_f { RequestType::AddHttpsFrontend(f) } else { RequestType::AddHttpFrontend(f) }, class }
        }
        18 => {
            // removal with an invalid field / of something absent
            let https_f = rng.bool();
            let fronts: Vec<RequestHttpFrontend> = if https_f { g.https_fronts.values().cloned().map(Into::into).collect() } else { g.http_fronts.values().cloned().map(Into::into).collect() };
            let (f, class) = if !fronts.is_empty() && rng.bool() {
                let mut f = rng.pick(&fronts).clone();
                f.position = 9;
                (f, "unknown_rule_position")
            } else {
                let l = if https_f { &https } else { &http };
                let a = if l.is_empty() { return None } else { *rng.pick(l) };
                (RequestHttpFrontend { cluster_id: Some("c0".to_owned()), address: a.into(), hostname: "absent.test".to_owned(), path: PathRule::prefix("/".to_owned()), ..Default::default() }, "absent_frontend")
            };
            Step { rt: if https_f { RequestType::RemoveHttpsFrontend(f) } else { RequestType::RemoveHttpFrontend(f) }, class }
        }
        19 => {
            let udp = rng.bool();
            let a = cell.a(if udp { UDP_PORTS[1] } else { TCP_PORTS[1] });
            let known = if udp { g.udp_listeners.contains_key(&a) } else { g.tcp_listeners.contains_key(&a) };
            let c = (*rng.pick(&CLUSTERS)).to_owned();
            let rt = match (udp, rng.bool()) {
                (true, true) => RequestType::AddUdpFrontend(RequestUdpFrontend { cluster_id: c, address: a.into(), ..Default::default() }),
                (true, false) => RequestType::RemoveUdpFrontend(RequestUdpFrontend { cluster_id: c, address: a.into(), ..Default::default() }),
                (false, true) => RequestType::AddTcpFrontend(RequestTcpFrontend { cluster_id: c, address: a.into(), ..Default::default() }),
                (false, false) => RequestType::RemoveTcpFrontend(RequestTcpFrontend { cluster_id: c, address: a.into(), ..Default::default() }),
            };
            Step { rt, class: if known { "frontend_on_existing_listener" } else { "unknown_listener" } }
        }
        20 => {
            // patch of a listener that does not exist
            let a = cell.a(9999);
            if rng.bool() {
                Step { rt: RequestType::UpdateHttpListener(UpdateHttpListenerConfig { address: a.into(), expect_proxy: Some(true), ..Default::default() }), class: "unknown_address" }
            } else {
                Step { rt: RequestType::UpdateHttpsListener(UpdateHttpsListenerConfig { address: a.into(), expect_proxy: Some(true), ..Default::default() }), class: "unknown_address" }
            }
        }
        _ => {
            let id = (*rng.pick(&CLUSTERS)).to_owned();
            Step {
                rt: RequestType::SetHealthCheck(sozu_command_lib::proto::command::SetHealthCheck {
                    cluster_id: id,
                    config: sozu_command_lib::proto::command::HealthCheckConfig { uri: "bad\r\nuri".to_owned(), interval: 30, timeout: 5, healthy_threshold: 0, unhealthy_threshold: 3, expected_status: 0 },
                }),
                class: "invalid_health_check",
            }
        }
    })
}

/// a healthy prior state: listeners of every kind, clusters, frontends, certificates, backends
fn setup(rng: &mut Rng, cell: Cell) -> Vec<RequestType> {
    let mut g = Gen::new(rng, cell, false);
    let mut out: Vec<RequestType> = Vec::new();
    // only what the main process's state accepts reaches a worker: the prior state stays reachable
    // (no two listeners on one address, ...)
    let mut push = |g: &mut Gen, rt: RequestType| {
        if g.g.dispatch(&req(&rt)).is_ok() {
            out.push(rt);
        }
    };
    for (kind, n) in [(LK::Http, 2usize), (LK::Https, 2), (LK::Tcp, 1), (LK::Udp, 1)] {
        for i in 0..n {
            if g.rng.chance(1, 5) {
                continue;
            }
            let a = cell.a(kind.ports()[i]);
            let rt = g.add_listener_rt(kind, a);
            push(&mut g, rt);
            if g.rng.chance(5, 6) {
                let rt = g.activate_rt(kind, a);
                push(&mut g, rt);
            }
            for _ in 0..g.rng.urange(1, 3) {
                let c = (*g.rng.pick(&CLUSTERS)).to_owned();
                if !g.g.clusters.contains_key(&c) && g.rng.chance(4, 5) {
                    let mut cl = Cluster { cluster_id: c.clone(), load_balancing: g.rng.below(3) as i32, ..Default::default() };
                    cl.sticky_session = g.rng.chance(1, 4);
                    // (the scripted backends speak HTTP/1.1 only: such a cluster answers 502/503 until
                    // the flag is turned off - a visible setting of the shared backend map)
                    if g.rng.chance(1, 5) {
                        cl.http2 = Some(true);
                    }
                    push(&mut g, RequestType::AddCluster(cl));
                }
                match kind {
                    LK::Tcp => push(&mut g, RequestType::AddTcpFrontend(RequestTcpFrontend { cluster_id: c.clone(), address: a.into(), ..Default::default() })),
                    LK::Udp => push(&mut g, RequestType::AddUdpFrontend(RequestUdpFrontend { cluster_id: c.clone(), address: a.into(), ..Default::default() })),
                    _ => {
                        let host = (*g.rng.pick(&HOSTS)).to_owned();
                        let prefix = if g.rng.chance(1, 3) { "/api" } else { "/" };
                        let cluster = if g.rng.chance(1, 10) { None } else { Some(c.clone()) };
                        let f = g.http_front(a, &host, prefix, cluster);
                        if kind == LK::Https {
                            if g.rng.chance(3, 4) {
                                let ck = cert_and_key(g.rng.usize_below(4), vec![host.clone()]);
                                push(&mut g, RequestType::AddCertificate(AddCertificate { address: a.into(), certificate: ck, expired_at: None }));
                            }
                            push(&mut g, RequestType::AddHttpsFrontend(f));
                        } else {
                            push(&mut g, RequestType::AddHttpFrontend(f));
                        }
                    }
                }
                if g.rng.chance(4, 5) {
                    let ba = cell.a(*g.rng.pick(&BACKEND_PORTS));
                    let id = (*g.rng.pick(&BACKEND_IDS)).to_owned();
                    let rt = g.add_backend_rt(&c, &id, ba);
                    push(&mut g, rt);
                }
            }
        }
    }
    // some history on top
    let mut model = g.g.clone();
    let before = g.out.len();
    for _ in 0..g.rng.urange(0, 12) {
        g.one();
    }
    for c in &g.out[before..] {
        if matches!(c.rt, RequestType::ReturnListenSockets(_) | RequestType::SoftStop(_) | RequestType::HardStop(_)) {
            continue;
        }
        if model.dispatch(&req(&c.rt)).is_ok() {
            out.push(c.rt.clone());
        }
    }
    out
}

fn status_of(w: &mut Worker, rt: RequestType, wait: Duration) -> Option<(i32, String)> {
    w.call(rt, wait).ok().map(|r| (r.status, r.message))
}

fn run_case(ctx: &Ctx, case: u64, rep: &mut Report) {
    let mut rng = Rng::for_case(ctx.seed, 77, case);
    let mut cell = Cell { ip: lab::fresh_ip() };
    let backend_addrs = |cell: Cell| BACKEND_PORTS.iter().map(|p| cell.a(*p)).collect::<Vec<_>>();
    let mut backends = match Backends::start(&backend_addrs(cell)) {
        Ok(b) => b,
        Err(_) => {
            cell = Cell { ip: lab::fresh_ip() };
            match Backends::start(&backend_addrs(cell)) {
                Ok(b) => b,
                Err(e) => return rep.inconclusive(&format!("worker part: could not start the scripted backends: {e}")),
            }
        }
    };
    let opts = WorkerOpts { front_timeout: 120, back_timeout: 120, connect_timeout: 60, request_timeout: 120, ..WorkerOpts::default() };
    let w = Worker::start(opts);
    let mut c = Cellw { cell, w, base: Duration::from_millis(1), probes: BTreeMap::new() };
    let mut rtts: Vec<Duration> = (0..3).filter_map(|_| {
        let t = Instant::now();
        c.w.call(RequestType::Status(Status {}), Duration::from_secs(20)).ok().map(|_| t.elapsed())
    }).collect();
    rtts.sort();
    if rtts.len() < 3 {
        rep.inconclusive("worker part: the worker did not answer the baseline Status requests");
        let _ = c.w.stop();
        backends.stop();
        return;
    }
    c.base = rtts[1].max(Duration::from_micros(100));

    // prior state (not judged)
    let prior = setup(&mut rng, cell);
    let mut model = ConfigState::new();
    let mut history: Vec<Value> = Vec::new();
    let mut alive = true;
    for rt in &prior {
        let _ = model.dispatch(&req(rt));
        let patience = c.wait(5000);
        match status_of(&mut c.w, rt.clone(), patience) {
            Some((st, _)) => history.push(json!([describe(rt), if st == ResponseStatus::Ok as i32 { "ok" } else { "failure" }])),
            None => {
                alive = false;
                break;
            }
        }
    }
    rep.obs("worker/setup_commands", prior.len() as u64);

    // judged commands
    let mut current: Option<Obs> = None;
    let mut shape: Vec<u8> = Vec::new();
    let mut judged_here = 0u64;
    let n_steps = rng.urange(5, 9);
    let mut step_no = 0;
    while alive && step_no < n_steps && c.w.is_running() && !ctx.out_of_time() {
        step_no += 1;
        let step = if rng.chance(4, 5) {
            match (0..8).find_map(|_| catalogue(&mut rng, &model, cell)) {
                Some(s) => s,
                None => continue,
            }
        } else {
            // noise of the C08 generator on the same model (raw: more invalid arguments)
            let mut g = Gen::new(&mut rng, cell, true);
            g.g = model.clone();
            g.one();
            match g.out.first() {
                // like the main process, forward only what its state accepts
                Some(cmd) if model.clone().dispatch(&req(&cmd.rt)).is_ok() => Step { rt: cmd.rt.clone(), class: "generated" },
                _ => continue,
            }
        };
        if matches!(step.rt, RequestType::ReturnListenSockets(_) | RequestType::SoftStop(_) | RequestType::HardStop(_)) {
            continue;
        }
        let v = verb(&step.rt);
        let before = match current.take() {
            Some(o) => o,
            None => c.observe(),
        };
        let master_accepts = model.clone().dispatch(&req(&step.rt)).is_ok();
        let patience = c.wait(5000);
        let Some((status, message)) = status_of(&mut c.w, step.rt.clone(), patience) else {
            alive = false;
            break;
        };
        let _ = model.dispatch(&req(&step.rt));
        shape.extend_from_slice(&[crate::common::rng::fnv1a(v.as_bytes()) as u8, crate::common::rng::fnv1a(step.class.as_bytes()) as u8, status as u8]);
        if status != ResponseStatus::Failure as i32 {
            rep.obs(&format!("worker/answered_ok/{v}/{}", step.class), 1);
            history.push(json!([describe(&step.rt), "ok"]));
            continue;
        }
        judged_here += 1;
        rep.obs("worker/failures_judged", 1);
        rep.obs(&format!("worker/failures_judged/{v}"), 1);
        rep.obs(&format!("worker/failures_judged/{v}/{}", step.class), 1);
        let after = c.observe();
        let mut changes = diff(&before, &after);
        if !changes.is_empty() {
            // a difference counts when a second observation still shows it
            let again = c.observe();
            let confirmed = diff(&before, &again);
            // ... with the same new fact (a fact that differs on every observation, such as a body
            // carrying a per-request value, says nothing)
            changes.retain(|(a, k, _, after)| confirmed.iter().any(|(a2, k2, _, after2)| a2 == a && k2 == k && after2 == after));
            if changes.is_empty() {
                rep.obs("worker/differences_not_confirmed_by_a_second_observation", 1);
            }
            current = Some(again);
        } else {
            current = Some(after);
        }
        let mut aspects: BTreeSet<&'static str> = BTreeSet::new();
        for (aspect, _, _, _) in &changes {
            aspects.insert(aspect);
        }
        for aspect in aspects {
            let sig = format!("worker/{aspect}_changed_by_failed_command/{v}/{}", step.class);
            let these: Vec<Value> = changes.iter().filter(|(a, _, _, _)| *a == aspect).map(|(_, k, b, a)| json!({"probe": k, "before": b, "after": a})).collect();
            rep.violation(
                &sig,
                &format!("the worker answered FAILURE to {v} ({}) but {aspect} differs from the observation taken right before the command: {}", step.class, these.first().map(|t| t.to_string()).unwrap_or_default()),
                json!({"part": "worker", "case": case, "seed": ctx.seed, "command": describe(&step.rt), "invalid_class": step.class,
                    "request": serde_json::to_value(req(&step.rt)).unwrap_or(Value::Null),
                    "worker_error": message.replace(&cell.ip.to_string(), ""), "main_process_state_accepts_it": master_accepts,
                    "changed": these, "history_before_the_command": history}),
            );
        }
        history.push(json!([describe(&step.rt), "failure"]));
    }
    if !alive || !c.w.is_running() {
        let panics = c.w.panics();
        if panics.is_empty() {
            rep.inconclusive("worker part: the worker stopped answering");
        }
        for p in panics {
            if p.in_sozu() {
                rep.violation(&p.signature(), &format!("worker thread panicked: {} at {}", p.message, p.location), json!({"part": "worker", "case": case, "seed": ctx.seed, "history": history}));
            } else {
                rep.broken(&format!("worker thread panicked outside sozu: {} at {}", p.message, p.location));
            }
        }
    }
    for (aspect, n) in &c.probes {
        rep.obs(&format!("worker/probes/{aspect}"), *n);
    }
    rep.obs_max("worker/baseline_status_rtt_us", c.base.as_micros() as u64);
    let Cellw { w, .. } = c;
    for p in w.stop() {
        if p.in_sozu() {
            rep.violation(&p.signature(), &format!("worker thread panicked: {} at {}", p.message, p.location), json!({"part": "worker", "case": case, "seed": ctx.seed}));
        }
    }
    backends.stop();
    rep.case_bytes(&shape, judged_here > 0);
}

/// cases of part (b) carry this offset in witnesses / replay files
pub const WORKER_BASE: u64 = 2_000_000_000;

pub fn replay_case(ctx: &Ctx, case: u64, rep: &mut Report) {
    run_case(ctx, case - WORKER_BASE, rep);
}

pub fn requirements(rep: &mut Report) {
    rep.assume("worker part: judged only through what does not come from the worker's ConfigState copy (that copy changing on FAILURE is the known C08 finding); tags are not observable at the boundary (access logs only) and are not judged; silence (no answer within the stretched wait, UDP without reply) is a wildcard, only positive facts are compared; which backend of a cluster answers is the load balancer's choice and is not compared");
    for k in [
        "worker/failures_judged",
        "worker/failures_judged/AddCluster/unparsable_answer_template",
        "worker/failures_judged/ReplaceCertificate",
        "worker/failures_judged/UpdateHttpListener",
        "worker/failures_judged/UpdateHttpsListener",
        "worker/failures_judged/UpdateHttpsListener/hsts_without_enabled",
        "worker/failures_judged/AddHttpsFrontend/duplicate_frontend",
        "worker/failures_judged/AddCertificate",
        "worker/probes/http_routing",
        "worker/probes/https_routing",
        "worker/probes/served_certificate",
        "worker/probes/resolver_certificates",
        "worker/probes/tcp_forwarding",
        "worker/probes/udp_forwarding",
        "worker/probes/listening_sockets",
        "worker/probes/backend_table",
    ] {
        rep.require(k);
    }
}

/// run part (b) for at most `share` of the budget, on a few cells per CPU
pub fn run_part(ctx: &Ctx, rep: &mut Report, share: f64) {
    lab::raise_fd_limit();
    let mut sub = ctx.clone();
    sub.threads = ctx.opt_u64("cells", (ctx.threads as u64 * 2).clamp(2, 48)) as usize;
    sub.budget = ctx.budget.mul_f64(share);
    let n = ctx.opt_u64("worker_cases", ctx.tier.pick(1_500, 20_000));
    let mut part = rep.fork();
    par_cases(&sub, &mut part, n, |i, r| run_case(&sub, i, r));
    // witnesses of this part are replayed through `replay_case`
    for v in part.violations.iter_mut() {
        if let Some(c) = v.witness["case"].as_u64() {
            v.witness["case"] = json!(c + WORKER_BASE);
        }
    }
    part.observed.remove("cases_not_started_budget_exhausted");
    rep.merge(part);
}
